import json, os, shutil, subprocess, sys, pathlib, concurrent.futures as cf, time
M=json.load(open('/tmp/triage/mut/mutants.json'))
BASE=pathlib.Path('/tmp/triage/mut')
def setup(w):
    d=BASE/f'w{w}'
    if d.exists(): shutil.rmtree(d)
    d.mkdir()
    for n in ('tests','docs','examples','README.rst','setup.cfg'):
        os.symlink('/repo/'+n, d/n)
    return d
def run(args):
    m,w=args
    d=BASE/f'w{w}'
    c=d/'concepts'
    if c.exists(): shutil.rmtree(c)
    shutil.copytree('/repo/concepts', c, ignore=shutil.ignore_patterns('__pycache__'))
    f=d/m['file']; src=f.read_text(encoding='utf-8')
    f.write_text(src[:m['a']]+m['new']+src[m['b']:], encoding='utf-8')
    t=time.time()
    try:
        p=subprocess.run(['/venv/bin/python','-m','pytest','-x','-q','-p','no:cacheprovider','--timeout=60',
            '-o','addopts=--doctest-modules --doctest-glob=*.rst --ignore=docs/conf.py','-o','log_file=','README.rst','docs','concepts','tests'],
            cwd=d,capture_output=True,text=True,timeout=200,env=dict(os.environ,PYTHONDONTWRITEBYTECODE='1'))
        rc=p.returncode; tail=p.stdout[-600:]
    except subprocess.TimeoutExpired:
        rc=-9; tail='TIMEOUT'
    return dict(id=m['id'],rc=rc,secs=round(time.time()-t,1),tail=tail if rc not in (0,) else '')
if __name__=='__main__':
    W=16
    for w in range(W): setup(w)
    # sanity: unmutated
    import itertools
    res=[]
    ids=list(range(len(M)))
    if len(sys.argv)>1: ids=ids[:int(sys.argv[1])]
    # assign worker by process pool with initializer giving worker index
    import multiprocessing as mp
    def init(q):
        global WID; WID=q.get()
    q=mp.Queue()
    for w in range(W): q.put(w)
    def task(i): return run((M[i],WID))
    with mp.Pool(W,initializer=init,initargs=(q,)) as pool:
        for k,r in enumerate(pool.imap_unordered(task,ids)):
            res.append(r)
            if k%100==0: print(k,time.strftime('%X'),flush=True)
    json.dump(res,open('/tmp/triage/mut/results.json','w'))
    print('survivors',sum(1 for r in res if r['rc']==0),'of',len(res))
