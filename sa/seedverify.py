"""Developer tool: confirm a delivered seeded change myself and file it under /verif/seeded/<id>/.

For each directory with patch.diff + demo.py: in a scratch git worktree of /repo (outside /repo and /verif)
  1. demo passes on the unchanged tree,
  2. the patch applies, the pinned test-suite still passes (301 passed),
  3. the demo fails with the patch,
then the worktree is reverted.  The outcome and the verdict of every check (run statically on a scratch copy)
are written to meta.json next to a copy of patch.diff and demo.py.

    python -m sa.seedverify /tmp/seeded_out/C01_a [...]
"""

import json
import pathlib
import re
import shutil
import subprocess
import sys

from . import seedcheck

WT = pathlib.Path('/tmp/wt/verify')
SEEDED = pathlib.Path(__file__).resolve().parent.parent / 'seeded'
PY = '/venv/bin/python'


def sh(cmd, cwd, timeout=600):
    r = subprocess.run(cmd, cwd=cwd, capture_output=True, text=True, timeout=timeout)
    return r.returncode, (r.stdout + r.stderr)


def ensure_wt():
    if not WT.exists():
        subprocess.run(['git', '-C', '/repo', 'worktree', 'add', '-q', '--detach', str(WT), 'HEAD'], check=True)
    sh(['git', 'checkout', '-q', '--', '.'], WT)
    sh(['git', 'clean', '-fdq'], WT)


def verify(d):
    d = pathlib.Path(d)
    ensure_wt()
    out = {'seed': d.name}
    shutil.copy(d / 'demo.py', WT / 'demo.py')
    rc, log = sh([PY, 'demo.py'], WT)
    out['demo_passes_without_change'] = rc == 0
    rc, log = sh(['git', 'apply', str(d / 'patch.diff')], WT)
    out['patch_applies'] = rc == 0
    if rc == 0:
        rc, log = sh([PY, '-m', 'pytest', '-q', '-p', 'no:cacheprovider', '-x'], WT)
        m = re.search(r'(\d+) passed', log)
        out['tests_with_change'] = f'{m.group(1)} passed' if m else log[-200:]
        out['tests_pass_with_change'] = rc == 0 and bool(m) and m.group(1) == '301'
        rc, log = sh([PY, 'demo.py'], WT)
        out['demo_fails_with_change'] = rc != 0
        out['demo_message'] = log.strip().splitlines()[-1][:300] if log.strip() else ''
    sh(['git', 'checkout', '-q', '--', '.'], WT)
    (WT / 'demo.py').unlink(missing_ok=True)
    sh(['git', 'clean', '-fdq'], WT)
    out['confirmed'] = all(out.get(k) for k in ('demo_passes_without_change', 'patch_applies', 'tests_pass_with_change', 'demo_fails_with_change'))
    return out


def main(argv):
    for a in argv:
        d = pathlib.Path(a)
        if not (d / 'patch.diff').exists() or not (d / 'demo.py').exists():
            continue
        res = verify(d)
        print(d.name, 'CONFIRMED' if res['confirmed'] else 'REJECTED', {k: v for k, v in res.items() if k not in ('seed',)})
        if not res['confirmed']:
            continue
        meta = {}
        if (d / 'meta.json').exists():
            try:
                meta = json.loads((d / 'meta.json').read_text())
            except Exception:
                meta = {'raw_meta': (d / 'meta.json').read_text()[:2000]}
        chk = seedcheck.evaluate(d)
        target = SEEDED / d.name
        target.mkdir(parents=True, exist_ok=True)
        shutil.copy(d / 'patch.diff', target / 'patch.diff')
        shutil.copy(d / 'demo.py', target / 'demo.py')
        prop = meta.get('property', d.name[:3])
        viol = sorted(p for p, rc in chk['res'].items() if rc == 1)
        err = sorted(p for p, rc in chk['res'].items() if rc == 2)
        record = {
            'property': prop,
            'summary': meta.get('summary', ''),
            'needs_to_manifest': meta.get('needs_to_manifest', ''),
            'files': meta.get('files', []),
            'origin': 'independent sub-agent given only the property text and a scratch worktree',
            'confirmed_by_me': {
                'ran': ['cd <scratch worktree of /repo HEAD> && /venv/bin/python demo.py   (unchanged tree: exit 0)',
                        'git apply patch.diff && /venv/bin/python -m pytest -q -p no:cacheprovider -x   (301 passed)',
                        '/venv/bin/python demo.py   (with the change: non-zero exit)'],
                'tests_with_change': res.get('tests_with_change'),
                'demo_message_with_change': res.get('demo_message'),
            },
            'static_checks': {
                'reported_violation': viol,
                'analysis_error_exit2': err,
                'own_property_verdict': 'VIOLATION' if prop in viol else ('ANALYSIS-ERROR (unrecognised construct, exit 2)' if prop in err else 'missed'),
                'first_findings': {p: chk['detail'].get(p, [])[:2] for p in (viol + err)[:4]},
            },
        }
        (target / 'meta.json').write_text(json.dumps(record, indent=1) + '\n')


if __name__ == '__main__':
    main(sys.argv[1:])
