"""Effect extraction for container-typed fields (``self._objects``, ``self._pairs`` ...).

Every in-place operation on a tracked field of some root name is turned into an :class:`Eff`
record with its enclosing conditions, loops and comprehension generators; local aliases such as
``pairs = self._pairs`` are substituted first.
"""

import ast

from .astutil import Env, chain, src, walk

AUG = {ast.BitOr: 'ior', ast.BitAnd: 'iand', ast.Sub: 'isub', ast.BitXor: 'ixor', ast.Add: 'iadd'}


class Eff:
    __slots__ = ('root', 'field', 'op', 'args', 'node', 'conds', 'guards', 'loops', 'gens', 'stmt', 'negated', 'order')

    def __init__(self, root, field, op, args, node, conds, loops, gens, stmt, negated=None, order=0):
        self.root = root
        self.field = field
        self.op = op
        self.args = args
        self.node = node
        # [(test, polarity)]: nesting conditions; guard clauses (``if c: return/raise``) that precede the effect are kept
        # apart in .guards - the effect is unconditional on every path that gets past them
        self.conds = [c for c in conds if len(c) == 2]
        self.guards = [(c[0], c[1]) for c in conds if len(c) == 3]
        self.loops = list(loops)    # [(target, iter)]
        self.gens = list(gens)      # comprehension generators enclosing the call (ast.comprehension)
        self.stmt = stmt
        self.negated = negated      # for calls used in boolean position inside a filter: wrapped in ``not``?
        self.order = order

    @property
    def allconds(self):
        return self.conds + self.guards

    @property
    def unconditional(self):
        return not self.conds and not self.loops and not self.gens

    def __repr__(self):
        return f'<Eff {self.root}.{self.field}.{self.op}({", ".join(src(a) for a in self.args)})>'


class Effects:

    def __init__(self, func, fields, roots=None):
        self.func = func
        self.fields = set(fields)
        self.env = Env(func)
        self.roots = roots
        self.records = []
        self.field_reads = []
        self._n = 0
        self._body(func.body, [], [])

    # -------------------------------------------------------------- traversal

    def _target(self, node):
        """Resolve an expression to (root, field) if it denotes a tracked field (after alias expansion)."""
        node = self.env.expand(node)
        c = chain(node)
        if c and len(c) == 2 and c[1] in self.fields and (self.roots is None or c[0] in self.roots):
            return c[0], c[1]
        return None

    def _body(self, body, conds, loops):
        conds = list(conds)
        for s in body:
            if isinstance(s, (ast.FunctionDef, ast.AsyncFunctionDef, ast.ClassDef)):
                continue
            if isinstance(s, ast.If):
                self._exprs(s.test, s, conds, loops)
                self._body(s.body, conds + [(s.test, True)], loops)
                self._body(s.orelse, conds + [(s.test, False)], loops)
                # guard clause: ``if c: return/raise/continue/break`` makes the rest of the block conditional on not c
                if s.body and isinstance(s.body[-1], (ast.Return, ast.Raise, ast.Continue, ast.Break)) and not s.orelse:
                    conds = conds + [(s.test, False, 'guard')]
                elif s.orelse and isinstance(s.orelse[-1], (ast.Return, ast.Raise, ast.Continue, ast.Break)) \
                        and not (s.body and isinstance(s.body[-1], (ast.Return, ast.Raise, ast.Continue, ast.Break))):
                    conds = conds + [(s.test, True, 'guard')]
            elif isinstance(s, (ast.For, ast.AsyncFor)):
                self._exprs(s.iter, s, conds, loops)
                self._body(s.body, conds, loops + [(s.target, s.iter)])
                self._body(s.orelse, conds, loops)
            elif isinstance(s, ast.While):
                self._exprs(s.test, s, conds, loops)
                self._body(s.body, conds, loops + [(None, s.test)])
            elif isinstance(s, ast.Try):
                self._body(s.body, conds, loops)
                for h in s.handlers:
                    self._body(h.body, conds + [(h, True)], loops)
                self._body(s.orelse, conds, loops)
                self._body(s.finalbody, conds, loops)
            elif isinstance(s, ast.With):
                self._body(s.body, conds, loops)
            elif isinstance(s, ast.AugAssign):
                t = self._target(s.target)
                if t and type(s.op) in AUG:
                    self._rec(t, AUG[type(s.op)], [s.value], s, conds, loops, [], s)
                self._exprs(s.value, s, conds, loops)
            elif isinstance(s, ast.Assign):
                for tgt in s.targets:
                    t = self._target(tgt) if isinstance(tgt, ast.Attribute) else None
                    if t:
                        self._rec(t, 'assign', [s.value], s, conds, loops, [], s)
                    elif isinstance(tgt, ast.Subscript):
                        t = self._target(tgt.value)
                        if t:
                            self._rec(t, 'setitem', [tgt.slice, s.value], s, conds, loops, [], s)
                self._exprs(s.value, s, conds, loops)
            elif isinstance(s, ast.Delete):
                for tgt in s.targets:
                    if isinstance(tgt, ast.Subscript):
                        t = self._target(tgt.value)
                        if t:
                            self._rec(t, 'delitem', [tgt.slice], s, conds, loops, [], s)
            else:
                for child in ast.iter_child_nodes(s):
                    if isinstance(child, ast.expr):
                        self._exprs(child, s, conds, loops)

    def _exprs(self, expr, stmt, conds, loops, gens=(), negated=False):
        """Find method calls on tracked fields anywhere inside an expression."""
        if expr is None:
            return
        if isinstance(expr, (ast.GeneratorExp, ast.SetComp, ast.ListComp, ast.DictComp)):
            g = list(gens)
            for comp in expr.generators:
                self._exprs(comp.iter, stmt, conds, loops, g)
                g = g + [comp]
                for cond in comp.ifs:
                    self._exprs(cond, stmt, conds, loops, g)
            if isinstance(expr, ast.DictComp):
                self._exprs(expr.key, stmt, conds, loops, g)
                self._exprs(expr.value, stmt, conds, loops, g)
            else:
                self._exprs(expr.elt, stmt, conds, loops, g)
            return
        if isinstance(expr, ast.UnaryOp) and isinstance(expr.op, ast.Not):
            self._exprs(expr.operand, stmt, conds, loops, gens, not negated)
            return
        if isinstance(expr, ast.BoolOp) and not gens:
            # short-circuit evaluation: the n-th operand runs only if all earlier ones were falsy (or) / truthy (and)
            c = list(conds)
            for v in expr.values:
                self._exprs(v, stmt, c, loops, gens, False)
                c = c + [(v, isinstance(expr.op, ast.And))]
            return
        if isinstance(expr, ast.IfExp):
            self._exprs(expr.test, stmt, conds, loops, gens, False)
            self._exprs(expr.body, stmt, list(conds) + [(expr.test, True)], loops, gens, False)
            self._exprs(expr.orelse, stmt, list(conds) + [(expr.test, False)], loops, gens, False)
            return
        if isinstance(expr, ast.Call) and isinstance(expr.func, ast.Attribute):
            t = self._target(expr.func.value)
            if t:
                self._rec(t, expr.func.attr, list(expr.args), expr, conds, loops, gens, stmt, negated)
        if isinstance(expr, ast.Call) and isinstance(expr.func, ast.IfExp):
            # (A.add if c else A.discard)(x): two conditional effects
            for arm, pol in ((expr.func.body, True), (expr.func.orelse, False)):
                if isinstance(arm, ast.Attribute):
                    t = self._target(arm.value)
                    if t:
                        self._rec(t, arm.attr, list(expr.args), expr, list(conds) + [(expr.func.test, pol)], loops, gens, stmt, negated)
        if isinstance(expr, ast.Lambda):
            return
        for child in ast.iter_child_nodes(expr):
            if isinstance(child, ast.expr):
                self._exprs(child, stmt, conds, loops, gens, False)
            elif isinstance(child, ast.comprehension):  # pragma: no cover
                pass
            elif isinstance(child, ast.keyword):
                self._exprs(child.value, stmt, conds, loops, gens, False)

    def escapes(self):
        """Calls that hand a tracked container (or the owning object itself) to a callable the extractor does not see
        into: effects may happen there, so *absence* of an effect in this function proves nothing."""
        out = []
        for n in walk(self.func.body):
            if not isinstance(n, ast.Call):
                continue
            name = '.'.join(chain(n.func) or [])
            if name.split('.')[-1] in ('len', 'iter', 'list', 'tuple', 'set', 'frozenset', 'sorted', 'zip', 'enumerate', 'isinstance',
                                       'Unique', 'repr', 'str', 'bool', 'any', 'all', 'sum', 'min', 'max', 'map', 'filter', 'Fraction',
                                       '_fromargs', 'ensure_compatible', 'conflicting_pairs', 'issuperset', 'rsub', 'crc32_hex', 'dumps'):
                continue
            if isinstance(n.func, ast.Attribute) and self._target(n.func.value):
                continue
            for a in list(n.args) + [k.value for k in n.keywords]:
                if isinstance(a, ast.Starred):
                    a = a.value
                if self._target(a) is not None:
                    out.append(n)
        return out

    def _rec(self, target, op, args, node, conds, loops, gens, stmt, negated=None):
        self._n += 1
        self.records.append(Eff(target[0], target[1], op, args, node, conds, loops, gens, stmt, negated, self._n))

    # ------------------------------------------------------------------ query

    def on(self, field, ops=None, root=None):
        return [e for e in self.records if e.field == field and (ops is None or e.op in ops)
                and (root is None or e.root == root)]

    def mutations(self, mutating_ops, root=None):
        return [e for e in self.records if e.op in mutating_ops and (root is None or e.root == root)]
