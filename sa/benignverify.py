"""Developer tool: confirm a delivered behaviour-preserving change myself and file it under /verif/benign/<prefix><id>/.

For each directory with patch.diff + equiv.py: in a scratch git worktree of /repo (outside /repo and /verif) the patch is
applied, the pinned suite must still report 301 passed and the agent's equivalence script must exit 0 (it is not kept:
only patch.diff and meta.json with what I ran are stored).  The worktree is reverted afterwards.

    python -m sa.benignverify r2_ /tmp/benign_out2/core_1 [...]
"""

import json
import pathlib
import re
import shutil
import sys

from .seedverify import WT, PY, sh, ensure_wt

BENIGN = pathlib.Path(__file__).resolve().parent.parent / 'benign'


def main(argv):
    prefix, dirs = argv[0], argv[1:]
    for a in dirs:
        d = pathlib.Path(a)
        if not (d / 'patch.diff').exists() or not (d / 'equiv.py').exists():
            continue
        ensure_wt()
        rc, log = sh(['git', 'apply', str(d / 'patch.diff')], WT)
        if rc:
            print(d.name, 'REJECTED patch does not apply', log[-200:])
            continue
        rc_t, log_t = sh(['timeout', '300', PY, '-m', 'pytest', '-q', '-p', 'no:cacheprovider', '-x'], WT)
        m = re.search(r'(\d+ passed[^\n]*)', log_t)
        for extra in d.iterdir():           # support files the script may import
            if extra.suffix == '.py' and extra.name != 'equiv.py':
                shutil.copy(extra, WT / extra.name)
        shutil.copy(d / 'equiv.py', WT / 'equiv.py')
        rc_e, log_e = sh(['timeout', '900', PY, 'equiv.py'], WT, timeout=1000)
        sh(['git', 'checkout', '-q', '--', '.'], WT)
        sh(['git', 'clean', '-fdq'], WT)
        ok = rc_t == 0 and bool(m) and m.group(1).startswith('301 passed') and rc_e == 0
        print(d.name, 'CONFIRMED' if ok else 'REJECTED', m.group(1) if m else log_t[-200:], 'equiv rc', rc_e, '' if rc_e == 0 else log_e[-300:])
        if not ok:
            continue
        meta = {}
        try:
            meta = json.loads((d / 'meta.json').read_text())
        except Exception:
            pass
        meta['origin'] = 'independent sub-agent asked for behaviour-preserving changes (no access to /verif)'
        meta['confirmed_by_me'] = {
            'ran': ['git apply patch.diff in a scratch worktree of /repo HEAD', f'{PY} -m pytest -q -p no:cacheprovider -x',
                    "the agent's equivalence script (equiv.py, not kept here)"],
            'tests_with_change': m.group(1), 'equiv_exit_code': rc_e}
        target = BENIGN / (prefix + d.name)
        target.mkdir(parents=True, exist_ok=True)
        shutil.copy(d / 'patch.diff', target / 'patch.diff')
        (target / 'meta.json').write_text(json.dumps(meta, indent=1))


if __name__ == '__main__':
    main(sys.argv[1:])
