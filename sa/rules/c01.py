"""C01: the derivation operators are AND-reductions over exactly the indicated vectors.
Decides (a) wiring and sorts: Relation.__new__ builds the second vector family from the
transposition of the first and pairs the two crosswise with the index each has in the tuple; in
Vectors._pair_with every phase that scans a value of one bit-set class reduces over the *other*
family, starts from that family's all-ones value (empty collection => everything), and is wrapped
by that family's class; doubleprime returns (closure, derivation) in that order; the closures are
registered under their own names; intension/extension route through frommembers(...).prime() of
the right class with raw and label forms of the same value; (b) bit-scan loop discipline for each
of the five loops: the position counter reaches the loop as constant 0, every iteration advances
counter and scanned value by the same amount >= 1, that amount is the number of trailing zeros
(idiom table) or 1, the reduction step runs exactly when bit 0 of the scanned value is set and
indexes the family with the un-shifted counter; nothing else writes counter/scanned
value/accumulator; a value that is returned is not consumed by a later scan; (c) arbitrary
precision: no float-valued operation and no fixed-width constant takes part in bit/position
arithmetic in matrices.py and algorithms/.  Given the axioms about bitsets, (a)+(b) imply the
statement; the bitsets primitives themselves are outside /repo.
"""

import ast

from ..astutil import Env, chain, src, walk, const, stmts, strip_not
from ..model import Unrecognised
from .c13 import name_is


# ------------------------------------------------------------------ C01.b loops

def tz_idiom(node, b):
    """Is ``node`` the number of trailing zero bits of name ``b``?  (b & -b).bit_length() - 1 and equivalent forms."""
    if not (isinstance(node, ast.BinOp) and isinstance(node.op, ast.Sub) and const(node.right) == 1):
        return False
    c = node.left
    if not (isinstance(c, ast.Call) and isinstance(c.func, ast.Attribute) and c.func.attr == 'bit_length' and not c.args):
        return False
    x = c.func.value
    if not isinstance(x, ast.BinOp):
        return False

    def is_b(n):
        return name_is(n, b)

    def is_neg_b(n):
        return isinstance(n, ast.UnaryOp) and isinstance(n.op, ast.USub) and is_b(n.operand)

    def is_b_minus_1(n):
        return isinstance(n, ast.BinOp) and isinstance(n.op, ast.Sub) and is_b(n.left) and const(n.right) == 1

    l, r, op = x.left, x.right, type(x.op)
    for l, r in ((l, r), (r, l)):
        # b & -b (lowest set bit), b | -b (= -(lowest set bit)), b ^ -b (= -(2*lowest)): bit_length-1 == tz for the first two
        if is_b(l) and is_neg_b(r) and op in (ast.BitAnd, ast.BitOr):
            return True
        # b & ~(b - 1)
        if (op is ast.BitAnd and is_b(l) and isinstance(r, ast.UnaryOp) and isinstance(r.op, ast.Invert) and is_b_minus_1(r.operand)):
            return True
        # b ^ (b & (b - 1))
        if (op is ast.BitXor and is_b(l) and isinstance(r, ast.BinOp) and isinstance(r.op, ast.BitAnd)
                and ((is_b(r.left) and is_b_minus_1(r.right)) or (is_b(r.right) and is_b_minus_1(r.left)))):
            return True
    return False


def loop_paths(body, b, i, acc):
    """Path summary of a bit-scan loop body made of plain / augmented assignments to names and if/else: for every path
    the final values of (i, b, acc) as terms over the values at the loop head (``i0``, ``b0``, ``acc0``, ``TZ`` = number of
    trailing zero bits of b0) and the branch decisions taken, each reduced to "bit 0 of b0 set / clear".  None when a
    statement or a test falls outside that fragment."""
    out = []

    def term(node, env):
        if isinstance(node, ast.Name):
            return env.get(node.id, ('var', node.id))
        if isinstance(node, ast.Constant) and isinstance(node.value, int) and not isinstance(node.value, bool):
            return ('const', node.value)
        if isinstance(node, ast.Subscript) and isinstance(node.value, ast.Name):
            return ('item', node.value.id, term(node.slice, env))
        if tz_idiom(node, b) and env.get(b) == ('var', 'b0'):
            return ('TZ',)
        if isinstance(node, ast.BinOp) and type(node.op) in (ast.Add, ast.RShift, ast.BitAnd):
            l, r = term(node.left, env), term(node.right, env)
            if l is None or r is None:
                return None
            if isinstance(node.op, ast.Add) and l[0] == 'const' and r[0] == 'const':
                return ('const', l[1] + r[1])
            return ({ast.Add: '+', ast.RShift: '>>', ast.BitAnd: '&'}[type(node.op)], l, r)
        return None

    def decide(test, env):
        """True / False when the test is decided by the path so far, 'set' / 'clear' pattern otherwise -> (bit0 polarity) or None."""
        inner, neg = strip_not(test)
        t = term(inner, env) if not isinstance(inner, ast.Compare) else None
        if isinstance(inner, ast.Compare) and len(inner.ops) == 1 and isinstance(inner.ops[0], (ast.Eq, ast.NotEq)) and const(inner.comparators[0], 'x') == 0:
            t = term(inner.left, env)
            neg = neg != isinstance(inner.ops[0], ast.Eq)
        if t == ('TZ',):                       # truthy TZ <=> bit 0 clear
            return 'clear' if not neg else 'set'
        if t in (('&', ('var', 'b0'), ('const', 1)), ('&', ('const', 1), ('var', 'b0'))):
            return 'set' if not neg else 'clear'
        if t is not None and t[0] == 'const':
            return bool(t[1]) != neg
        return None

    def run(block, env, bit0):
        for k, st in enumerate(block):
            rest = block[k + 1:]
            if isinstance(st, ast.Pass):
                continue
            if isinstance(st, ast.Assign) and len(st.targets) == 1 and isinstance(st.targets[0], ast.Name):
                v = term(st.value, env)
                if v is None:
                    return False
                env = dict(env, **{st.targets[0].id: v})
                continue
            if isinstance(st, ast.AugAssign) and isinstance(st.target, ast.Name) and type(st.op) in (ast.Add, ast.RShift, ast.BitAnd):
                v = term(ast.BinOp(left=ast.Name(id=st.target.id, ctx=ast.Load()), op=st.op, right=st.value), env)
                if v is None:
                    return False
                env = dict(env, **{st.target.id: v})
                continue
            if isinstance(st, ast.If):
                d = decide(st.test, env)
                if d is None:
                    return False
                arms = []
                if d is True or d is False:
                    arms = [(st.body if d else st.orelse, bit0)]
                else:
                    other = 'clear' if d == 'set' else 'set'
                    for pol, arm in ((d, st.body), (other, st.orelse)):
                        if bit0 is None or bit0 == pol:
                            arms.append((arm, pol))
                return all(run(list(arm) + rest, env, pol) for arm, pol in arms)
            return False
        out.append((bit0, env.get(i), env.get(b), env.get(acc)))
        return True

    ok = run(list(body), {i: ('var', 'i0'), b: ('var', 'b0'), acc: ('var', 'acc0')}, None)
    return out if ok else None


def decide_loop_by_paths(R, func, loop, label, b, i, acc, coll):
    """Decide the loop body from its path summary: on the paths where bit 0 of the scanned value is set the accumulator is
    intersected with family[position] and both counter and value advance by one; on the others the accumulator is
    untouched and both advance by the same amount, one or the number of trailing zeros."""
    rule = 'BITSCAN'
    paths = loop_paths(loop.body, b, i, acc)
    if paths is None:
        return False
    i0, b0, a0 = ('var', 'i0'), ('var', 'b0'), ('var', 'acc0')
    one, tz = ('const', 1), ('TZ',)
    fam = ('item', coll, i0)
    problems = []
    seen = set()
    for bit0, vi, vb, va in paths:
        pols = ['set', 'clear'] if bit0 is None else [bit0]
        for pol in pols:
            seen.add(pol)
            steps = [one] if pol == 'set' else [one, tz]
            if not any(vi == ('+', i0, k) and vb == ('>>', b0, k) for k in steps):
                problems.append(f'bit 0 {pol}: counter -> {fmt_term(vi)}, scanned value -> {fmt_term(vb)}')
            want_acc = [('&', a0, fam), ('&', fam, a0)] if pol == 'set' else [a0]
            if va not in want_acc:
                problems.append(f'bit 0 {pol}: accumulator -> {fmt_term(va)}')
    if seen != {'set', 'clear'}:
        problems.append(f'paths cover only bit 0 {sorted(seen)}')
    R.decided(not problems, rule, func, loop, f'{label}: per-path effect of one iteration (bit 0 set: acc &= family[i], advance 1; clear: advance 1 or the trailing zeros)',
              f'set: {acc} & {coll}[i], i + 1, {b} >> 1;  clear: {acc}, i + k, {b} >> k (k = 1 or trailing zeros)', '; '.join(problems),
              extra={'paths': len(paths)})
    return True


def fmt_term(t):
    if t is None:
        return '?'
    if t[0] == 'var':
        return {'i0': 'i', 'b0': 'b', 'acc0': 'acc'}.get(t[1], t[1])
    if t[0] == 'const':
        return str(t[1])
    if t[0] == 'TZ':
        return 'tz(b)'
    if t[0] == 'item':
        return f'{t[1]}[{fmt_term(t[2])}]'
    return f'({fmt_term(t[1])} {t[0]} {fmt_term(t[2])})'


def check_loop(R, func, loop, seq_before, label):
    """Bit-scan discipline of one ``while b:`` loop.  Returns dict(b, i, acc, coll) or None."""
    rule = 'BITSCAN'
    if not isinstance(loop.test, ast.Name):
        R.unknown(rule, func, loop, f'{label}: loop test', f'not "while <name>": {src(loop.test)}')
        return None
    b = loop.test.id
    body = loop.body
    # locate the reduction step
    red = [s for s in stmts(body) if isinstance(s, ast.AugAssign) and isinstance(s.value, ast.Subscript)]
    if len(red) != 1 or not isinstance(red[0].target, ast.Name) or not isinstance(red[0].value.value, ast.Name):
        if not red:
            R.bad(rule, func, loop, f'{label}: reduction step', 'acc &= family[i] for every set bit', 'no reduction step in the loop')
            return None
        R.unknown(rule, func, loop, f'{label}: reduction step', f'{len(red)} candidate steps')
        return None
    step = red[0]
    acc, coll, idx = step.target.id, step.value.value.id, step.value.slice
    R.check(isinstance(step.op, ast.BitAnd), rule, func, step, f'{label}: reduction is an intersection', f'{acc} &= {coll}[i]', src(step))
    if not isinstance(idx, ast.Name):
        R.bad(rule, func, step, f'{label}: family indexed by the un-shifted position counter', f'{coll}[i]', src(step.value))
        return None
    i = idx.id
    # counter reaches the loop as constant 0
    init = None
    for s in seq_before:
        for n in ([s] if not isinstance(s, (ast.While, ast.For, ast.If)) else list(stmts([s]))):
            if isinstance(n, (ast.Assign, ast.AugAssign)) and i in [t.id for t in ast.walk(n) if isinstance(t, ast.Name) and isinstance(t.ctx, ast.Store)]:
                init = n
    ok = isinstance(init, ast.Assign) and len(init.targets) == 1 and name_is(init.targets[0], i) and const(init.value, 'x') == 0 \
        and not isinstance(const(init.value), bool)
    R.check(ok, rule, func, init or loop, f'{label}: position counter starts at 0', f'{i} = 0 immediately reaching the loop',
            src(init) if init is not None else 'no initialisation')
    # increments: exactly one ``i += s`` and one ``b >>= s`` at top level, same s
    incs = [s for s in stmts(body) if isinstance(s, ast.AugAssign) and name_is(s.target, i)]
    shs = [s for s in stmts(body) if isinstance(s, ast.AugAssign) and name_is(s.target, b)]
    other_writes = [s for s in stmts(body) if (isinstance(s, ast.Assign) and any(name_is(t, v) for t in s.targets for v in (i, b, acc)))
                    or (isinstance(s, ast.AugAssign) and name_is(s.target, acc) and s is not step)]
    R.check(not other_writes, rule, func, other_writes[0] if other_writes else loop, f'{label}: nothing else writes counter / scanned value / accumulator',
            'no other writes', '; '.join(src(s) for s in other_writes))
    if len(incs) != 1 or len(shs) != 1 or incs[0] not in body or shs[0] not in body:
        if not incs:
            R.bad(rule, func, loop, f'{label}: counter advances every iteration', f'{i} += shift', 'counter never advances')
        elif not shs:
            R.bad(rule, func, loop, f'{label}: scanned value shifted every iteration', f'{b} >>= shift', 'scanned value never shifted')
        elif not decide_loop_by_paths(R, func, loop, label, b, i, acc, coll):
            R.unknown(rule, func, loop, f'{label}: advance statements', 'not exactly one unconditional "i += s" and "b >>= s"')
        return dict(b=b, i=i, acc=acc, coll=coll)
    inc, sh = incs[0], shs[0]
    R.check(isinstance(inc.op, ast.Add) and isinstance(sh.op, ast.RShift), rule, func, inc, f'{label}: counter += / scanned >>=', f'{i} += s; {b} >>= s',
            f'{src(inc)}; {src(sh)}')
    same = src(inc.value) == src(sh.value)
    R.check(same, rule, func, sh, f'{label}: counter and scanned value advance by the same amount', f'{i} += s and {b} >>= s with one s',
            f'{src(inc)} / {src(sh)}')
    if not same:
        return dict(b=b, i=i, acc=acc, coll=coll)
    sv = inc.value
    guard_kind = None
    if isinstance(sv, ast.Constant) and sv.value == 1:
        # plain one-bit scan: step must be guarded by ``b & 1``
        gi = [s for s in body if isinstance(s, ast.If) and any(n is step for n in stmts(s.body))]
        ok = False
        if gi:
            t = gi[0].test
            ok = (isinstance(t, ast.BinOp) and isinstance(t.op, ast.BitAnd)
                  and ((name_is(t.left, b) and const(t.right) == 1) or (name_is(t.right, b) and const(t.left) == 1)))
        R.check(ok, rule, func, gi[0] if gi else step, f'{label}: reduction runs exactly when bit 0 is set', f'if {b} & 1:', src(gi[0].test) if gi else 'unguarded')
        R.check(gi and gi[0].lineno < min(inc.lineno, sh.lineno) if gi else False, rule, func, step, f'{label}: reduction precedes the advance', 'step before i += 1')
    elif isinstance(sv, ast.Name):
        s = sv.id
        defs = [x for x in body if isinstance(x, ast.Assign) and name_is(x.targets[0], s)]
        ok = len(defs) == 1 and tz_idiom(defs[0].value, b) and defs[0].lineno < min(inc.lineno, sh.lineno)
        R.check(ok, rule, func, defs[0] if defs else loop, f'{label}: advance = number of trailing zero bits of the scanned value',
                f'{s} = ({b} & -{b}).bit_length() - 1', src(defs[0].value) if defs else 'no definition')
        gi = [x for x in body if isinstance(x, ast.If)]
        if len(gi) != 1 or gi[0].orelse:
            if not decide_loop_by_paths(R, func, loop, label, b, i, acc, coll):
                R.unknown(rule, func, loop, f'{label}: bit-0 branch', f'{len(gi)} branches')
            return dict(b=b, i=i, acc=acc, coll=coll)
        g = gi[0]
        t, neg = strip_not(g.test)
        zero_test = (neg and name_is(t, s)) or (not neg and isinstance(t, ast.Compare) and len(t.ops) == 1 and isinstance(t.ops[0], ast.Eq)
                                                 and name_is(t.left, s) and const(t.comparators[0], 'x') == 0)
        R.check(bool(zero_test), rule, func, g, f'{label}: branch taken exactly when there is no trailing zero (bit 0 set)', f'if not {s}:', src(g.test))
        R.check(any(n is step for n in g.body), rule, func, step, f'{label}: reduction runs exactly when bit 0 is set', f'step inside "if not {s}"',
                'step outside the branch' if step in body else 'elsewhere')
        sets = [x for x in g.body if isinstance(x, ast.Assign) and name_is(x.targets[0], s)]
        ok = len(sets) == 1 and const(sets[0].value, 'x') == 1 and not isinstance(const(sets[0].value), bool)
        R.check(ok, rule, func, sets[0] if sets else g, f'{label}: a set bit advances by exactly one position', f'{s} = 1',
                src(sets[0]) if sets else 'no assignment (no progress: endless loop)',
                extra={'consequence': 'advancing by 2 after a set bit skips the next position: derivations ignore every second of adjacent members'})
        R.check(g.lineno > defs[0].lineno and g.lineno < min(inc.lineno, sh.lineno) if defs else False, rule, func, g,
                f'{label}: order: shift computed, bit-0 branch, then advance', 'tz; branch; advance')
        extra = [x for x in g.body if x is not step and x not in sets]
        R.check(not extra, rule, func, extra[0] if extra else g, f'{label}: branch does nothing else', 'only "s = 1" and the reduction', src(extra)[:60] if extra else '')
    else:
        R.unknown(rule, func, inc, f'{label}: advance amount', src(sv))
    return dict(b=b, i=i, acc=acc, coll=coll)


# ------------------------------------------------------------------ C01.a closures

def closure_rules(model, R):
    pw = model.func('matrices.Vectors._pair_with')
    self_, p_rel, p_idx, other = pw.params[:4]
    # seeds and wrappers
    glob = {}
    for s in pw.body:
        if isinstance(s, ast.Assign) and isinstance(s.targets[0], ast.Name):
            c = chain(s.value)
            if c and len(c) == 3 and c[1] == 'BitSet' and c[0] in (self_, other):
                glob[s.targets[0].id] = (c[2], 'S' if c[0] == self_ else 'T')
    FAMILY = {other: 'T', self_: 'S'}   # family[i] yields values of that class
    results = {}
    R.floor('BITSCAN', 20)
    for name in ('prime', 'double', 'doubleprime'):
        f = pw.nested.get(name)
        if f is None:
            R.unknown('WIRING', pw, pw.node, f'closure {name}', 'missing')
            continue
        param = f.params[0]
        val = {param: ('derive', 0, 'S')}    # abstract values: ('derive', n, sort) = n-fold derivation of the input
        seq = []
        nloop = 0
        ret = None
        for s in f.body:
            if isinstance(s, ast.While):
                nloop += 1
                info = check_loop(R, f, s, seq, f'{name} loop {nloop}')
                if info is None:
                    val = None
                    break
                b, acc, coll = info['b'], info['acc'], info['coll']
                scanned = val.get(b)
                seed = val.get(acc)
                if not (scanned and scanned[0] == 'derive'):
                    R.bad('WIRING', f, s, f'{name} loop {nloop}: scans a derivation value', 'the input or the previous accumulator', f'{b} = {scanned}')
                    val = None
                    break
                want_fam = 'T' if scanned[2] == 'S' else 'S'
                fam = FAMILY.get(coll)
                R.check(fam == want_fam, 'WIRING', f, s, f'{name} loop {nloop}: reduces over the family opposite to the scanned value',
                        f'{other if want_fam == "T" else self_}[i]', f'{coll}[i]')
                R.check(seed == ('sup', want_fam), 'WIRING', f, s, f'{name} loop {nloop}: accumulator starts at all-ones of the result class',
                        f'{other if want_fam == "T" else self_}.BitSet.supremum', str(seed),
                        extra={'consequence': 'the derivation of the empty collection must be everything'})
                val[acc] = ('derive', scanned[1] + 1, want_fam)
                val[b] = ('consumed',)
            elif isinstance(s, ast.Assign) and len(s.targets) == 1 and isinstance(s.targets[0], ast.Name):
                t = s.targets[0].id
                v = s.value
                if isinstance(v, ast.Name) and v.id in glob and glob[v.id][0] == 'supremum':
                    val[t] = ('sup', glob[v.id][1])
                elif isinstance(v, ast.Name) and v.id in val:
                    val[t] = val[v.id]
                elif isinstance(v, ast.Constant):
                    val[t] = ('const', v.value)
                else:
                    c = chain(v)
                    if c and len(c) == 3 and c[1] == 'BitSet' and c[2] == 'supremum' and c[0] in (self_, other):
                        val[t] = ('sup', 'S' if c[0] == self_ else 'T')
                    else:
                        val[t] = ('unknown', src(v))
            elif isinstance(s, ast.Return):
                ret = s
            elif isinstance(s, ast.Expr) and isinstance(s.value, ast.Constant):
                pass
            elif (isinstance(s, ast.If) and not s.orelse and len(s.body) == 1 and isinstance(s.body[0], ast.Return)
                  and isinstance(s.test, ast.UnaryOp) and isinstance(s.test.op, ast.Not) and name_is(s.test.operand, param) and nloop == 0):
                # shortcut for the empty input: the derivation of the empty collection is *everything* of the other kind, its
                # closure the members common to all - never the empty input itself
                rv = s.body[0].value
                parts0 = rv.elts if isinstance(rv, ast.Tuple) else [rv]
                echoes = [p_ for p_ in parts0 if isinstance(p_, ast.Call) and len(p_.args) == 1 and name_is(p_.args[0], param)] + \
                         [p_ for p_ in parts0 if name_is(p_, param)]
                if echoes:
                    R.bad('WIRING', f, s, f'{name}: the empty input is derived like any other', 'no shortcut (the loops do nothing and the all-ones seeds remain)',
                          f'if not {param}: return {src(rv)}',
                          extra={'consequence': 'the closure of the empty set is the set of members related to everything (non-empty when a full row/column exists), '
                                                'not the empty set'})
                else:
                    R.unknown('WIRING', f, s, f'{name}: statement', src(s)[:60])
            elif (isinstance(s, ast.If) and not s.orelse and len(s.body) == 1 and isinstance(s.body[0], ast.Return)
                  and nloop == 1 and name in ('double', 'doubleprime') and s.body[0].value is not None):
                # early exit between the two derivation phases: the closure component must still be the second derivation.
                #  * all-ones of the input's class under "the first derivation is empty" is that second derivation (decided: fine);
                #  * the *input itself* is its own closure only when it is closed, which a test on the first derivation
                #    (or on the input's truth value) does not establish (decided: violation);
                #  * anything else is not judged.
                rv = s.body[0].value
                parts0 = rv.elts if isinstance(rv, ast.Tuple) else [rv]
                want0 = [2] if name == 'double' else [2, 1]
                gnames = {n.id for n in ast.walk(s.test) if isinstance(n, ast.Name)}
                gvals = {g_: val.get(g_) or ((glob[g_][0] == 'supremum' and ('sup', glob[g_][1])) if g_ in glob else None) for g_ in gnames}
                verdict = 'ok' if len(parts0) == len(want0) else 'unknown'
                for p_, lvl in zip(parts0, want0):
                    a_ = p_.args[0] if isinstance(p_, ast.Call) and len(p_.args) == 1 and not p_.keywords else p_
                    if not isinstance(a_, ast.Name):
                        verdict = 'unknown'
                        break
                    v_ = val.get(a_.id) or ((glob[a_.id][0] == 'supremum' and ('sup', glob[a_.id][1])) if a_.id in glob else None)
                    if lvl == 1:
                        if v_ != ('derive', 1, 'T'):
                            verdict = 'unknown'
                            break
                    elif v_ == ('derive', 0, 'S'):
                        mentions_full_input = ('sup', 'S') in gvals.values()
                        if mentions_full_input or any(isinstance(n, ast.Call) for n in ast.walk(s.test)):
                            verdict = 'unknown'
                        else:
                            verdict = 'echo'
                        break
                    elif v_ == ('sup', 'S'):
                        t_ = s.test
                        if not (isinstance(t_, ast.UnaryOp) and isinstance(t_.op, ast.Not) and isinstance(t_.operand, ast.Name)
                                and val.get(t_.operand.id) == ('derive', 1, 'T')):
                            verdict = 'unknown'
                            break
                    else:
                        verdict = 'unknown'
                        break
                if verdict == 'echo':
                    R.bad('WIRING', f, s, f'{name}: the closure is the second derivation on every exit',
                          'the value reduced by the second loop (or all-ones when the first derivation is empty)',
                          f'if {src(s.test)}: return {src(rv)}  (the input itself, under a test that does not make it closed)',
                          extra={'consequence': 'the input need not be closed: members related to everything the input shares are missing from the '
                                                'returned closure, so the pair is not a concept (e.g. a proper subset of several full rows)'})
                elif verdict == 'unknown':
                    R.unknown('WIRING', f, s, f'{name}: statement', src(s)[:60])
            else:
                R.unknown('WIRING', f, s, f'{name}: statement', src(s)[:60])
            seq.append(s)
        if val is None or ret is None:
            continue

        def wrapped(node):
            """(wrapper sort, abstract value) of ``make_x(v)``."""
            if isinstance(node, ast.Call) and len(node.args) == 1 and isinstance(node.args[0], ast.Name):
                w = None
                if isinstance(node.func, ast.Name) and node.func.id in glob and glob[node.func.id][0] == 'fromint':
                    w = glob[node.func.id][1]
                else:
                    c = chain(node.func)
                    if c and len(c) == 3 and c[1] == 'BitSet' and c[2] == 'fromint':
                        w = 'S' if c[0] == self_ else 'T'
                return w, val.get(node.args[0].id)
            return None, None
        want = {'prime': [('T', 1)], 'double': [('S', 2)], 'doubleprime': [('S', 2), ('T', 1)]}[name]
        parts = ret.value.elts if isinstance(ret.value, ast.Tuple) else [ret.value]
        if len(parts) != len(want):
            R.bad('WIRING', f, ret, f'{name}: result arity', str(len(want)), str(len(parts)))
            continue
        nested_loops = [n for s_ in f.body if not isinstance(s_, ast.While) for n in ast.walk(s_) if isinstance(n, (ast.While, ast.For))]
        if nested_loops:
            R.unknown('WIRING', f, nested_loops[0], f'{name}: reduction phases', 'a scan loop nested in another statement (not the flat phase structure)')
            continue
        if any((isinstance(x, tuple) and x and x[0] == 'unknown') for x in val.values()):
            R.unknown('WIRING', f, f.node, f'{name}: reduction phases', 'a value is computed by a call the rule does not follow')
            continue
        untracked = [part for part in parts if wrapped(part)[1] is None]
        if untracked:
            R.unknown('WIRING', f, untracked[0], f'{name}: result', f'value of {src(untracked[0])[:60]} is computed by a call the rule does not follow')
            continue
        R.check(nloop == max(n for _, n in want), 'WIRING', f, f.node, f'{name}: number of reduction phases', str(max(n for _, n in want)), str(nloop))
        for k, (part, (wsort, n)) in enumerate(zip(parts, want)):
            w, v = wrapped(part)
            slot = f'{name}: result {k}' if len(want) > 1 else f'{name}: result'
            good_val = v == ('derive', n, wsort)
            if v is None or (isinstance(v, tuple) and v and v[0] == 'unknown'):
                R.unknown('WIRING', f, part, f'{slot} is the {n}-fold derivation of the input', f'value of {src(part)} not tracked: {v}')
                continue
            R.check(good_val, 'WIRING', f, part, f'{slot} is the {n}-fold derivation of the input',
                    f'{"closure" if n == 2 else "derivation"} ({wsort}-sorted accumulator)', f'{src(part)}: {v}',
                    extra={'consequence': 'a value consumed by a later scan is 0 when returned'} if v == ('consumed',) else None)
            if w != wsort:
                if name == 'double':
                    R.note(f'{f.key}: result wrapped by the other class ({src(part)}); value unchanged, only label decoding would differ (no label use in the package)')
                    R.ok('WIRING', f, part, f'{slot} wrapper (value-neutral)')
                else:
                    R.bad('WIRING', f, part, f'{slot} wrapped by the class of its sort', 'make_prime for derivations, make_double for closures', src(part),
                          extra={'consequence': '.members() decodes the bits with the labels of the other axis'})
            else:
                R.ok('WIRING', f, part, f'{slot} wrapped by the class of its sort')
        results[name] = True
    # registration under own names
    regs = {}
    for s in pw.body:
        if isinstance(s, ast.Assign) and isinstance(s.value, ast.Name) and s.value.id in ('prime', 'double', 'doubleprime'):
            regs[s.value.id] = sorted(src(t) for t in s.targets)
    for name in ('prime', 'double', 'doubleprime'):
        got = regs.get(name) or []
        R.check(f'{self_}.BitSet.{name}' in got, 'WIRING', pw, pw.node, f'closure {name} registered under its own name on the bit-set class',
                f'{self_}.BitSet.{name} = {name}', str(got))
        if name != 'doubleprime':   # Vectors.doubleprime is not used inside the package; Vectors.double is (Concept.join/meet)
            R.check(f'{self_}.{name}' in got, 'WIRING', pw, pw.node, f'closure {name} registered under its own name on the vectors',
                    f'{self_}.{name} = {name}', str(got))
    st = {}
    for s in pw.body:
        if isinstance(s, ast.Assign) and chain(s.targets[0]) and chain(s.targets[0])[0] == self_ and len(chain(s.targets[0])) == 2 \
                and isinstance(s.value, ast.Name):
            st[chain(s.targets[0])[1]] = s.value.id
    rel_any = [s for s in pw.body if isinstance(s, ast.Assign) and chain(s.targets[0]) and chain(s.targets[0])[-1] == 'relation'
               and chain(s.targets[0])[0] in (self_, other) and name_is(s.value, p_rel)]
    # both families are paired with the same relation, so recording it on either partner reaches both
    R.check(bool(rel_any) and st.get('relation_index') == p_idx, 'WIRING', pw, pw.node, '_pair_with records the relation and its own index',
            f'relation={p_rel}, {self_}.relation_index={p_idx}', str({k: v for k, v in st.items() if k.startswith('relation')}))


TRUSTED_BITSET_API = ('frommembers', 'fromint', 'frombools', 'members', 'bools', 'atoms', 'inatoms', 'iter_set', 'count', 'shortlex', 'longlex',
                      'shortcolex', 'longcolex', 'powerset', 'reduce_and', 'reduce_or', 'real', '__new__')


def vector_base(model, R):
    """The bit vectors are bitsets.bases.MemberBits itself (whose API the axioms of section 3 describe) or a subclass that leaves
    that API alone.  An override of ``frommembers`` is decided when it is the library's own one-liner: the members must be
    de-duplicated before their masks are *added*."""
    mod = model.modules['matrices']
    if 'Vector' in mod.assigns and 'Vector' not in mod.classes:
        R.expr(mod.assigns['Vector'], 'bitsets.bases.MemberBits', 'WIRING', 'matrices.Vector', 'Vector is the library bit-set base class')
        return
    cls = mod.classes.get('Vector')
    if cls is None:
        R.unknown('WIRING', 'matrices.Vector', mod.tree, 'Vector', 'neither an alias nor a class')
        return
    R.check(any(src(b) == 'bitsets.bases.MemberBits' for b in cls.node.bases), 'WIRING', 'matrices.Vector', cls.node, 'Vector derives from the library bit-set base class',
            'class Vector(bitsets.bases.MemberBits)', ', '.join(src(b) for b in cls.node.bases))
    for name, m in cls.methods.items():
        if name not in TRUSTED_BITSET_API:
            continue
        if name == 'frommembers':
            r = [n.value for n in walk(m.body) if isinstance(n, ast.Return)]
            v = r[0] if len(r) == 1 else None
            inner = v.args[0] if isinstance(v, ast.Call) and (chain(v.func) or [''])[-1] == 'fromint' and len(v.args) == 1 else None
            if isinstance(inner, ast.Call) and name_is(inner.func, 'sum') and len(inner.args) == 1 and isinstance(inner.args[0], ast.Call) \
                    and name_is(inner.args[0].func, 'map') and len(inner.args[0].args) == 2:
                coll = inner.args[0].args[1]
                dedup = isinstance(coll, ast.Call) and isinstance(coll.func, ast.Name) and coll.func.id in ('set', 'frozenset')
                R.decided(dedup, 'WIRING', m, v, 'Vector.frommembers: the masks of *distinct* members are added', 'sum(map(cls._map.__getitem__, set(members)))',
                          src(inner)[:90], extra={'consequence': 'a label given twice contributes its bit twice: the sum carries into the neighbouring position '
                                                                 '(another member, or an index beyond the table)'})
                continue
        R.unknown('WIRING', m, m.node, f'Vector.{name} overrides the library API the axioms describe', 'override not judged')


def _blocks(node):
    for n in ast.walk(node):
        for field in ('body', 'orelse', 'finalbody'):
            b = getattr(n, field, None)
            if isinstance(b, list) and b and isinstance(b[0], ast.stmt):
                yield b


def _memoising(model, func, target):
    """The helper hands out a value kept in a cache: a functools cache decorator, or a lookup in / store into a module-level table."""
    if target is None:
        return False
    if any((chain(d.func if isinstance(d, ast.Call) else d) or [''])[-1] in ('lru_cache', 'cache', 'cached', 'cached_property', 'lazyproperty')
           for d in target.node.decorator_list):
        return True
    tables = {name for name, v in target.module.assigns.items()
              if isinstance(v, (ast.Dict, ast.List, ast.Set)) or (isinstance(v, ast.Call) and (chain(v.func) or [''])[-1] in ('dict', 'defaultdict', 'OrderedDict', 'WeakValueDictionary'))}
    for n in ast.walk(target.node):
        if isinstance(n, ast.Subscript) and isinstance(n.value, ast.Name) and n.value.id in tables:
            return True
        if isinstance(n, ast.Call) and isinstance(n.func, ast.Attribute) and isinstance(n.func.value, ast.Name) and n.func.value.id in tables \
                and n.func.attr in ('get', 'setdefault'):
            return True
    return False


SERIES_API = ('bools', 'frombools', 'fromints', 'ints', 'index_sets', 'members', 'reduce_and', 'reduce_or', '__getitem__', '__iter__', '__len__', '__new__')


def vectors_base(model, R):
    """``Vectors`` leaves the library series API alone (the axioms describe ``bools()`` / ``frombools()`` ... of bitsets.series.Tuple).
    A redefinition that memoises the result hands every caller the one cached list (decided); anything else is not judged."""
    cls = model.cls('matrices.Vectors')
    for name, m in cls.methods.items():
        if name not in SERIES_API:
            continue
        stores = [s for s in stmts(m.body) if isinstance(s, ast.Assign) and any(isinstance(t, ast.Attribute) and name_is(t.value, m.params[0]) for t in s.targets)]
        rets = [n.value for n in walk(m.body) if isinstance(n, ast.Return) and n.value is not None]
        cached = [s for s in stores if any(src(t) in {src(r) for r in rets} for t in s.targets)]
        if cached:
            R.bad('WIRING', m, cached[0], f'Vectors.{name}: every call returns its own list', 'the library method (a fresh list per call)',
                  f'{src(cached[0])[:70]}; the stored object is returned by every call',
                  extra={'consequence': 'Context.bools / Definition tables built from it alias one list: a caller that edits the list it was given changes '
                                        'what the context reports from then on'})
        else:
            R.unknown('WIRING', m, m.node, f'Vectors.{name} overrides the library series API the axioms describe', 'override not judged')
    R.ok('WIRING', 'matrices.Vectors', cls.node, 'Vectors adds only its own methods to the library series', ', '.join(sorted(cls.methods)))


def relation_new(model, R):
    vectors_base(model, R)
    f = model.func('matrices.Relation.__new__')
    cls_, xname, yname, xmem, ymem, xbools = f.params[:6]
    # X, Y classes on both construction paths
    for s in stmts(f.body):
        if (isinstance(s, ast.Assign) and isinstance(s.targets[0], ast.Tuple) and {'X', 'Y'} & {getattr(e, 'id', None) for e in s.targets[0].elts}
                and isinstance(s.value, ast.Call)):
            callee = chain(s.value.func)
            target = f.module.funcs.get(callee[0]) if callee and len(callee) == 1 else None
            cached = _memoising(model, f, target)
            if cached:
                R.bad('WIRING', f, s, 'X, Y are classes created for this relation', 'direct calls of the bitsets class factory (one new class per relation)',
                      f'{src(s.value.func)}(...) is memoised',
                      extra={'consequence': 'the derivation closures are stored on the class: sharing it between contexts with equal labels '
                                            'rebinds the closures of the earlier context to the later table'})
            else:
                R.unknown('WIRING', f, s, 'X, Y are classes created for this relation', f'factory {src(s.value.func)}')
        if isinstance(s, ast.Assign) and isinstance(s.targets[0], ast.Name) and s.targets[0].id in ('X', 'Y') and isinstance(s.value, ast.Call):
            want = (xname, xmem) if s.targets[0].id == 'X' else (yname, ymem)
            got = tuple(src(a) for a in s.value.args[:2])
            R.check(got == want, 'WIRING', f, s, f'{s.targets[0].id} is the bit-set class of its own name and members', str(want), str(got))
            # the closures are installed on the bit-set *class* (self.BitSet.prime = ...): the class must belong to this relation alone
            callee = chain(s.value.func)
            fresh = callee in (['bitsets', 'bitset'], ['bitsets', 'meta', 'bitset'])
            if callee == ['bitsets', 'meta', 'bitset']:
                # the registry variant returns the class registered under the given id: that is "this relation's class" only when the
                # id is the one unpickling hands in (_ids); an id computed from names/members is the same for every relation with
                # equal labels
                idarg = s.value.args[2] if len(s.value.args) > 2 else next((k.value for k in s.value.keywords if k.arg == 'id'), None)
                # the binding of the id that reaches this call: the nearest earlier one in the same block, else in the function
                block = next((b for b in _blocks(f.node) if any(x is s for x in b)), f.body)
                before = [a_ for a_ in block[:[i for i, x in enumerate(block) if x is s][0]] if isinstance(a_, ast.Assign)] if any(x is s for x in block) else []
                binds = [a_ for a_ in before if isinstance(idarg, ast.Name) and any(isinstance(t_, ast.Name) and t_.id == idarg.id for tg in a_.targets for t_ in ast.walk(tg))]
                if not binds:
                    binds = [a_ for a_ in stmts(f.body) if isinstance(a_, ast.Assign) and isinstance(idarg, ast.Name)
                             and any(isinstance(t_, ast.Name) and t_.id == idarg.id for tg in a_.targets for t_ in ast.walk(tg))][-1:]
                from_ids = [a_ for a_ in binds[-1:] if isinstance(a_.targets[0], ast.Tuple)
                            and (name_is(a_.value, f.params[-1]) or (isinstance(a_.value, ast.IfExp) and name_is(a_.value.body, f.params[-1])))]
                if not from_ids:
                    R.bad('WIRING', f, s, f'{s.targets[0].id} is a class created for this relation',
                          'bitsets.bitset(...) (a new class), or the registry entry of the ids handed in by unpickling',
                          f'registry lookup under {src(idarg) if idarg is not None else "?"} - an id that does not come from _ids',
                          extra={'consequence': 'relations with equal names and members get the same class; the derivation closures stored on it are '
                                                'rebound to the table of whichever relation was built last'})
                    continue
            if fresh:
                R.ok('WIRING', f, s, f'{s.targets[0].id} is a class created for this relation')
            else:
                target = f.module.funcs.get(callee[0]) if callee and len(callee) == 1 else None
                cached = _memoising(model, f, target)
                if cached or target is None:
                    R.bad('WIRING', f, s, f'{s.targets[0].id} is a class created for this relation',
                          'a direct call of the bitsets class factory (one new class per relation)',
                          f'{src(s.value.func)}(...)' + (' is memoised' if cached else ''),
                          extra={'consequence': 'the derivation closures are stored on the class: sharing it between contexts with equal labels '
                                                'rebinds the closures of the earlier context to the later table'})
                else:
                    R.unknown('WIRING', f, s, f'{s.targets[0].id} is a class created for this relation', f'factory {src(s.value.func)}')
    env = Env(f)
    xs = [s for s in f.body if isinstance(s, ast.Assign) and name_is(s.targets[0], 'x')]
    ys = [s for s in f.body if isinstance(s, ast.Assign) and name_is(s.targets[0], 'y')]
    ok = (len(xs) == 1 and isinstance(xs[0].value, ast.Call) and chain(xs[0].value.func) == ['X', 'Tuple', 'frombools']
          and [src(a) for a in xs[0].value.args] == [xbools])
    for fam_, stm_ in (('first', xs), ('second', ys)):
        if len(stm_) == 1 and isinstance(stm_[0].value, ast.Call) and (chain(stm_[0].value.func) or [''])[-1] == 'fromints':
            R.bad('WIRING', f, stm_[0], f'{fam_} family built from the cells by truthiness', 'Tuple.frombools(rows)', src(stm_[0].value)[:90],
                  extra={'consequence': 'cells are used as numbers: a truthy cell other than True/1 (a count, a mark string) sets other bits or raises TypeError, '
                                        'and the two families no longer describe the same table'})
            return
    R.check(ok, 'WIRING', f, xs[0] if xs else f.node, 'first family = the given rows', f'x = X.Tuple.frombools({xbools})', src(xs[0].value) if xs else '')
    ok = False
    if len(ys) == 1 and isinstance(ys[0].value, ast.Call) and chain(ys[0].value.func) == ['Y', 'Tuple', 'frombools'] and len(ys[0].value.args) == 1:
        a = env.expand(ys[0].value.args[0], skip=('x', 'y', 'X', 'Y'))
        if isinstance(a, ast.Call) and name_is(a.func, 'zip') and len(a.args) == 1 and isinstance(a.args[0], ast.Starred):
            inner = src(a.args[0].value)
            ok = inner in ('x.bools()', xbools)
    R.check(ok, 'WIRING', f, ys[0] if ys else f.node, 'second family = the transposition of the first', 'y = Y.Tuple.frombools(zip(*x.bools()))',
            src(ys[0].value) if ys else '')
    # tuple and crossing
    news = [s for s in f.body if isinstance(s, ast.Assign) and isinstance(s.value, ast.Call) and '__new__' in src(s.value.func)]
    order = None
    if news and isinstance(env.expand(news[0].value.args[-1], skip=('x', 'y', 'X', 'Y')), ast.Tuple):
        order = [src(e) for e in env.expand(news[0].value.args[-1], skip=('x', 'y', 'X', 'Y')).elts]
    R.check(order == ['x', 'y'], 'WIRING', f, news[0] if news else f.node, 'relation is the pair (first family, second family)', "(x, y)", str(order))
    calls = [n for n in walk(f.body) if isinstance(n, ast.Call) and isinstance(n.func, ast.Attribute) and n.func.attr == '_pair_with']
    pwp = model.func('matrices.Vectors._pair_with').params[1:]        # (relation, index, other)

    def bound(c):
        b = dict(zip(pwp, c.args))
        b.update({k.arg: k.value for k in c.keywords if k.arg})
        return b
    got = sorted((src(c.func.value), const(bound(c).get(pwp[1])) if pwp[1] in bound(c) else None, src(bound(c)[pwp[2]]) if pwp[2] in bound(c) else None) for c in calls)
    want = [('x', 0, 'y'), ('y', 1, 'x')]
    if order == ['y', 'x']:
        want = [('x', 1, 'y'), ('y', 0, 'x')]
    R.check(got == want, 'WIRING', f, calls[0] if calls else f.node, 'families paired crosswise, each with its own position in the tuple',
            'x._pair_with(self, 0, y); y._pair_with(self, 1, x)', str(got))
    made = src(news[0].targets[0]) if news and len(news[0].targets) == 1 else 'self'
    R.returns(f, made, 'WIRING', 'returns the paired relation', expand=False)


def api_routes(model, R):
    for name, cls, axis in (('intension', '_Objects', 'objects'), ('extension', '_Properties', 'properties')):
        f = model.func(f'contexts.PrimeMixin.{name}')
        env = Env(f)
        rets = sorted((n for n in walk(f.body) if isinstance(n, ast.Return) and n.value is not None), key=lambda n: n.lineno)
        want = f'self.{cls}.frommembers({f.params[1]}).prime()'
        if len(rets) != 2:
            R.unknown('WIRING', f, f.node, f'{name}: raw and label result', f'{len(rets)} returns')
        else:
            vals = [env.expand(n.value) for n in rets]
            lab = [v for v in vals if src(v).endswith('.members()')]
            raw = [v for v in vals if not src(v).endswith('.members()')]
            R.expr(raw[0] if raw else None, want, 'WIRING', f, f'{name}: derivation of exactly the given {axis} (raw form)', at=rets[0])
            R.expr(lab[0] if lab else None, want + '.members()', 'WIRING', f, f'{name}: label form of the same value', at=rets[-1])
    # Context.objects / properties / bools read the classes set up in __init__ (faithful representation of the table)
    ctx = model.cls('contexts.Context')
    for name, want in (('objects', 'self._Objects._members'), ('properties', 'self._Properties._members'), ('bools', 'self._intents.bools()')):
        m = ctx.methods.get(name)
        if m is None:
            R.unknown('WIRING', f'contexts.Context.{name}', ctx.node, f'Context.{name}', 'missing')
        else:
            R.returns(m, want, 'WIRING', f'Context.{name} reads the paired structure')


# ------------------------------------------------------------------ C01.c arbitrary precision

FLOATY = {'float', 'log', 'log2', 'log10', 'sqrt', 'pow', 'ceil', 'floor', 'frexp', 'ldexp'}


def precision(model, R, extra_sources=()):
    n = 0
    mods = [m for name, m in model.modules.items() if name == 'matrices' or name.startswith('algorithms')]
    for mod in mods:
        for f in mod.funcs.values():
            for node in walk(f.body):
                if isinstance(node, (ast.BinOp, ast.AugAssign)):
                    op = node.op
                    operands = [node.left, node.right] if isinstance(node, ast.BinOp) else [node.target, node.value]
                    if isinstance(op, (ast.BitAnd, ast.BitOr, ast.BitXor, ast.LShift, ast.RShift)):
                        n += 1
                        bad = [o for o in operands if isinstance(const(o), int) and not isinstance(const(o), bool) and const(o) not in (0, 1, -1)]
                        R.check(not bad, 'PRECISION', f, node, 'no fixed-width constant in bit arithmetic', 'only 0 / 1 / -1 as literal operands',
                                src(node)[:70], extra={'consequence': 'a fixed-width mask passes on narrow tables and truncates tables wider than the mask'})
                    elif isinstance(op, (ast.Div, ast.Pow)):
                        n += 1
                        R.bad('PRECISION', f, node, 'no float-valued arithmetic on bit sets / positions', 'integer-only arithmetic', src(node)[:70])
                elif isinstance(node, ast.Call):
                    c = chain(node.func)
                    if c and (c[-1] in FLOATY or c[0] in ('math', 'numpy', 'np')):
                        n += 1
                        R.bad('PRECISION', f, node, 'no float-valued function on bit sets / positions', 'integer-only arithmetic', src(node)[:70])
    R.check(n >= 20, 'PRECISION', 'matrices+algorithms', 'concepts/', 'bit-arithmetic sites scanned', '>= 20 sites', str(n))


def run(model, R):
    R.floor('WIRING', 30)
    R.guard('WIRING', None, '_pair_with closures', closure_rules, model, R)
    R.guard('WIRING', None, 'Relation.__new__', relation_new, model, R)
    R.guard('WIRING', None, 'Vector', vector_base, model, R)
    R.guard('WIRING', None, 'intension/extension', api_routes, model, R)
    R.guard('PRECISION', None, 'precision', precision, model, R)
    return __doc__.strip()
