"""C18: attributes()/minimal() enumerate the generating property sets of a concept.
Decides on contexts.MinimizeMixin._minimize: a falsy extent yields the full intent once and
returns; otherwise candidates range over intent.powerset() and one is yielded iff its derivation
equals the extent (operator ==, sorts: property set -> object set compared with object set);
_minimal is the first element of that generator; Concept.attributes passes (extent, intent) in that
order and maps .members(); Concept.minimal routes through _minimal; Infimum.minimal returns the
full intent.  Size-then-position order and uniqueness are bitsets.powerset's (axiom).
"""

import ast

from ..astutil import Env, chain, src, walk, const, stmts, strip_not
from ..model import Unrecognised
from ..sorts import Sorter
from .c13 import name_is


def run(model, R):
    R.floor('MINIMIZE', 8)
    func = model.func('contexts.MinimizeMixin._minimize')
    p_ext, p_int = func.params[-2:]
    S = Sorter(func, {p_ext: 'O', p_int: 'P'})
    # empty-extent branch
    first = [s for s in func.body if isinstance(s, ast.If)]
    ok = False
    if first:
        br = first[0]
        t, neg = strip_not(br.test)
        if neg and name_is(t, p_ext):
            ys = [s for s in br.body if isinstance(s, ast.Expr) and isinstance(s.value, ast.Yield)]
            ok = (len(ys) == 1 and name_is(ys[0].value.value, p_int) and isinstance(br.body[-1], ast.Return) and br.body[-1].value is None
                  and len(br.body) == 2)
    R.check(ok, 'MINIMIZE', func, first[0] if first else func.node, 'empty extent: the full intent, once',
            f'if not {p_ext}: yield {p_int}; return', src(first[0])[:80] if first else 'no branch')
    loops = [s for s in func.body if isinstance(s, ast.For)]
    if len(loops) != 1:
        raise Unrecognised('candidate loop', func=func, node=func.node)
    loop = loops[0]
    it = loop.iter
    R.check(isinstance(it, ast.Call) and chain(it.func) == [p_int, 'powerset'] and not it.args, 'MINIMIZE', func, loop,
            'candidates are the subsets of the intent (shortlex)', f'for it in {p_int}.powerset()', src(it))
    v = loop.target.id if isinstance(loop.target, ast.Name) else None
    S.types[v] = 'P'
    ifs = [s for s in loop.body if isinstance(s, ast.If)]
    ok = False
    found = src(loop.body)
    if len(ifs) == 1 and len(loop.body) == 1 and not ifs[0].orelse:
        t = ifs[0].test
        found = src(t)
        if isinstance(t, ast.Compare) and len(t.ops) == 1:
            l, r = t.left, t.comparators[0]
            sl, sr = S.sort(l), S.sort(r)
            if sl != sr or sl != 'O':
                R.bad('MINIMIZE', func, t, 'candidate test compares object sets', 'candidate.prime() (objects) == extent (objects)',
                      f'{src(l)}: {sl} vs {src(r)}: {sr}')
            if isinstance(t.ops[0], ast.Eq):
                sides = {src(l), src(r)}
                ok = sides == {f'{v}.prime()', p_ext}
            ys = [s for s in ifs[0].body if isinstance(s, ast.Expr) and isinstance(s.value, ast.Yield) and name_is(s.value.value, v)]
            ok = ok and len(ys) == 1 and len(ifs[0].body) == 1
    R.check(ok, 'MINIMIZE', func, ifs[0] if ifs else loop, 'yield a candidate iff it regenerates exactly the extent',
            f'if {v}.prime() == {p_ext}: yield {v}', found[:100])
    f = model.func('contexts.MinimizeMixin._minimal')
    r = [n.value for n in walk(f.body) if isinstance(n, ast.Return)]
    ok = (len(r) == 1 and isinstance(r[0], ast.Call) and name_is(r[0].func, 'next') and isinstance(r[0].args[0], ast.Call)
          and (chain(r[0].args[0].func) or [''])[-1] == '_minimize' and [src(a) for a in r[0].args[0].args] == f.params[-2:])
    R.check(ok, 'MINIMIZE', f, f.node, '_minimal is the first generated set', 'next(cls._minimize(extent, intent))', src(r[0]) if r else '')
    f = model.func('lattice_members.Concept.attributes')
    env = Env(f)
    r = [env.expand(n.value) for n in walk(f.body) if isinstance(n, ast.Return)]
    ok = False
    if len(r) == 1 and isinstance(r[0], (ast.GeneratorExp, ast.ListComp)) and len(r[0].generators) == 1:
        g = r[0].generators[0]
        call = g.iter
        ok = (isinstance(call, ast.Call) and chain(call.func) == ['self', 'lattice', '_context', '_minimize']
              and [chain(a) for a in call.args] == [['self', '_extent'], ['self', '_intent']] and not g.ifs
              and isinstance(r[0].elt, ast.Call) and chain(r[0].elt.func) == [src(g.target), 'members'])
    R.check(ok, 'MINIMIZE', f, f.node, 'attributes(): labels of every generated set, for (own extent, own intent)',
            '(i.members() for i in self.lattice._context._minimize(self._extent, self._intent))', src(r[0])[:140] if r else '')
    f = model.func('lattice_members.Concept.minimal')
    r = [n.value for n in walk(f.body) if isinstance(n, ast.Return)]
    ok = False
    if len(r) == 1 and isinstance(r[0], ast.Call) and isinstance(r[0].func, ast.Attribute) and r[0].func.attr == 'members':
        call = r[0].func.value
        ok = (isinstance(call, ast.Call) and chain(call.func) == ['self', 'lattice', '_context', '_minimal']
              and [chain(a) for a in call.args] == [['self', '_extent'], ['self', '_intent']])
    R.check(ok, 'MINIMIZE', f, f.node, 'minimal(): labels of the first generated set', 'self.lattice._context._minimal(self._extent, self._intent).members()',
            src(r[0])[:140] if r else '')
    f = model.func('lattice_members.Infimum.minimal')
    R.returns(f, 'self._intent.members()', 'MINIMIZE', 'Infimum.minimal(): the full intent')
    # Infimum really overrides Concept.minimal
    inf = model.cls('lattice_members.Infimum')
    R.check(any(b.name == 'Concept' for b in inf.bases), 'MINIMIZE', 'lattice_members.Infimum', inf.node, 'Infimum derives from Concept', 'class Infimum(Concept)')
    return __doc__.strip()
