"""C18: attributes()/minimal() enumerate the generating property sets of a concept.
Decides on contexts.MinimizeMixin._minimize: a falsy extent yields the full intent once and
returns; otherwise candidates range over intent.powerset() and one is yielded iff its derivation
equals the extent (operator ==, sorts: property set -> object set compared with object set);
_minimal is the first element of that generator; Concept.attributes passes (extent, intent) in that
order and maps .members(); Concept.minimal routes through _minimal; Infimum.minimal returns the
full intent.  Size-then-position order and uniqueness are bitsets.powerset's (axiom).
"""

import ast

from ..astutil import Env, chain, src, walk, const, stmts, strip_not
from ..model import Unrecognised
from ..sorts import Sorter
from .c13 import name_is


def run(model, R):
    R.floor('MINIMIZE', 8)
    func = model.func('contexts.MinimizeMixin._minimize')
    p_ext, p_int = func.params[-2:]
    S = Sorter(func, {p_ext: 'O', p_int: 'P'})
    from ..astutil import context_of
    ys = sorted((n for n in walk(func.body) if isinstance(n, (ast.Yield, ast.YieldFrom))), key=lambda n: n.lineno)

    def extent_polarity(ctx):
        """True/False if the context fixes the truthiness of the extent, None otherwise."""
        pol = None
        for c in ctx:
            if c[0] in ('if', 'guard'):
                t, neg = strip_not(c[1])
                if name_is(t, p_ext):
                    pol = (c[2] != neg)
        return pol
    empty_y = [y for y in ys if isinstance(y, ast.Yield) and name_is(y.value, p_int)]
    loop_y = [y for y in ys if y not in empty_y]
    ok = False
    if len(empty_y) == 1:
        ctx = context_of(func.body, empty_y[0]) or []
        ok = extent_polarity(ctx) is False and not any(c[0] in ('for', 'while') for c in ctx)
    R.check(ok, 'MINIMIZE', func, empty_y[0] if empty_y else func.node, 'empty extent: the full intent, once',
            f'if not {p_ext}: yield {p_int}; return', 'the full intent is not yielded exactly on the empty-extent path' if not ok else '', strict=True)
    if len(loop_y) != 1 or not isinstance(loop_y[0], ast.Yield):
        raise Unrecognised(f'{len(loop_y)} candidate yields', func=func, node=func.node)
    y = loop_y[0]
    ctx = context_of(func.body, y) or []
    R.check(extent_polarity(ctx) is True or (extent_polarity(ctx) is None and len(empty_y) == 1 and extent_polarity(context_of(func.body, empty_y[0]) or []) is False
                                             and any(c[0] == 'guard' for c in ctx)),
            'MINIMIZE', func, y, 'candidates are searched only for a non-empty extent', f'after "if not {p_ext}: ...; return"', str(extent_polarity(ctx)), strict=True)
    fors = [c for c in ctx if c[0] == 'for']
    if len(fors) != 1:
        raise Unrecognised('candidate loop', func=func, node=func.node)
    _, tgt, it = fors[0]
    R.check(isinstance(it, ast.Call) and chain(it.func) == [p_int, 'powerset'] and not it.args, 'MINIMIZE', func, it,
            'candidates are the subsets of the intent (shortlex)', f'for it in {p_int}.powerset()', src(it))
    v = tgt.id if isinstance(tgt, ast.Name) else None
    S.types[v] = 'P'
    tests = [c for c in ctx[ctx.index(fors[0]) + 1:] if c[0] in ('if', 'guard')]
    R.check(name_is(y.value, v), 'MINIMIZE', func, y, 'the candidate itself is yielded', f'yield {v}', src(y))
    if len(tests) != 1:
        R.unknown('MINIMIZE', func, y, 'yield a candidate iff it regenerates exactly the extent', f'{len(tests)} conditions around the yield')
    else:
        _, t, pol = tests[0]
        t, neg = strip_not(t)
        pol = pol != neg
        # decided as a Boolean function of D = candidate.prime() and E = extent
        from .. import bitalg

        def var_of(n):
            if isinstance(n, ast.Call) and chain(n.func) == [v, 'prime'] and not n.args:
                return 'D'
            if name_is(n, p_ext):
                return 'E'
            if name_is(n, v):
                return 'C'          # the candidate itself (a property set): only its emptiness can matter
            return None
        try:
            pred = bitalg.compile_pred(t, var_of, lambda x: 'P' if x == 'C' else 'O')
            pats = list(bitalg.patterns(['D', 'E', 'C'] if 'C' in {var_of(n) for n in ast.walk(t)} else ['D', 'E']))
            spec = bitalg.Pred(lambda occ: all(r['D'] == r['E'] for r in occ) == pol, 'D == E')
            diff = bitalg.equivalent(pred, spec, pats)
            R.decided(diff is None, 'MINIMIZE', func, t, 'yield a candidate iff it regenerates exactly the extent',
                      f'{v}.prime() == {p_ext}', pred.text + ('' if pol else ' (negated)'),
                      extra={'objects (in candidate\'s derivation, in extent)': [[r['D'], r['E']] for r in diff]} if diff else None)
        except bitalg.SortError as e:
            R.bad('MINIMIZE', func, t, 'candidate test compares object sets', f'{v}.prime() == {p_ext}', str(e))
        except Unrecognised as e:
            R.unknown('MINIMIZE', func, t, 'yield a candidate iff it regenerates exactly the extent', e.what)
    f = model.func('contexts.MinimizeMixin._minimal')
    r = [n.value for n in walk(f.body) if isinstance(n, ast.Return)]
    ok = (len(r) == 1 and isinstance(r[0], ast.Call) and name_is(r[0].func, 'next') and isinstance(r[0].args[0], ast.Call)
          and (chain(r[0].args[0].func) or [''])[-1] == '_minimize' and [src(a) for a in r[0].args[0].args] == f.params[-2:])
    R.check(ok, 'MINIMIZE', f, f.node, '_minimal is the first generated set', 'next(cls._minimize(extent, intent))', src(r[0]) if r else '')
    f = model.func('lattice_members.Concept.attributes')
    env = Env(f)
    r = [env.expand(n.value) for n in walk(f.body) if isinstance(n, ast.Return)]
    ok = False
    if len(r) == 1 and isinstance(r[0], (ast.GeneratorExp, ast.ListComp)) and len(r[0].generators) == 1:
        g = r[0].generators[0]
        call = g.iter
        ok = (isinstance(call, ast.Call) and chain(call.func) == ['self', 'lattice', '_context', '_minimize']
              and [chain(a) for a in call.args] == [['self', '_extent'], ['self', '_intent']] and not g.ifs
              and isinstance(r[0].elt, ast.Call) and chain(r[0].elt.func) == [src(g.target), 'members'])
    R.check(ok, 'MINIMIZE', f, f.node, 'attributes(): labels of every generated set, for (own extent, own intent)',
            '(i.members() for i in self.lattice._context._minimize(self._extent, self._intent))', src(r[0])[:140] if r else '')
    f = model.func('lattice_members.Concept.minimal')
    r = [n.value for n in walk(f.body) if isinstance(n, ast.Return)]
    ok = False
    if len(r) == 1 and isinstance(r[0], ast.Call) and isinstance(r[0].func, ast.Attribute) and r[0].func.attr == 'members':
        call = r[0].func.value
        ok = (isinstance(call, ast.Call) and chain(call.func) == ['self', 'lattice', '_context', '_minimal']
              and [chain(a) for a in call.args] == [['self', '_extent'], ['self', '_intent']])
    R.check(ok, 'MINIMIZE', f, f.node, 'minimal(): labels of the first generated set', 'self.lattice._context._minimal(self._extent, self._intent).members()',
            src(r[0])[:140] if r else '')
    f = model.func('lattice_members.Infimum.minimal')
    R.returns(f, 'self._intent.members()', 'MINIMIZE', 'Infimum.minimal(): the full intent')
    # ... and the bottom concept really is an Infimum, also when it is the only concept
    from . import c06
    fi = model.func('lattices.Data._init')
    c06.class_patches(R, fi, fi.params[0], rule='MINIMIZE')
    # no other subclass replaces the enumeration: attributes() of the bottom concept lists *all* generating subsets (when some object
    # has every property the bottom has a non-empty extent and proper subsets of the full intent generate it too)
    from .common import subclass_overrides, concept_cls
    for sub_, oname, target in subclass_overrides(model, concept_cls(model), ['attributes', 'minimal']):
        if (sub_.name, oname) == ('Infimum', 'minimal'):
            continue
        slot = f'{sub_.name}.{oname} (override)'
        if not hasattr(target, 'node'):
            R.unknown('MINIMIZE', f'{sub_.key}.{oname}', sub_.node, slot, 'rebinding that is not a method definition')
            continue
        ys_ = [n for n in walk(target.body) if isinstance(n, (ast.Yield, ast.Return)) and n.value is not None]
        only_full = len(ys_) == 1 and src(ys_[0].value) in ('self._intent.members()', 'self.intent')
        calls_search = any(isinstance(n, ast.Call) and (chain(n.func) or [''])[-1] in ('_minimize', '_minimal', 'attributes', 'minimal') for n in walk(target.body))
        if oname == 'attributes' and only_full and not calls_search:
            R.bad('MINIMIZE', target, ys_[0], slot, 'every generating subset of the intent, from context._minimize(extent, intent)', 'only the full intent',
                  extra={'consequence': 'for a concept with a non-empty extent (the bottom when some object has every property) the smaller generating '
                                        'sets are missing'})
        else:
            R.unknown('MINIMIZE', target, target.node, slot, 'an override the rule table does not know')
    # Infimum really overrides Concept.minimal
    inf = model.cls('lattice_members.Infimum')
    R.check(any(b.name == 'Concept' for b in inf.bases), 'MINIMIZE', 'lattice_members.Infimum', inf.node, 'Infimum derives from Concept', 'class Infimum(Concept)')
    # the generating sets are checked against lattice(properties) / lattice[...] (C02's lookup rules are a dependency)
    from . import c02 as _c02
    R.guard('MAPPING', None, 'Lattice lookups', _c02.lattice_rules, model, R)
    return __doc__.strip()
