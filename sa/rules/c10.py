"""C10: reduced labelling - every object/property is appended to the label of its own concept.
Decides on lattices.Data._annotate: the object concept is looked up as
mapping[extension(intension([o]))] and the attribute concept as mapping[extension([p])] (keys of
sort object-set, raw); both loops range over context.objects / context.properties directly (hence
context order inside a label); append-or-create tests the very attribute it appends to, appends
exactly the element, creates a fresh per-instance list and registers the concept for
finalisation; every touched concept is finalised to a tuple; the class-level defaults are
immutable; only _annotate writes these attributes.  concept.atoms: predicate e | a == e is
a <= e, over the lattice atoms in order.  "Extent = union of the labels in the downset" is the
basic theorem given the above.
"""

import ast

from .. import bitalg
from ..astutil import Env, chain, src, walk, const, stmts, strip_not
from ..model import Unrecognised
from ..sorts import Sorter
from .c13 import name_is


def annotate_half(R, func, loop, axis, other_loops):
    """One of the two labelling loops; axis is 'objects' or 'properties'."""
    p_ctx, p_map = func.params[0], func.params[1]
    slot = f'{axis} labels'
    c = chain(loop.iter)
    reordered = (isinstance(loop.iter, ast.Call) and isinstance(loop.iter.func, ast.Name) and loop.iter.func.id in ('sorted', 'reversed', 'set', 'frozenset')
                 and loop.iter.args and chain(loop.iter.args[0]) == [p_ctx, axis])
    R.check(c == [p_ctx, axis], 'LABELLING', func, loop, f'{slot}: loop over context.{axis} in context order',
            f'for x in {p_ctx}.{axis}', src(loop.iter), strict=True if reordered else None,
            extra={'consequence': 'labels are appended in loop order: the label tuples are no longer in context order'} if reordered else None)
    if not isinstance(loop.target, ast.Name):
        raise Unrecognised('loop target', func=func, node=loop)
    x = loop.target.id
    env = Env(loop.body, params=[x])
    # the concept lookup
    look = [s for s in loop.body if isinstance(s, ast.Assign) and isinstance(s.value, ast.Subscript) and name_is(s.value.value, p_map)]
    if len(look) != 1 or not isinstance(look[0].targets[0], ast.Name):
        raise Unrecognised(f'{slot}: concept lookup mapping[...]', func=func, node=loop)
    cvar = look[0].targets[0].id
    key = env.expand(look[0].value.slice)

    def is_ext_call(node):
        return (isinstance(node, ast.Call) and chain(node.func) == [p_ctx, 'extension'] and len(node.args) == 1
                and any(k.arg == 'raw' and const(k.value) is True for k in node.keywords))

    def singleton(node):
        return isinstance(node, (ast.List, ast.Tuple)) and len(node.elts) == 1 and name_is(node.elts[0], x)
    fkey = Env(func).expand(key, alias_only=True)

    def raw_closure(node, cls_name, op):
        """``context.<cls>.frommembers([x]).<op>()``: the same derivation on the bit vectors themselves."""
        return (isinstance(node, ast.Call) and isinstance(node.func, ast.Attribute) and node.func.attr == op and not node.args and not node.keywords
                and isinstance(node.func.value, ast.Call) and chain(node.func.value.func) == [p_ctx, cls_name, 'frommembers']
                and len(node.func.value.args) == 1 and singleton(node.func.value.args[0]))
    if axis == 'objects':
        ok = (is_ext_call(key) and isinstance(key.args[0], ast.Call) and chain(key.args[0].func) == [p_ctx, 'intension']
              and len(key.args[0].args) == 1 and singleton(key.args[0].args[0])
              and not any(k.arg == 'raw' and const(k.value) is True for k in key.args[0].keywords)) or raw_closure(fkey, '_Objects', 'double')
        want = f'{p_map}[{p_ctx}.extension({p_ctx}.intension([{x}]), raw=True)]'
    else:
        ok = (is_ext_call(key) and singleton(key.args[0])) or raw_closure(fkey, '_Properties', 'prime')
        want = f'{p_map}[{p_ctx}.extension([{x}], raw=True)]'
    key_names = {n.id for n in ast.walk(fkey) if isinstance(n, ast.Name)}
    key_sources = [fkey] + [s.value for s in loop.body if isinstance(s, ast.Assign)
                            and any(isinstance(t, ast.Name) and t.id in key_names for tg in s.targets for t in ast.walk(tg))]
    via_lookup = [n for ks in key_sources for n in ast.walk(ks) if (isinstance(n, ast.Call) and chain(n.func) == [p_ctx, '__getitem__'])
                  or (isinstance(n, ast.Subscript) and name_is(n.value, p_ctx))]
    if not ok and via_lookup:
        # a recognised wrong route: Context.__getitem__ reads its key as object labels first; the derived labels of the other kind
        # only work through the KeyError fallback, and the *empty* label set is accepted as the empty object set
        R.bad('LABELLING', func, look[0], f'{slot}: own concept looked up by its extent', want, src(key)[:100],
              extra={'consequence': 'for a row/column without any cross the derived label set is empty and closes to the bottom instead of the top concept: '
                                    'the label lands on the wrong node'})
    else:
        R.check(ok, 'LABELLING', func, look[0], f'{slot}: own concept looked up by its extent', want, src(key))
    # append-or-create
    ifs = [s for s in loop.body if isinstance(s, ast.If)]
    if len(ifs) != 1:
        raise Unrecognised(f'{slot}: append-or-create branch', func=func, node=loop)
    br = ifs[0]
    t, neg = strip_not(br.test)
    tc = chain(env.expand(t, alias_only=True))
    has, new = (br.orelse, br.body) if neg else (br.body, br.orelse)
    R.check(tc == [cvar, axis], 'LABELLING', func, br, f'{slot}: guard tests the label that is written', f'if {cvar}.{axis}:', f'if {src(br.test)}:')
    apps = [s.value for s in has if isinstance(s, ast.Expr) and isinstance(s.value, ast.Call)]
    ok = False
    if len(apps) == 1 and len(has) == 1:
        a = apps[0]
        ac = chain(env.expand(a.func, alias_only=True))
        if ac == [cvar, axis, 'append']:
            ok = len(a.args) == 1 and name_is(a.args[0], x)
        elif ac == [cvar, axis, 'extend']:
            ok = len(a.args) == 1 and singleton(a.args[0])
    aug = [s for s in has if isinstance(s, ast.AugAssign) and chain(s.target) == [cvar, axis] and isinstance(s.op, ast.Add)]
    if aug and len(has) == 1:
        ok = singleton(aug[0].value)
    appends_nothing = not any(isinstance(n, (ast.Call, ast.AugAssign, ast.Assign)) for st in has for n in ast.walk(st))
    R.check(ok, 'LABELLING', func, has[0] if has else br, f'{slot}: existing label gets exactly this element appended',
            f'{cvar}.{axis}.append({x})', src(has) if has else 'nothing', strict=True if (appends_nothing or (apps and len(has) == 1)) else None)
    creates = [s for s in new if isinstance(s, ast.Assign) and chain(s.targets[0]) == [cvar, axis]]
    ok = len(creates) == 1 and singleton(creates[0].value) and isinstance(creates[0].value, ast.List)
    R.check(ok, 'LABELLING', func, creates[0] if creates else br, f'{slot}: first element creates a fresh per-concept list',
            f'{cvar}.{axis} = [{x}]', src(creates[0]) if creates else 'no creation')
    regs = [s.value for s in new if isinstance(s, ast.Expr) and isinstance(s.value, ast.Call) and isinstance(s.value.func, ast.Attribute)
            and s.value.func.attr in ('add', 'append') and len(s.value.args) == 1 and name_is(s.value.args[0], cvar)]
    if not regs:
        R.bad('LABELLING', func, br, f'{slot}: labelled concept registered for finalisation', f'touched.add({cvar})', 'not registered: the label stays a list') \
            if not any(isinstance(n, ast.Call) and isinstance(n.func, ast.Name) for s_ in new for n in ast.walk(s_)) else \
            R.unknown('LABELLING', func, br, f'{slot}: labelled concept registered for finalisation', 'registration may happen in a called helper')
        return
    touched = src(regs[0].func.value)
    # finalisation loop after this loop and before the next re-binding of touched
    fin = [l for l in other_loops if l.lineno > loop.lineno and name_is(l.iter, touched)]
    fin = [l for l in fin if any(isinstance(s, ast.Assign) and chain(s.targets[0]) and chain(s.targets[0])[-1] == axis for s in l.body)]
    ok = False
    if fin:
        l = fin[0]
        v = l.target.id if isinstance(l.target, ast.Name) else None
        a = [s for s in l.body if isinstance(s, ast.Assign)]
        ok = (len(l.body) == 1 and len(a) == 1 and chain(a[0].targets[0]) == [v, axis] and isinstance(a[0].value, ast.Call)
              and name_is(a[0].value.func, 'tuple') and chain(a[0].value.args[0]) == [v, axis])
    R.check(ok, 'LABELLING', func, fin[0] if fin else loop, f'{slot}: every touched concept finalised to a tuple',
            f'for c in {touched}: c.{axis} = tuple(c.{axis})', src(fin[0])[:100] if fin else 'no finalisation loop')


def _adjacent_grouping(R, func, loops, axis):
    """``for k, group in itertools.groupby(context.<axis>, key): <concept>.<axis> = tuple(group)``: groupby merges only
    *adjacent* items with equal keys and the context order is the caller's, so two equal rows (columns) separated by a
    different one give two runs and the second assignment replaces the first.  Decided when the iterable is the context's
    own sequence (not sorted by the same key) and the body overwrites the label; otherwise not judged."""
    ctx = func.params[0]
    for l in loops:
        it = l.iter
        if not (isinstance(it, ast.Call) and chain(it.func) and chain(it.func)[-1] == 'groupby' and it.args):
            continue
        if chain(it.args[0]) != [ctx, axis]:
            continue
        if not (isinstance(l.target, ast.Tuple) and len(l.target.elts) == 2 and all(isinstance(e, ast.Name) for e in l.target.elts)):
            continue
        grp = l.target.elts[1].id
        over = [s for s in l.body if isinstance(s, ast.Assign) and len(s.targets) == 1 and isinstance(s.targets[0], ast.Attribute)
                and s.targets[0].attr == axis and any(isinstance(n, ast.Name) and n.id == grp for n in ast.walk(s.value))]
        if len(l.body) == 1 and over:
            R.bad('LABELLING', func, l, f'{axis} labels: every {axis[:-1] if axis != "properties" else "property"} with the same concept is collected, wherever it stands',
                  f'one pass over {ctx}.{axis} appending to the concept\'s list (order of the context, any position)',
                  f'{src(it)[:80]} over the unsorted context order, label overwritten per run',
                  extra={'consequence': 'itertools.groupby merges adjacent equal keys only: equal rows/columns separated by a different one '
                                        'form two runs and the later run replaces the earlier label'})
            return True
    return False


def annotate_rules(model, R):
    func = model.func('lattices.Data._annotate')
    loops = [s for s in func.body if isinstance(s, ast.For)]
    halves = {}
    for l in loops:
        c = chain(l.iter)
        if c and len(c) == 2 and c[0] == func.params[0] and c[1] in ('objects', 'properties'):
            halves.setdefault(c[1], []).append(l)
    label_loops = [l for l in loops if any(isinstance(s, ast.If) for s in l.body)]
    for axis in ('objects', 'properties'):
        ls = [l for l in label_loops if any(isinstance(n, ast.Attribute) and n.attr == axis and isinstance(n.ctx, ast.Store)
                                           for n in ast.walk(l))]
        if len(ls) != 1 and _adjacent_grouping(R, func, loops, axis):
            continue
        if len(ls) != 1:
            R.unknown('LABELLING', func, func.node, f'{axis} labels', f'{len(ls)} labelling loops writing .{axis}')
            continue
        R.guard('LABELLING', func, f'{axis} labels', annotate_half, R, func, ls[0], axis, loops)


def run(model, R):
    R.floor('LABELLING', 12)
    func = model.func('lattices.Data._annotate')
    R.guard('LABELLING', None, '_annotate', annotate_rules, model, R)
    # class-level defaults immutable
    pair = model.cls('lattice_members.Pair')
    for axis in ('objects', 'properties'):
        v = pair.aliases.get(axis)
        R.check(isinstance(v, ast.Tuple) and not v.elts, 'LABELLING', f'lattice_members.Pair.{axis}', v or pair.node,
                f'class-level default of .{axis} is an immutable empty tuple', '()', src(v))
    # who may write .objects / .properties of concepts
    writers = set()
    for f in model.all_funcs():
        if f.module.name not in ('lattices', 'lattice_members', 'contexts', 'algorithms.lindig', 'algorithms.common', 'visualize'):
            continue
        for n in walk(f.body):
            if isinstance(n, ast.Attribute) and n.attr in ('objects', 'properties') and isinstance(n.ctx, ast.Store):
                writers.add(f.key)
            if (isinstance(n, ast.Call) and isinstance(n.func, ast.Attribute) and n.func.attr in ('append', 'extend', 'insert', 'remove', 'pop')
                    and isinstance(n.func.value, ast.Attribute) and n.func.value.attr in ('objects', 'properties')):
                writers.add(f.key)
    R.check(writers == {'lattices.Data._annotate'}, 'WHO-MAY-WRITE', 'package', func.node, 'only _annotate writes concept labels',
            "{'lattices.Data._annotate'}", str(sorted(writers)))
    # _annotate is invoked by _init with the lattice's own context and mapping
    init = model.func('lattices.Data._init')
    calls = [n for n in walk(init.body) if isinstance(n, ast.Call) and (chain(n.func) or [''])[-1] == '_annotate']
    inst = init.params[0]
    ok = len(calls) == 1 and [chain(a) for a in calls[0].args] == [[inst, '_context'], [inst, '_mapping']]
    R.same(ok, 'LABELLING', init, calls[0] if calls else init.node, '_init labels with the lattice\'s own context and mapping',
            f'{inst}._annotate({inst}._context, {inst}._mapping)', src(calls[0]) if calls else 'no call')
    guard_ok = True
    for s in stmts(init.body):
        if isinstance(s, ast.If) and calls and any(n is calls[0] for n in walk(s.body + s.orelse)):
            guard_ok = False
    R.check(guard_ok, 'LABELLING', init, calls[0] if calls else init.node, 'labelling is unconditional once _init proceeds', 'top-level call')
    # concept.atoms
    atoms_assign = [s for s in walk(init.body) if isinstance(s, ast.Assign) and chain(s.targets[0]) and chain(s.targets[0])[-1] == 'atoms'
                    and len(chain(s.targets[0])) == 2]
    if len(atoms_assign) != 1:
        R.unknown('ATOMS', init, init.node, 'concept.atoms', f'{len(atoms_assign)} assignments')
    else:
        a = atoms_assign[0]
        v = a.value
        if isinstance(v, ast.Call) and name_is(v.func, 'tuple') and v.args:
            v = v.args[0]
        cvar = chain(a.targets[0])[0]
        if not isinstance(v, (ast.GeneratorExp, ast.ListComp)) or len(v.generators) != 1 or len(v.generators[0].ifs) != 1:
            R.unknown('ATOMS', init, a, 'concept.atoms', src(v)[:80])
        else:
            g = v.generators[0]
            env = Env(init)
            # enclosing loop body locals (e = c._extent)
            local = {}
            for s in walk(init.body):
                if isinstance(s, ast.For) and any(n is a for n in ast.walk(s)):
                    for st in s.body:
                        if isinstance(st, ast.Assign) and isinstance(st.targets[0], ast.Name):
                            local[st.targets[0].id] = st.value
            avar = g.target.id

            def var_of(n):
                if isinstance(n, ast.Name) and n.id in local:
                    return var_of(local[n.id])
                c = chain(n)
                if c == [cvar, '_extent']:
                    return 'e'
                if c == [avar, '_extent']:
                    return 'a'
                return None
            try:
                pred = bitalg.compile_pred(g.ifs[0], var_of, lambda v: 'O')
                pats = list(bitalg.patterns(['a', 'e']))
                spec = bitalg.Pred(lambda occ: all(not (r['a'] and not r['e']) for r in occ if not r[bitalg.OUTSIDE]), 'a <= e')
                diff = bitalg.equivalent(pred, spec, pats)
                R.decided(diff is None, 'ATOMS', init, g.ifs[0], 'atom listed iff its extent is below the concept\'s', 'a <= e', pred.text,
                        extra={'rows': [{k: r[k] for k in ('a', 'e')} for r in diff] if diff else None})
            except (Unrecognised, bitalg.SortError) as e:
                R.unknown('ATOMS', init, g.ifs[0], 'atom filter', str(e))
            it = env.expand(g.iter)
            ok = chain(it) == [init.params[0], 'atoms'] and name_is(v.elt, avar)
            R.check(ok, 'ATOMS', init, a, 'ranges over the lattice atoms in order, listing the atom itself', f'for a in {init.params[0]}.atoms', src(g.iter))
    from .common import no_unpickle_shortcut
    R.guard('LABELLING', None, '_init call sites', no_unpickle_shortcut, model, R, 'LABELLING')
    # "extent = union of the object labels in the downset, intent = union of the property labels in the upset" is stated over
    # the traversals: their template (C09) is a dependency
    from . import c09, c01
    # labels are looked up through extension/intension of *this* context: its derivation closures and their wiring (C01)
    R.guard('WIRING', None, '_pair_with closures', c01.closure_rules, model, R)
    R.guard('WIRING', None, 'Relation.__new__', c01.relation_new, model, R)
    R.guard('TRAVERSAL', None, 'iterunion', c09.iterunion_template, model, R)
    R.guard('DIRECTION', None, 'call sites', c09.call_sites, model, R)
    # a lattice loaded from an unordered serialisation is only the documented structure if the loaders forward raw (C06's rule)
    from . import c06 as _c06
    R.guard('ORDER', None, 'raw flag', _c06.raw_is_forwarded, model, R)
    return __doc__.strip()
