"""C08: the eight order/relation predicates on concepts are *the* Boolean functions of the
extents that the property names.  Each predicate (and each operator alias) is extracted as a
formula over a = extent(self), b = extent(other), U = extent(top), Z = extent(bottom) and compared,
as a Boolean function on every admissible row-occupancy pattern, with the specification read off
the statement (sound and complete for this fragment, relative to the int axioms for bit sets).
Decides the predicate clause; 'iff intent(y) subset of intent(x)' is a theorem of FCA, not a code fact.
"""

import ast

from .. import bitalg
from ..astutil import chain, src
from ..model import Unrecognised
from .common import function_as_expr, concept_cls, resolve_method, subclass_overrides


def _sub(r, x, y):  # x subset y on row
    return not (r[x] and not r[y])


SPEC = {
    # name: (description, spec over universe rows with keys 'a','b')
    'implies': ('extent(x) <= extent(y)', lambda occ: all(not (r['a'] and not r['b']) for r in occ)),
    'subsumes': ('extent(y) <= extent(x)', lambda occ: all(not (r['b'] and not r['a']) for r in occ)),
    'properly_implies': ('extent(x) < extent(y)',
                         lambda occ: all(not (r['a'] and not r['b']) for r in occ) and any(r['b'] and not r['a'] for r in occ)),
    'properly_subsumes': ('extent(y) < extent(x)',
                          lambda occ: all(not (r['b'] and not r['a']) for r in occ) and any(r['a'] and not r['b'] for r in occ)),
    'incompatible_with': ('no object in both extents', lambda occ: not any(r['a'] and r['b'] for r in occ)),
    'complement_of': ('disjoint and together all objects',
                      lambda occ: not any(r['a'] and r['b'] for r in occ) and all(r['a'] or r['b'] for r in occ)),
    'subcontrary_with': ('share an object and together all objects',
                         lambda occ: any(r['a'] and r['b'] for r in occ) and all(r['a'] or r['b'] for r in occ)),
    'orthogonal_to': ('share an object, neither contains the other, some object in neither',
                      lambda occ: (any(r['a'] and r['b'] for r in occ) and any(r['a'] and not r['b'] for r in occ)
                                   and any(r['b'] and not r['a'] for r in occ) and any(not r['a'] and not r['b'] for r in occ))),
}

ALIASES = {'__le__': 'implies', '__ge__': 'subsumes', '__lt__': 'properly_implies', '__gt__': 'properly_subsumes'}

# dual reading for predicates written over intents A = intent(self), B = intent(other):
# extent(x) <= extent(y)  iff  B <= A
DUAL = {
    'implies': lambda occ: all(not (r['B'] and not r['A']) for r in occ),
    'subsumes': lambda occ: all(not (r['A'] and not r['B']) for r in occ),
    'properly_implies': lambda occ: all(not (r['B'] and not r['A']) for r in occ) and any(r['A'] and not r['B'] for r in occ),
    'properly_subsumes': lambda occ: all(not (r['A'] and not r['B']) for r in occ) and any(r['B'] and not r['A'] for r in occ),
}

SORT = {'a': 'O', 'b': 'O', 'U': 'O', 'Z': 'O', 'A': 'P', 'B': 'P', 'UI': 'P', 'ZI': 'P'}


def make_var_of(self_name, other_name):
    def var_of(n):
        c = chain(n)
        if not c:
            return None
        if c == [self_name, '_extent']:
            return 'a'
        if c == [other_name, '_extent']:
            return 'b'
        if c == [self_name, '_intent']:
            return 'A'
        if c == [other_name, '_intent']:
            return 'B'
        if len(c) == 4 and c[0] in (self_name, other_name) and c[1] == 'lattice' and c[3] == '_extent':
            if c[2] == 'supremum':
                return 'U'
            if c[2] == 'infimum':
                return 'Z'
        if len(c) == 4 and c[0] in (self_name, other_name) and c[1] == 'lattice' and c[3] == '_intent':
            if c[2] == 'supremum':
                return 'UI'
            if c[2] == 'infimum':
                return 'ZI'
        return None
    return var_of


def render(rows):
    objs, x, y = [], [], []
    for i, r in enumerate(rows, 1):
        o = f'o{i}'
        objs.append(o)
        if r.get('a'):
            x.append(o)
        if r.get('b'):
            y.append(o)
    return {'objects': objs, 'extent_x': x, 'extent_y': y,
            'note': 'every such pair of extents is realised by the context whose extent family is {all, x, y, x&y}'}


def make_hook(self_name, other_name, used):
    """Inlining of derived forms: calls of the other predicates (by their specification - each is decided on its own),
    rich comparisons of concepts, identity/equality of concept-valued expressions (same lattice: same extent)."""

    def concept_term(n):
        """Extent of a concept-valued expression as a term, or None."""
        if isinstance(n, ast.Name):
            if n.id == self_name:
                used.add('a')
                return bitalg.Term(lambda r: r['a'], 'a', frozenset('O'))
            if n.id == other_name:
                used.add('b')
                return bitalg.Term(lambda r: r['b'], 'b', frozenset('O'))
            return None
        c = chain(n)
        if c and len(c) == 3 and c[0] in (self_name, other_name) and c[1] == 'lattice' and c[2] in ('supremum', 'infimum'):
            v = 'U' if c[2] == 'supremum' else 'Z'
            used.add(v)
            return bitalg.Term(lambda r, v=v: r[v], v, frozenset('O'))
        pair = None
        kind = None
        if isinstance(n, ast.Call) and isinstance(n.func, ast.Attribute) and n.func.attr in ('join', 'meet', '__or__', '__and__') and len(n.args) == 1:
            pair, kind = (n.func.value, n.args[0]), {'__or__': 'join', '__and__': 'meet'}.get(n.func.attr, n.func.attr)
        elif isinstance(n, ast.BinOp) and isinstance(n.op, (ast.BitOr, ast.BitAnd)):
            pair, kind = (n.left, n.right), 'join' if isinstance(n.op, ast.BitOr) else 'meet'
        if pair is not None:
            l, r = concept_term(pair[0]), concept_term(pair[1])
            if l is None or r is None:
                return None
            if kind == 'meet':   # extent of the meet = intersection of the extents (C07)
                return bitalg.Term(lambda row: l(row) & r(row), f'({l.text} & {r.text})', frozenset('O'))
            if {l.text, r.text} == {'a', 'b'}:   # extent of the join = closure of the union: a free variable J >= a | b
                used.add('J')
                return bitalg.Term(lambda row: row['J'], 'J', frozenset('O'))
        return None

    def rows_as(occ, lt, rt):
        """Rows re-labelled so that a := extent(lt), b := extent(rt) (for the specification of an inlined predicate)."""
        return [{'a': lt(r), 'b': rt(r)} for r in occ if not r[bitalg.OUTSIDE]]

    def hook(n, rec):
        # x.pred(y) / x < y etc.
        name = None
        lhs = rhs = None
        if isinstance(n, ast.Call) and isinstance(n.func, ast.Attribute) and len(n.args) == 1 and not n.keywords:
            nm = ALIASES.get(n.func.attr, n.func.attr)
            if nm in SPEC:
                name, lhs, rhs = nm, n.func.value, n.args[0]
        elif isinstance(n, ast.Compare) and len(n.ops) == 1:
            opmap = {ast.LtE: 'implies', ast.GtE: 'subsumes', ast.Lt: 'properly_implies', ast.Gt: 'properly_subsumes'}
            if type(n.ops[0]) in opmap:
                name, lhs, rhs = opmap[type(n.ops[0])], n.left, n.comparators[0]
            elif isinstance(n.ops[0], (ast.Is, ast.IsNot, ast.Eq, ast.NotEq)):
                l, r = concept_term(n.left), concept_term(n.comparators[0])
                if l is not None and r is not None:
                    eq = isinstance(n.ops[0], (ast.Is, ast.Eq))
                    if eq:
                        return bitalg.Pred(lambda occ: all(l(row) == r(row) for row in occ), f'{l.text} is {r.text}')
                    return bitalg.Pred(lambda occ: any(l(row) != r(row) for row in occ), f'{l.text} is not {r.text}')
        if name is not None:
            l, r = concept_term(lhs), concept_term(rhs)
            if l is not None and r is not None:
                spec = SPEC[name][1]
                return bitalg.Pred(lambda occ: spec(rows_as(occ, l, r)), f'{name}({l.text}, {r.text})')
        return None

    hook.concept_term = concept_term
    return hook


def decide(R, func, specname):
    slot = specname
    params = func.params
    if len(params) != 2:
        R.unknown('PREDICATE', func, func.node, slot, f'expected (self, other), found {params}')
        return
    try:
        expr, env = function_as_expr(func)
        var_of = make_var_of(*params)
        used = set()

        def tracking(n):
            v = var_of(n)
            if v:
                used.add(v)
            return v
        pred = bitalg.compile_pred(expr, tracking, SORT.get, hook=make_hook(params[0], params[1], used))
    except bitalg.SortError as e:
        R.bad('PREDICATE', func, e.node, slot, 'operands of one sort (object sets)', str(e))
        return
    except Unrecognised as e:
        R.unknown('PREDICATE', func, e.node or func.node, slot, e.what)
        return
    if used & {'A', 'B', 'UI', 'ZI'}:
        if used <= {'A', 'B'} and specname in DUAL:
            pats = list(bitalg.patterns(['A', 'B']))
            diff = bitalg.equivalent(pred, _universe(DUAL[specname]), pats)
            if diff is None:
                R.ok('PREDICATE', func, func.node, slot, found=f'{pred.text} (dual form over intents; {len(pats)} patterns)')
            else:
                R.bad('PREDICATE', func, func.node, slot, SPEC[specname][0] + ' (i.e. intent(y) <= intent(x) ...)',
                      pred.text, extra={'intent_rows': [{k: r[k] for k in ('A', 'B')} for r in diff]})
        else:
            R.unknown('PREDICATE', func, func.node, slot, f'mixes extents and intents: {pred.text}')
        return
    variables = ['a', 'b', 'U'] + (['Z'] if 'Z' in used else []) + (['J'] if 'J' in used else [])

    def row_ok(r):
        return (r['U'] == 1 and (not r.get('Z') or (r['a'] and r['b']))
                and ('J' not in r or r['J'] or not (r['a'] or r['b'])))
    pats = list(bitalg.patterns(variables, row_ok))
    diff = bitalg.equivalent(pred, _universe(SPEC[specname][1]), pats)
    if diff is None:
        R.ok('PREDICATE', func, func.node, slot, found=f'{pred.text} == [{SPEC[specname][0]}] on {len(pats)} occupancy patterns')
    else:
        code = bool(pred(tuple(diff) + (_outside(variables),)))
        extra = render(diff)
        if 'J' in used:
            extra['extent_of_join'] = [f'o{i}' for i, r in enumerate(diff, 1) if r.get('J')]
            extra['note'] = 'realised by the context whose extent family is {all, join, x, y, x&y}: the join is the closure of the union, not the union'
        extra.update(code_says=code, spec_says=not code)
        R.bad('PREDICATE', func, func.node, slot, SPEC[specname][0], pred.text, extra=extra)


def _outside(variables):
    row = {v: 0 for v in variables}
    row[bitalg.OUTSIDE] = 1
    return row


def _universe(spec):
    return bitalg.Pred(lambda occ: spec([r for r in occ if not r[bitalg.OUTSIDE]]), 'spec')


def run(model, R):
    cls = concept_cls(model)
    R.floor('PREDICATE', 12)
    for name in list(SPEC) + list(ALIASES):
        specname = ALIASES.get(name, name)
        try:
            func = resolve_method(model, cls, name)
        except Unrecognised as e:
            R.unknown('PREDICATE', f'lattice_members.Concept.{name}', cls.node, name, e.what)
            continue
        if name in ALIASES:
            # the operator must denote the named predicate: decide the bound function against that spec
            ob_before = len(R.obs)
            decide(R, func, specname)
            for o in R.obs[ob_before:]:
                o.slot = f'{name} -> {specname}'
        else:
            decide(R, func, specname)
    # a subclass (Infimum, Atom, Supremum, ...) overriding a predicate is decided against the same specification
    for sub, name, target in subclass_overrides(model, cls, list(SPEC) + list(ALIASES)):
        specname = ALIASES.get(name, name)
        if hasattr(target, 'node'):
            before = len(R.obs)
            decide(R, target, specname)
            for o in R.obs[before:]:
                o.slot = f'{sub.name}.{name} (override) -> {specname}'
        elif isinstance(target, ast.Name) and target.id in sub.methods and ALIASES.get(name) == target.id:
            R.ok('PREDICATE', f'{sub.key}.{name}', sub.node, f'{sub.name}.{name} is {target.id}')
        else:
            R.unknown('PREDICATE', f'{sub.key}.{name}', sub.node, f'{sub.name}.{name} (override)', 'rebinding that is not a method definition')
    return __doc__.strip()
