"""Helpers shared by the rule modules."""

import ast

from ..astutil import Env, chain, src, walk, stmts
from ..model import Unrecognised

__all__ = ['function_as_expr', 'concept_cls', 'resolve_method', 'single_return', 'returns_of',
           'top_level', 'find_calls', 'only', 'method_calls_on']


def function_as_expr(func):
    """Fold ``<temps>; [if c: return x]*; return y`` into one expression (temps expanded)."""
    env = Env(func)

    def fold(body):
        for i, s in enumerate(body):
            if isinstance(s, ast.Assign) and all(isinstance(t, ast.Name) for t in s.targets):
                continue
            if isinstance(s, ast.Expr) and isinstance(s.value, ast.Constant):
                continue
            if isinstance(s, ast.Assert):
                continue
            if isinstance(s, ast.Return):
                if s.value is None:
                    raise Unrecognised('bare return in predicate', node=s, func=func)
                return s.value
            if isinstance(s, ast.If):
                rest = body[i + 1:]
                then = fold(s.body + rest) if not _ends_in_return(s.body) else fold(s.body)
                other = fold((s.orelse or []) + rest)
                return ast.IfExp(test=s.test, body=then, orelse=other)
            raise Unrecognised(f'statement outside the expression-function idiom: {src(s)[:60]}', node=s, func=func)
        raise Unrecognised('function may fall off its end', node=func.node, func=func)

    return env.expand(fold(func.body)), env


def _ends_in_return(body):
    return bool(body) and isinstance(body[-1], ast.Return)


def concept_cls(model):
    return model.cls('lattice_members.Concept')


def resolve_method(model, cls, name):
    owner, target = model.lookup(cls, name)
    if owner is None or not hasattr(target, 'node'):
        raise Unrecognised(f'{cls.key}.{name} does not resolve to a method in the package')
    return target


def returns_of(func):
    return [n for n in walk(func.body) if isinstance(n, ast.Return)]


def single_return(func):
    rets = returns_of(func)
    if len(rets) != 1 or rets[0].value is None:
        raise Unrecognised(f'expected exactly one valued return, found {len(rets)}', node=func.node, func=func)
    return rets[0]


def top_level(func):
    return list(func.body)


def find_calls(node_or_body, pred):
    out = []
    for n in walk(node_or_body):
        if isinstance(n, ast.Call) and pred(n):
            out.append(n)
    return sorted(out, key=lambda n: (n.lineno, n.col_offset))


def only(items, what, func=None, node=None):
    items = list(items)
    if len(items) != 1:
        raise Unrecognised(f'expected exactly one {what}, found {len(items)}', node=node, func=func)
    return items[0]


def method_calls_on(body, receiver_chain, method=None):
    """Calls ``<receiver>.<method>(...)`` where receiver is the given attribute chain (list of names)."""
    out = []
    for n in walk(body):
        if isinstance(n, ast.Call) and isinstance(n.func, ast.Attribute):
            if method is not None and n.func.attr != method:
                continue
            if chain(n.func.value) == list(receiver_chain):
                out.append(n)
    return sorted(out, key=lambda n: (n.lineno, n.col_offset))
