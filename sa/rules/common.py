"""Helpers shared by the rule modules."""

import ast

from ..astutil import Env, chain, src, walk, stmts
from ..model import Unrecognised

__all__ = ['no_unpickle_shortcut', 'absent', 'closed_world', 'flag_clobber', 'subclass_overrides', 'function_as_expr', 'concept_cls', 'resolve_method', 'single_return', 'returns_of',
           'top_level', 'find_calls', 'only', 'method_calls_on']


def function_as_expr(func):
    """Fold ``<temps>; [if c: return x]*; return y`` into one expression (temps expanded)."""
    env = Env(func)

    def fold(body):
        for i, s in enumerate(body):
            if isinstance(s, ast.Assign) and all(isinstance(t, ast.Name) for t in s.targets):
                continue
            if isinstance(s, ast.Expr) and isinstance(s.value, ast.Constant):
                continue
            if isinstance(s, ast.Assert):
                continue
            if isinstance(s, ast.Return):
                if s.value is None:
                    raise Unrecognised('bare return in predicate', node=s, func=func)
                return s.value
            if isinstance(s, ast.If):
                rest = body[i + 1:]
                then = fold(s.body + rest) if not _ends_in_return(s.body) else fold(s.body)
                other = fold((s.orelse or []) + rest)
                return ast.IfExp(test=s.test, body=then, orelse=other)
            raise Unrecognised(f'statement outside the expression-function idiom: {src(s)[:60]}', node=s, func=func)
        raise Unrecognised('function may fall off its end', node=func.node, func=func)

    return env.expand(fold(func.body)), env


def _ends_in_return(body):
    return bool(body) and isinstance(body[-1], ast.Return)


def concept_cls(model):
    return model.cls('lattice_members.Concept')


def resolve_method(model, cls, name):
    owner, target = model.lookup(cls, name)
    if owner is None or not hasattr(target, 'node'):
        raise Unrecognised(f'{cls.key}.{name} does not resolve to a method in the package')
    return target


def returns_of(func):
    return [n for n in walk(func.body) if isinstance(n, ast.Return)]


def single_return(func):
    rets = returns_of(func)
    if len(rets) != 1 or rets[0].value is None:
        raise Unrecognised(f'expected exactly one valued return, found {len(rets)}', node=func.node, func=func)
    return rets[0]


def top_level(func):
    return list(func.body)


def find_calls(node_or_body, pred):
    out = []
    for n in walk(node_or_body):
        if isinstance(n, ast.Call) and pred(n):
            out.append(n)
    return sorted(out, key=lambda n: (n.lineno, n.col_offset))


def only(items, what, func=None, node=None):
    items = list(items)
    if len(items) != 1:
        raise Unrecognised(f'expected exactly one {what}, found {len(items)}', node=node, func=func)
    return items[0]


def method_calls_on(body, receiver_chain, method=None):
    """Calls ``<receiver>.<method>(...)`` where receiver is the given attribute chain (list of names)."""
    out = []
    for n in walk(body):
        if isinstance(n, ast.Call) and isinstance(n.func, ast.Attribute):
            if method is not None and n.func.attr != method:
                continue
            if chain(n.func.value) == list(receiver_chain):
                out.append(n)
    return sorted(out, key=lambda n: (n.lineno, n.col_offset))


def subclass_overrides(model, base, names):
    """(subclass, name, Func or expr) for every class in the package deriving from ``base`` that rebinds one of ``names``
    (a method definition or a class-body alias): the rules decided on ``base`` must hold for those, too."""
    out = []
    for mod in model.modules.values():
        for c in mod.classes.values():
            if c is base or base not in model.mro(c):
                continue
            for n in names:
                if n in c.methods:
                    out.append((c, n, c.methods[n]))
                elif n in c.aliases:
                    out.append((c, n, c.aliases[n]))
    return out


def flag_clobber(R, func, flags, rule='FLAG-CLOBBER'):
    """A mode flag the caller passes (raw / unordered / ignore_* / require_* / reorder ...) selects the careful path; the
    function may read it but not overwrite it (``flag = bool(flag)`` style normalisations excepted)."""
    for flag in flags:
        if flag not in func.params:
            R.unknown(rule, func, func.node, f'flag {flag}', 'parameter missing')
            continue
        writes = [s for s in stmts(func.body) if (isinstance(s, ast.Assign) and any(isinstance(t, ast.Name) and t.id == flag for t in ast.walk(ast.Tuple(elts=s.targets, ctx=ast.Store()))))
                  or (isinstance(s, (ast.AugAssign, ast.AnnAssign)) and isinstance(s.target, ast.Name) and s.target.id == flag)]
        bad = []
        for w in writes:
            v = getattr(w, 'value', None)
            if isinstance(w, ast.Assign) and isinstance(v, ast.Call) and isinstance(v.func, ast.Name) and v.func.id == 'bool' \
                    and len(v.args) == 1 and isinstance(v.args[0], ast.Name) and v.args[0].id == flag:
                continue
            bad.append(w)
        R.check(not bad, rule, func, bad[0] if bad else func.node, f'{func.name}: the caller\'s {flag} flag is not overwritten',
                f'{flag} only read', src(bad[0])[:90] if bad else '',
                extra={'consequence': f'the path selected by {flag} is silently replaced for some inputs'} if bad else None)


def closed_world(model, func):
    """True when the function (after normalisation) calls no *new* package helper that could carry the effect a rule
    is looking for: only then is "the effect is missing here" a fact about the behaviour."""
    from .. import normalize
    for n in ast.walk(func.node):
        if isinstance(n, ast.Call):
            target, _ = normalize.resolve_helper(model, func, n)
            if target is not None and target is not func:
                return False
    return True


def absent(model, R, rule, func, node, slot, expected, found, extra=None):
    """Report a missing effect: VIOLATION in a closed world, UNRECOGNISED when an un-inlined new helper is called."""
    if closed_world(model, func):
        return R.bad(rule, func, node, slot, expected, found, extra)
    return R.unknown(rule, func, node, slot, f'{found} - but the function delegates to a helper the rule does not follow')


def no_unpickle_shortcut(model, R, rule):
    """``Lattice._init(..., unpickle=True)`` returns before ranks, atoms and labels are computed.  That shortcut is only
    valid for members that already carry them; the flat pickle state rebuilds fresh members, so no call may take it."""
    init = model.func('lattices.Data._init')
    if 'unpickle' not in init.params:
        R.ok(rule, init, init.node, '_init has no shortcut that skips ranks/atoms/labels')
        return
    pos = init.params.index('unpickle')
    n = 0
    for f in model.all_funcs():
        for call in walk(f.body):
            if isinstance(call, ast.Call) and (chain(call.func) or [''])[-1] == '_init':
                n += 1
                val = next((k.value for k in call.keywords if k.arg == 'unpickle'), None)
                if val is None and len(call.args) > pos and not any(isinstance(a, ast.Starred) for a in call.args):
                    val = call.args[pos]
                ok = val is None or (isinstance(val, ast.Constant) and val.value is False)
                R.decided(ok, rule, f, call, f'{f.name}: _init runs completely (ranks, atoms, labels)', 'no unpickle=... argument (or False)',
                          f'unpickle={src(val)}' if val is not None else '',
                          extra={'consequence': 'members rebuilt from the flat state keep the class defaults objects == () / properties == () and have no dindex/atoms'} if not ok else None)
    if n == 0:
        R.unknown(rule, init, init.node, '_init call sites', 'no call of _init found')


FROMARGS_FIELDS = {'definitions.Triple._fromargs': ['_objects', '_properties', '_pairs'], 'tools.Unique._fromargs': ['_seen', '_items']}


def fromargs_args(model, caller, call):
    """Arguments of a ``_fromargs(...)`` call in *field* order (the order of the fields the constructor helper stores them in),
    whatever the helper's parameters are called and however the call spells them (position or keyword).  None when the
    helper does not store each field from a distinct parameter or the call cannot be bound."""
    from ..astutil import chain, stmts
    bound = model.bind(caller, call)
    if bound is None:
        return None
    from ..normalize import _resolve_callee
    target, _ = _resolve_callee(model, caller, call)
    fields = FROMARGS_FIELDS.get(target.key) if target is not None else None
    if fields is None:
        return None
    stores = {}
    for s in stmts(target.body):
        if isinstance(s, ast.Assign) and len(s.targets) == 1:
            c = chain(s.targets[0])
            if c and len(c) == 2 and c[1] in fields and isinstance(s.value, ast.Name):
                stores[c[1]] = s.value.id
    if set(stores) != set(fields) or len(set(stores.values())) != len(fields):
        return None
    out = [bound.get(stores[f]) for f in fields]
    return None if any(a is None for a in out) else out
