"""Per-property rule modules; each exposes ``run(model, R)``."""
