"""C17: no hash-seed dependent iteration order reaches an observable ordered result.
Whole-package order-taint analysis: every value of static type set/frozenset (displays,
comprehensions, set()/frozenset() calls, set-operator results, the set-typed fields _pairs/_seen,
helper results summarised interprocedurally) is followed to its consumers; ordered views of it
(list/tuple/iter/comprehension/loop/permutations ...) are tainted and must not reach an
order-sensitive sink (Unique(...)/Unique |=, join, formatting, append/yield in a loop, attribute
stores) except through a sanitiser (sorted, heap keyed by a unique rank, commutative reduction,
loop with commutative body).  Also: id()/hash() only inside __repr__.  Does not decide
nondeterminism inside bitsets/graphviz/json (outside /repo).
"""

import ast

from .. import taint

GENERIC = False   # the order-taint analysis touches every function; the generic lints belong to the other properties
from ..astutil import chain, src, walk


def run(model, R):
    A = taint.Analysis(model)
    for func in model.all_funcs():
        A.analyse(func)
    seen = set()
    for f in A.findings:
        key = (f.func.key, getattr(f.node, 'lineno', 0), getattr(f.node, 'col_offset', 0), f.detail)
        if key in seen:
            continue
        seen.add(key)
        slot = f'{f.what} -> {f.detail}'
        if f.kind == 'ok':
            R.ok('ORDER-TAINT', f.func, f.node, slot)
        elif f.kind == 'bad':
            R.bad('ORDER-TAINT', f.func, f.node, f'{f.what}', 'no hash-ordered value reaches an order-sensitive sink', f.detail)
        else:
            R.unknown('ORDER-TAINT', f.func, f.node, f.what, f.detail)
    R.floor('ORDER-TAINT', 40)
    R.note(f'{A.sources} set construction sites; summaries: ' + ', '.join(
        f'{k} returns {v["returns"]}' for k, v in sorted(A.summaries.items()) if v['returns']))
    # id()/hash(): only inside __repr__ (memory addresses in reprs are excepted by the statement)
    n = 0
    for func in model.all_funcs():
        for node in walk(func.body):
            if isinstance(node, ast.Call) and isinstance(node.func, ast.Name) and node.func.id in ('id', 'hash'):
                n += 1
                R.check(func.name == '__repr__' and node.func.id == 'id', 'ADDRESS-DEPENDENCE', func, node,
                        f'{node.func.id}() only in __repr__', 'id() used only to print an address in a repr', src(node))
    R.floor('ADDRESS-DEPENDENCE', 2)
    return __doc__.strip()
