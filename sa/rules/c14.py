"""C14: derived definitions are unaliased and have the expected cells; Context<->Definition agree.
Decides: freshness (ownership) of every container handed to ``_fromargs`` and of the result of
union/intersection (so no edit of one side can reach the other); the cell comprehension of
transposed / inverted / take against its definition, incl. axis sorts; that each optional
argument of take is used only under its own None test and that its KeyError guard is the stated
formula; conflicting_pairs over two distinct operands; completeness of Context.__eq__ /
Triple.__eq__ / __ne__; agreement of __iter__ order with Context.__init__, of crc32, tostring,
shape between the two classes.  Involution laws and fill_ratio equality are consequences, not
decided separately.
"""

import ast

from .. import fresh, guards
from ..astutil import Env, chain, src, walk, strip_not, const, stmts, is_none_test, reaching_value, contains_name, flatten_bool
from ..model import Unrecognised
from .c13 import Ctx, name_is, FIELDS, AXIS, t_inplace_op

TRIPLE = 'definitions.Triple'


from .common import fromargs_args


def _fromargs_calls(func):
    return sorted((n for n in walk(func.body) if isinstance(n, ast.Call) and isinstance(n.func, ast.Attribute)
                   and n.func.attr == '_fromargs'), key=lambda n: n.lineno)


def freshness(model, R):
    sites = [('definitions.Triple.copy', 3), ('definitions.TransformableMixin.inverted', 3),
             ('definitions.TransformableMixin.transposed', 3), ('definitions.TransformableMixin.take', 3),
             ('tools.Unique.copy', 2), ('tools.Unique.rsub', 2)]
    R.floor('FRESH', 16)
    for key, nargs in sites:
        try:
            func = model.func(key)
        except Unrecognised as e:
            R.unknown('FRESH', key, '?', 'anchor', e.what)
            continue
        calls = _fromargs_calls(func)
        if not calls:
            R.unknown('FRESH', func, func.node, '_fromargs call', 'no _fromargs call: derived object built differently')
            continue
        env = fresh.local_bindings(func)
        params = set(func.params)
        for call in calls:
            fargs = fromargs_args(model, func, call)
            if fargs is None or len(fargs) != nargs:
                R.unknown('FRESH', func, call, '_fromargs arity', src(call))
                continue
            for i, a in enumerate(fargs):
                kind, why = fresh.classify(a, env, params, func=func)
                slot = f'_fromargs argument {i}'
                if kind == fresh.FRESH:
                    R.ok('FRESH', func, a, slot, found=f'{src(a)[:80]}: {why}')
                elif kind == fresh.BORROWED:
                    R.bad('FRESH', func, a, slot, 'a fresh container (copy / comprehension / constructor)',
                          f'{src(a)[:80]} is {why}: the result shares mutable state with its source')
                else:
                    R.unknown('FRESH', func, a, slot, f'cannot classify {src(a)[:80]}: {why}')
    # _fromargs itself stores its arguments (ownership transfer) — so the arguments above are the only owners
    for key, fields in (('definitions.Triple._fromargs', ['_objects', '_properties', '_pairs']),
                        ('tools.Unique._fromargs', ['_seen', '_items'])):
        func = model.func(key)
        stores = {}
        for s in stmts(func.body):
            if isinstance(s, ast.Assign) and len(s.targets) == 1:
                c = chain(s.targets[0])
                if c and len(c) == 2 and c[1] in fields:
                    stores[c[1]] = s.value
        params = func.params[1:]
        # each field is stored from its own parameter (the call sites are judged field by field through fromargs_args)
        ok = set(stores) == set(fields) and all(isinstance(v, ast.Name) and v.id in params for v in stores.values()) \
            and len({v.id for v in stores.values() if isinstance(v, ast.Name)}) == len(fields)
        R.check(ok and len(stores) == len(fields), 'FRESH', func, func.node, '_fromargs stores each field from its own parameter',
                ', '.join(f'inst.{f} = <parameter>' for f in fields),
                ', '.join(f'{f} = {src(v)}' for f, v in stores.items()), strict=True)


def union_intersection(model, R):
    for name, target in (('union', 'union_update'), ('intersection', 'intersection_update')):
        func = model.func(f'definitions.MutableMixin.{name}')
        params = func.params
        other = params[1]
        flag = params[2] if len(params) > 2 else None
        env = fresh.local_bindings(func)
        calls = [n for n in walk(func.body) if isinstance(n, ast.Call) and isinstance(n.func, ast.Attribute) and n.func.attr == target]
        if len(calls) != 1:
            R.unknown('FRESH', func, func.node, f'{name}: delegates to {target}', f'{len(calls)} calls of {target}')
            continue
        call = calls[0]
        recv = call.func.value
        kind, why = fresh.classify(recv, env, set(params), func=func)
        if kind == fresh.FRESH:
            R.ok('FRESH', func, call, f'{name}: {target} runs on a fresh copy', found=f'{src(recv)}: {why}')
        elif kind == fresh.BORROWED:
            R.bad('FRESH', func, call, f'{name}: {target} runs on a fresh copy', 'result = self.copy(); result.' + target + '(...)',
                  f'{src(recv)} is {why}: the source operand is mutated')
        else:
            R.unknown('FRESH', func, call, f'{name}: {target} runs on a fresh copy', why)
        # the fresh receiver must be a copy of self
        vals = env.get(recv.id, []) if isinstance(recv, ast.Name) else [recv]
        okcopy = all(isinstance(v, ast.Call) and isinstance(v.func, ast.Attribute) and v.func.attr == 'copy'
                     and name_is(v.func.value, params[0]) for v in vals) and bool(vals)
        if kind == fresh.FRESH:
            R.check(okcopy, 'DERIVED', func, call, f'{name}: result starts as a copy of self', f'{params[0]}.copy()',
                    '; '.join(src(v) for v in vals))
        rets = [n for n in walk(func.body) if isinstance(n, ast.Return)]
        R.check(len(rets) == 1 and rets[0].value is not None and src(rets[0].value) == src(recv), 'DERIVED', func,
                rets[0] if rets else func.node, f'{name}: returns the updated copy', f'return {src(recv)}',
                src(rets[0].value) if rets else 'no return')
        R.check(bool(call.args) and name_is(call.args[0], other), 'DERIVED', func, call, f'{name}: other operand passed on',
                f'{target}({other}, ...)', src(call))
        if flag:
            passed = call.args[1] if len(call.args) > 1 else next((k.value for k in call.keywords if k.arg == flag), None)
            R.check(passed is not None and name_is(passed, flag), 'DERIVED', func, call, f'{name}: {flag} passed on',
                    f'{target}({other}, {flag})', src(call))
            d = func.defaults().get(flag)
            R.check(d is not None and const(d, 'x') is False, 'API-DEFAULT', func, d or func.node, f'{name}: {flag} default', 'False', src(d))
    cls = model.cls('definitions.MutableMixin')
    for op, name in (('__or__', 'union'), ('__and__', 'intersection')):
        owner, target = model.lookup(model.cls('definitions.Definition'), op)
        R.check(hasattr(target, 'node') and target.name == name, 'ALIAS', f'definitions.Definition.{op}', cls.node, f'{op} is {name}',
                name, _tname(target))
    for op, name in (('__invert__', 'inverted'), ('__neg__', 'transposed')):
        owner, target = model.lookup(model.cls('definitions.Definition'), op)
        R.check(hasattr(target, 'node') and target.name == name, 'ALIAS', f'definitions.Definition.{op}', cls.node, f'{op} is {name}',
                name, _tname(target))


def _tname(target):
    if hasattr(target, 'node'):
        return target.name
    return src(target) if target is not None else 'undefined'


def _copy_of(node, env_expand):
    """If node is ``self.<field>.copy()`` / ``Unique(self.<field>)`` (after alias expansion) return the field name."""
    n = env_expand(node)
    if isinstance(n, ast.Call) and isinstance(n.func, ast.Attribute) and n.func.attr == 'copy' and not n.args:
        c = chain(n.func.value)
        if c and len(c) == 2 and c[0] == 'self':
            return c[1]
    if isinstance(n, ast.Call) and len(n.args) == 1 and '.'.join(chain(n.func) or []) in ('set', 'tools.Unique', 'Unique', 'list'):
        c = chain(n.args[0])
        if c and len(c) == 2 and c[0] == 'self':
            return c[1]
    if isinstance(n, ast.Subscript) and isinstance(n.slice, ast.Slice):
        c = chain(n.value)
        if c and len(c) == 2 and c[0] == 'self':
            return c[1]
    return None


def derived_tables(model, R):
    R.floor('DERIVED', 14)
    # ---- copy
    func = model.func('definitions.Triple.copy')
    call = _fromargs_calls(func)
    env = Env(func)
    fargs = fromargs_args(model, func, call[0]) if len(call) == 1 else None
    if fargs is not None and len(fargs) == 3:
        got = [_copy_of(a, env.expand) for a in fargs]
        R.check(got == ['_objects', '_properties', '_pairs'], 'DERIVED', func, call[0], 'copy: same three fields in order',
                '_fromargs(copy of _objects, copy of _properties, copy of _pairs)', str(got))
    else:
        R.unknown('DERIVED', func, func.node, 'copy', 'not a single _fromargs call')
    # ---- transposed
    func = model.func('definitions.TransformableMixin.transposed')
    C = Ctx(R, func)
    call = _fromargs_calls(func)
    fargs = fromargs_args(model, func, call[0]) if len(call) == 1 else None
    if fargs is not None and len(fargs) == 3:
        a0, a1, cells = fargs
        got = [_copy_of(a0, C.X), _copy_of(a1, C.X)]
        R.check(got == ['_properties', '_objects'], 'DERIVED', func, call[0], 'transposed: axes swapped',
                '_fromargs(copy of _properties, copy of _objects, ...)', str(got))
        cells = C.X(cells)
        ok = False
        if isinstance(cells, (ast.SetComp,)) and len(cells.generators) == 1:
            g = cells.generators[0]
            f = C.field_of(g.iter)
            if (f and f[1] == '_pairs' and not g.ifs and isinstance(g.target, ast.Tuple) and len(g.target.elts) == 2
                    and isinstance(cells.elt, ast.Tuple) and len(cells.elt.elts) == 2):
                t0, t1 = (src(x) for x in g.target.elts)
                e0, e1 = (src(x) for x in cells.elt.elts)
                ok = (e0, e1) == (t1, t0) and t0 != t1
        R.check(ok, 'DERIVED', func, call[0], 'transposed: every cell swapped', '{(p, o) for (o, p) in self._pairs}', src(cells))
    else:
        R.unknown('DERIVED', func, func.node, 'transposed', 'not a single _fromargs call')
    # ---- inverted
    func = model.func('definitions.TransformableMixin.inverted')
    C = Ctx(R, func)
    call = _fromargs_calls(func)
    fargs = fromargs_args(model, func, call[0]) if len(call) == 1 else None
    if fargs is not None and len(fargs) == 3:
        a0, a1, cells = fargs
        got = [_copy_of(a0, C.X), _copy_of(a1, C.X)]
        R.check(got == ['_objects', '_properties'], 'DERIVED', func, call[0], 'inverted: axes kept',
                '_fromargs(copy of _objects, copy of _properties, ...)', str(got))
        def axis_is(n, fld):
            if (C.field_of(n) or (None, None))[1] == fld:
                return True
            return _copy_of(n, C.X) == fld       # a fresh copy of the axis has the same members
        _cells_product(C, cells, call[0], 'inverted', want_in=False,
                       axes=(lambda n: axis_is(n, '_objects'), lambda n: axis_is(n, '_properties')),
                       axes_text=('self._objects', 'self._properties'))
    else:
        R.unknown('DERIVED', func, func.node, 'inverted', 'not a single _fromargs call')
    take_rules(model, R)


def _cells_product(C, cells, node, what, want_in, axes, axes_text):
    """{(o, p) for o in A for p in B if (o, p) [not] in pairs}"""
    R, func = C.R, C.func
    cells = C.X(cells)
    setop = None
    # {product} - pairs  ==  {.. if cell not in pairs};   {product} & pairs  ==  {.. if cell in pairs}
    if isinstance(cells, ast.BinOp) and isinstance(cells.op, (ast.Sub, ast.BitAnd)) and isinstance(cells.left, ast.SetComp):
        f_ = C.field_of(cells.right)
        if f_ and f_[1] == '_pairs' and not any(g.ifs for g in cells.left.generators):
            setop = 'not in' if isinstance(cells.op, ast.Sub) else 'in'
            cells = cells.left
    if not isinstance(cells, ast.SetComp) or len(cells.generators) != 2:
        R.unknown('DERIVED', func, node, f'{what}: cells', f'not a two-generator set comprehension: {src(cells)[:80]}')
        return
    g0, g1 = cells.generators
    ok_axes = axes[0](g0.iter) and axes[1](g1.iter)
    swapped = axes[1](g0.iter) and axes[0](g1.iter)
    elt_ok = (isinstance(cells.elt, ast.Tuple) and len(cells.elt.elts) == 2 and isinstance(g0.target, ast.Name)
              and isinstance(g1.target, ast.Name))
    if not elt_ok:
        R.unknown('DERIVED', func, node, f'{what}: cells', src(cells)[:80])
        return
    e0, e1 = (src(x) for x in cells.elt.elts)
    if swapped:
        ok_elt = (e0, e1) == (g1.target.id, g0.target.id)
        ok_axes = True
    else:
        ok_elt = (e0, e1) == (g0.target.id, g1.target.id)
    R.check(ok_axes, 'DERIVED', func, node, f'{what}: cells range over the product of both axes',
            f'for o in {axes_text[0]} for p in {axes_text[1]}', f'for {src(g0.target)} in {src(g0.iter)} for {src(g1.target)} in {src(g1.iter)}')
    R.check(ok_elt, 'DERIVED', func, node, f'{what}: cell is (object, property)', '(o, p)', f'({e0}, {e1})')
    filters = g0.ifs + g1.ifs
    ok = False
    if setop is not None:
        R.decided(setop == ('in' if want_in else 'not in'), 'DERIVED', func, node, f'{what}: cell filter',
                  f'(o, p) {"in" if want_in else "not in"} self._pairs', f'product {"-" if setop == "not in" else "&"} self._pairs')
        return
    if len(filters) == 1:
        t, neg = strip_not(filters[0])
        if isinstance(t, ast.Compare) and len(t.ops) == 1 and isinstance(t.ops[0], (ast.In, ast.NotIn)):
            f = C.field_of(t.comparators[0])
            is_in = isinstance(t.ops[0], ast.In) != neg
            ok = bool(f) and f[1] == '_pairs' and src(t.left) == src(cells.elt) and is_in == want_in
    R.check(ok, 'DERIVED', func, node, f'{what}: cell filter', f'(o, p) {"in" if want_in else "not in"} self._pairs',
            '; '.join(src(f) for f in filters) or 'no filter')


def take_rules(model, R):
    func = model.func('definitions.TransformableMixin.take')
    C = Ctx(R, func)
    params = func.params
    if len(params) < 3:
        R.unknown('DERIVED', func, func.node, 'take', 'signature')
        return
    p_obj, p_prop = params[1], params[2]
    C.elem_sorts[p_obj], C.elem_sorts[p_prop] = 'ON', 'PN'
    d = func.defaults()
    for p in (p_obj, p_prop):
        R.check(p in d and const(d[p], 'x') is None, 'API-DEFAULT', func, d.get(p) or func.node, f'take: {p} default None (= keep all)',
                'None', src(d.get(p)))
    if len(params) > 3:
        R.check(const(d.get(params[3]), 'x') is False, 'API-DEFAULT', func, d.get(params[3]) or func.node,
                f'take: {params[3]} default False (original order)', 'False', src(d.get(params[3])))
    # NULLNESS: each optional parameter is consumed only under a test of that very parameter
    nullness(R, func, [p_obj, p_prop])
    # the KeyError guard
    key_ifs = [s for s in stmts(func.body) if isinstance(s, ast.If) and any(
        isinstance(b, ast.Raise) and b.exc is not None and 'KeyError' in src(b.exc) for b in s.body)]
    if len(key_ifs) != 1:
        R.unknown('GUARD', func, func.node, 'take: KeyError guard', f'{len(key_ifs)} guarded raise KeyError')
    else:
        test = key_ifs[0].test

        def atomizer(n):
            if isinstance(n, ast.Name) and n.id in (p_obj, p_prop):
                return (f'given({n.id})', True)
            nt = is_none_test(n)
            if nt and nt[0] in (p_obj, p_prop):
                return (f'given({nt[0]})', not nt[1])
            if (isinstance(n, ast.Call) and isinstance(n.func, ast.Attribute) and n.func.attr == 'issuperset'
                    and len(n.args) == 1 and isinstance(n.args[0], ast.Name)):
                f = C.field_of(n.func.value)
                if f and f[1] in AXIS:
                    return (f'{f[1]}>={n.args[0].id}', True)
            return None
        try:
            f = guards.compile_formula(test, atomizer)
            so, sp = f'_objects>={p_obj}', f'_properties>={p_prop}'
            go, gp = f'given({p_obj})', f'given({p_prop})'
            stray = [a for a in f.atoms if a not in (so, sp, go, gp)]
            if stray:
                R.bad('GUARD', func, test, 'take: KeyError guard', f'{p_obj} tested against _objects, {p_prop} against _properties',
                      f.text, extra={'stray_atoms': stray})
            else:
                diff = guards.equivalent(f, lambda e: (e[go] and not e[so]) or (e[gp] and not e[sp]), [so, sp, go, gp])
                R.decided(diff is None, 'GUARD', func, test, 'take: KeyError guard',
                        f'raise iff ({p_obj} given and not all known) or ({p_prop} given and not all known)', f.text,
                        extra={'differs_at': diff})
        except Unrecognised as e:
            R.unknown('GUARD', func, test, 'take: KeyError guard', e.what)
    # the result
    calls = _fromargs_calls(func)
    fargs = fromargs_args(model, func, calls[0]) if len(calls) == 1 else None
    if fargs is None or len(fargs) != 3:
        R.unknown('DERIVED', func, func.node, 'take', 'not a single _fromargs call')
        return
    a0, a1, cells = fargs
    bind = fresh.local_bindings(func)

    def axis_source(node, field, param):
        """All values the name is bound to derive from the given axis / the matching parameter."""
        vals = bind.get(node.id, []) if isinstance(node, ast.Name) else [node]
        if not vals:
            return False, 'unbound'
        for v in vals:
            arms = [v.body, v.orelse] if isinstance(v, ast.IfExp) else [v]
            for arm in arms:
                cf = _copy_of(arm, lambda n: n)
                if cf == field:
                    continue
                if (isinstance(arm, ast.Call) and len(arm.args) == 1 and name_is(arm.args[0], param)
                        and '.'.join(chain(arm.func) or []) in ('tools.Unique', 'Unique', 'list', 'tuple')):
                    continue
                return False, src(arm)
        return True, ''
    ok0, why0 = axis_source(a0, '_objects', p_obj)
    ok1, why1 = axis_source(a1, '_properties', p_prop)
    R.check(ok0, 'DERIVED', func, calls[0], 'take: object axis derives from _objects / the objects argument',
            f'copy of self._objects or Unique({p_obj})', why0)
    R.check(ok1, 'DERIVED', func, calls[0], 'take: property axis derives from _properties / the properties argument',
            f'copy of self._properties or Unique({p_prop})', why1)
    # in-place restriction: obj &= objects (own parameter)
    for s in stmts(func.body):
        if isinstance(s, ast.AugAssign) and isinstance(s.target, ast.Name) and isinstance(s.op, ast.BitAnd):
            if src(s.target) == src(a0):
                R.check(name_is(s.value, p_obj), 'DERIVED', func, s, 'take: object axis restricted by the objects argument',
                        f'{src(a0)} &= {p_obj}', src(s))
            elif src(s.target) == src(a1):
                R.check(name_is(s.value, p_prop), 'DERIVED', func, s, 'take: property axis restricted by the properties argument',
                        f'{src(a1)} &= {p_prop}', src(s))
    # the selection is applied whenever it is given (``is not None``), also when it is empty
    from ..astutil import path_condition
    for param in (p_obj, p_prop):
        uses = []
        for s in stmts(func.body):
            if isinstance(s, ast.AugAssign) and name_is(s.value, param):
                uses.append((s, None))
            elif isinstance(s, ast.Assign) and isinstance(s.value, ast.Call) and len(s.value.args) == 1 and name_is(s.value.args[0], param):
                uses.append((s, None))
            elif isinstance(s, ast.Assign) and isinstance(s.value, ast.IfExp) and contains_name(s.value.body, param):
                uses.append((s, s.value.test))
        for s, inline in uses:
            conds = path_condition(func.body, s)
            if conds is None:
                continue
            tests = [(t, pol) for t, pol in conds] + ([(inline, True)] if inline is not None else [])
            truthy = [t for t, pol in tests for part in (flatten_bool(t, ast.And) if pol else [t])
                      if (pol and name_is(part, param)) or (not pol and isinstance(part, ast.UnaryOp) and isinstance(part.op, ast.Not) and name_is(part.operand, param))]
            nonnull = [t for t, pol in tests if is_none_test(t) and is_none_test(t)[0] == param]
            if truthy and not nonnull:
                R.bad('GUARD', func, truthy[0], f'take: the {param} selection is applied whenever it is given', f'if {param} is not None',
                      f'if {src(truthy[0])} (truth value): {src(s)[:60]}',
                      extra={'consequence': f'take({param}=[]) keeps the whole axis instead of returning the empty selection'})
            else:
                R.ok('GUARD', func, s, f'take: the {param} selection is applied whenever it is given', src(s)[:80])
    _cells_product(C, cells, calls[0], 'take', want_in=True,
                   axes=(lambda n: src(n) == src(a0), lambda n: src(n) == src(a1)), axes_text=(src(a0), src(a1)))


def nullness(R, func, optional):
    """A parameter defaulting to None may be iterated / passed to a constructor only under a test of that parameter."""
    parents = {}
    for n in ast.walk(func.node):
        for c in ast.iter_child_nodes(n):
            parents[c] = n

    def tested(node, p):
        """names tested (truthiness / is not None) on the path from the use up to the function."""
        found = set()
        cur = node
        while cur in parents:
            par = parents[cur]
            if isinstance(par, ast.IfExp):
                nt = _guarded_name(par.test)
                if nt and ((cur is par.body and nt[1]) or (cur is par.orelse and not nt[1])):
                    found.add(nt[0])
            elif isinstance(par, ast.If):
                nt = _guarded_name(par.test)
                if nt and ((cur in par.body and nt[1]) or (cur in par.orelse and not nt[1])):
                    found.add(nt[0])
            elif isinstance(par, ast.BoolOp):
                i = par.values.index(cur)
                for prev in par.values[:i]:
                    nt = _guarded_name(prev)
                    if nt and ((isinstance(par.op, ast.And) and nt[1]) or (isinstance(par.op, ast.Or) and not nt[1])):
                        found.add(nt[0])
            cur = par
        return found

    for n in ast.walk(func.node):
        if not (isinstance(n, ast.Name) and n.id in optional and isinstance(n.ctx, ast.Load)):
            continue
        par = parents.get(n)
        consuming = False
        if isinstance(par, ast.Call) and n in par.args:
            consuming = True
        elif isinstance(par, ast.AugAssign) and par.value is n:
            consuming = True
        elif isinstance(par, (ast.For, ast.comprehension)) and par.iter is n:
            consuming = True
        elif isinstance(par, ast.BoolOp) and isinstance(par.op, ast.Or) and par.values[0] is n:
            continue  # ``x or ()``
        if not consuming:
            continue
        t = tested(n, n.id)
        if n.id in t:
            R.ok('NULLNESS', func, n, f'{n.id} consumed under its own test', found=src(par)[:60])
        elif t & set(optional):
            R.bad('NULLNESS', func, n, f'{n.id} consumed under its own test', f'a test of {n.id}',
                  f'{src(par)[:70]} is guarded by a test of {sorted(t & set(optional))} instead: None reaches the consumer')
        else:
            R.bad('NULLNESS', func, n, f'{n.id} consumed under its own test', f'a test of {n.id} (default None)',
                  f'{src(par)[:70]} unguarded')


def _guarded_name(test):
    """(name, holds_when_true) for ``x``, ``not x``, ``x is not None``, ``x is None``."""
    inner, neg = strip_not(test)
    if isinstance(inner, ast.Name):
        return inner.id, not neg
    nt = is_none_test(test)
    if nt:
        return nt[0], not nt[1]
    return None


def conflicting(model, R):
    func = model.func('definitions.conflicting_pairs')
    left, right = func.params[:2]
    env = Env(func)
    C = Ctx(R, func)
    found = {}
    for n in walk(func.body):
        if isinstance(n, ast.BinOp) and isinstance(n.op, (ast.BitAnd, ast.BitXor, ast.BitOr, ast.Sub)):
            l, r = chain(n.left), chain(n.right)
            if l and r and len(l) == 2 and len(r) == 2 and l[1] in FIELDS and r[1] in FIELDS:
                found.setdefault(l[1] if l[1] == r[1] else f'{l[1]}/{r[1]}', []).append(n)
    want = {'_objects': ast.BitAnd, '_properties': ast.BitAnd, '_pairs': ast.BitXor}
    for fld, op in want.items():
        ns = found.get(fld, [])
        if len(ns) != 1:
            mixed = [k for k in found if '/' in k and fld in k]
            if mixed:
                R.bad('CONFLICTS', func, found[mixed[0]][0], f'{fld} of both operands combined', f'{left}.{fld} op {right}.{fld}',
                      src(found[mixed[0]][0]))
            else:
                R.unknown('CONFLICTS', func, func.node, f'{fld} of both operands combined', f'{len(ns)} candidate expressions')
            continue
        n = ns[0]
        roots = {chain(n.left)[0], chain(n.right)[0]}
        R.check(roots == {left, right}, 'CONFLICTS', func, n, f'{fld}: two distinct operands', f'{left}.{fld} and {right}.{fld}', src(n))
        R.check(isinstance(n.op, op), 'CONFLICTS', func, n, f'{fld}: operator', '&' if op is ast.BitAnd else '^', src(n))
    # yields (o, p) iff in the symmetric difference, over shared objects x shared properties
    ys = [n for n in walk(func.body) if isinstance(n, ast.Yield)]
    local_cells = {s_.targets[0].id: s_.value for s_ in stmts(func.body) if isinstance(s_, ast.Assign) and isinstance(s_.targets[0], ast.Name)
                   and isinstance(s_.value, ast.Tuple) and len(s_.value.elts) == 2}

    def as_cell(n):
        if isinstance(n, ast.Name) and n.id in local_cells:
            return local_cells[n.id]
        return n
    if len(ys) != 1 or not isinstance(as_cell(ys[0].value), ast.Tuple):
        R.unknown('CONFLICTS', func, func.node, 'yield of the conflicting cell', 'not a single yield of a tuple')
    else:
        cell = as_cell(ys[0].value)
        ctx = None
        from .c13 import _enclosing_ctx
        ctx = _enclosing_ctx(func, ys[0])
        its = {}
        for target, it in ctx.loops:
            if isinstance(target, ast.Name):
                e = env.expand(it)
                if isinstance(e, ast.BinOp) and chain(e.left):
                    its[target.id] = chain(e.left)[1]
        e0, e1 = (src(x) for x in cell.elts)
        R.check(its.get(e0) == '_objects' and its.get(e1) == '_properties', 'CONFLICTS', func, ys[0],
                'yielded cell ranges over shared objects x shared properties', '(o in shared objects, p in shared properties)',
                f'({e0} over {its.get(e0)}, {e1} over {its.get(e1)})')
        guard_ok = False
        for s in stmts(func.body):
            if isinstance(s, ast.If) and any(n is ys[0] for n in walk(s.body)):
                t, neg = strip_not(s.test)
                if isinstance(t, ast.Compare) and len(t.ops) == 1 and isinstance(t.ops[0], ast.In) and not neg:
                    rhs = env.expand(t.comparators[0])
                    guard_ok = (src(as_cell(t.left)) == src(cell) and isinstance(rhs, ast.BinOp) and isinstance(rhs.op, ast.BitXor))
        R.check(guard_ok, 'CONFLICTS', func, ys[0], 'yield guarded by membership in the symmetric difference',
                'if (o, p) in (left._pairs ^ right._pairs)')
    func = model.func('definitions.ensure_compatible')
    calls = [n for n in walk(func.body) if isinstance(n, ast.Call) and name_is(n.func, 'conflicting_pairs')]
    raises = [s for s in stmts(func.body) if isinstance(s, ast.Raise)]
    ok = (len(calls) == 1 and {src(a) for a in calls[0].args} == set(func.params[:2]) and len(raises) == 1
          and raises[0].exc is not None and 'ValueError' in src(raises[0].exc))
    R.check(ok, 'CONFLICTS', func, func.node, 'ensure_compatible raises ValueError on any conflicting cell',
            'conflicts = list(conflicting_pairs(left, right)); if conflicts: raise ValueError')
    if ok:
        from ..astutil import context_of
        env = Env(func)
        ctx = context_of(func.body, raises[0]) or []
        conds = [c for c in ctx if c[0] in ('if', 'guard')]
        verdict = None
        if len(conds) == 1 and len(ctx) == 1:
            t, neg = strip_not(conds[0][1])
            e = env.expand(t)
            if any(src(n) == src(calls[0]) for n in ast.walk(e)) and (isinstance(e, ast.Call) or isinstance(t, ast.Name)):
                verdict = (conds[0][2] != neg)      # raise reached when the conflict list is truthy
        if verdict is None:
            R.unknown('CONFLICTS', func, raises[0], 'raise iff the conflict list is non-empty', ' / '.join(src(c[1]) for c in conds) or 'unconditional raise')
        else:
            R.decided(verdict, 'CONFLICTS', func, raises[0], 'raise iff the conflict list is non-empty', 'if conflicts: raise',
                      'raises when the list is empty' if not verdict else '')


def eq_complete(R, func, fields, roots, slot, allow_fallback=False):
    """The Triple/Context branch of __eq__ returns the conjunction of self.f == other.f for all fields."""
    self_, other = roots
    cands = []
    for n in walk(func.body):
        if isinstance(n, ast.Return) and n.value is not None:
            v = n.value
            if isinstance(v, ast.BoolOp) or (isinstance(v, ast.Compare) and isinstance(v.ops[0], ast.Eq)
                                             and chain(v.left) and chain(v.left)[-1] in fields):
                cands.append(n)
    if len(cands) != 1:
        R.unknown('EQ-COMPLETE', func, func.node, slot, f'{len(cands)} candidate return expressions')
        return
    v = cands[0].value
    if isinstance(v, ast.BoolOp) and isinstance(v.op, ast.Or):
        R.bad('EQ-COMPLETE', func, v, slot, 'conjunction (and) of the field comparisons', 'disjunction: ' + src(v)[:100])
        return
    parts = v.values if isinstance(v, ast.BoolOp) else [v]
    seen = {}
    for part in parts:
        if isinstance(part, ast.BoolOp) and isinstance(part.op, ast.Or):
            R.bad('EQ-COMPLETE', func, part, slot, 'conjunction (and) of the field comparisons', 'nested disjunction: ' + src(part)[:100])
            return
        if not (isinstance(part, ast.Compare) and len(part.ops) == 1 and isinstance(part.ops[0], ast.Eq)):
            R.unknown('EQ-COMPLETE', func, part, slot, f'not a == comparison: {src(part)[:60]}')
            return
        l, r = chain(part.left), chain(part.comparators[0])
        if not (l and r and len(l) == 2 and len(r) == 2):
            R.unknown('EQ-COMPLETE', func, part, slot, f'not attribute == attribute: {src(part)[:60]}')
            return
        if l[1] != r[1]:
            R.bad('EQ-COMPLETE', func, part, slot, 'the same field on both sides', src(part))
            return
        if {l[0], r[0]} != {self_, other}:
            R.bad('EQ-COMPLETE', func, part, slot, f'{self_}.{l[1]} == {other}.{l[1]}', src(part) + ' compares an operand with itself')
            return
        seen[l[1]] = part
    # the rows as bit vectors determine the Boolean table once the axis they are numbered by has been compared equal
    if 'bools' in fields and 'bools' not in seen:
        if '_intents' in seen and 'properties' in seen and 'objects' in seen:
            seen['bools'] = seen['_intents']
        elif '_extents' in seen and 'objects' in seen and 'properties' in seen:
            seen['bools'] = seen['_extents']
    missing = [f for f in fields if f not in seen]
    R.decided(not missing, 'EQ-COMPLETE', func, v, slot, 'all of ' + ', '.join(fields) + ' compared', 'compares ' + ', '.join(seen) + (f'; missing {missing}' if missing else ''))


def ne_is_negation(R, func, slot):
    self_, other = func.params[:2]
    rets = [n for n in walk(func.body) if isinstance(n, ast.Return) and n.value is not None
            and not (isinstance(n.value, ast.Name) and n.value.id == 'NotImplemented')]
    if len(rets) != 1:
        R.unknown('EQ-COMPLETE', func, func.node, slot, f'{len(rets)} value returns')
        return
    v = rets[0].value
    inner, neg = strip_not(v)
    ok = False
    degenerate = False
    if neg and isinstance(inner, ast.Compare) and len(inner.ops) == 1 and isinstance(inner.ops[0], ast.Eq):
        names = {src(inner.left), src(inner.comparators[0])}
        ok = names == {self_, other}
        degenerate = len(names) == 1
    elif neg and isinstance(inner, ast.Call) and isinstance(inner.func, ast.Attribute) and inner.func.attr == '__eq__':
        names = {src(inner.func.value), src(inner.args[0])} if inner.args else set()
        ok = names == {self_, other}
        degenerate = len(names) == 1
    elif not neg and isinstance(inner, ast.Compare) and len(inner.ops) == 1 and isinstance(inner.ops[0], ast.NotEq):
        R.unknown('EQ-COMPLETE', func, v, slot, 'recursive != inside __ne__')
        return
    if ok:
        R.ok('EQ-COMPLETE', func, v, slot, found=src(v))
    elif degenerate:
        R.bad('EQ-COMPLETE', func, v, slot, f'not {self_} == {other}', src(v) + ' compares an operand with itself')
    else:
        R.unknown('EQ-COMPLETE', func, v, slot, f'not the negation idiom: {src(v)[:60]}')


def equality(model, R):
    R.floor('EQ-COMPLETE', 4)
    func = model.func('contexts.ComparableMixin.__eq__')
    eq_complete(R, func, ['objects', 'properties', 'bools'], func.params[:2], 'Context.__eq__ compares the whole triple')
    func = model.func('contexts.ComparableMixin.__ne__')
    ne_is_negation(R, func, 'Context.__ne__ is the negation of ==')
    func = model.func('definitions.Triple.__eq__')
    eq_complete(R, func, ['_objects', '_properties', '_pairs'], func.params[:2], 'Triple.__eq__ compares all three fields')
    # fallback branch: the public triple against a plain tuple
    fb = [n for n in walk(func.body) if isinstance(n, ast.Return) and isinstance(n.value, ast.Compare)
          and isinstance(n.value.left, ast.Tuple)]
    if fb:
        t = fb[0].value
        got = [chain(e) for e in t.left.elts]
        ok = (got == [[func.params[0], 'objects'], [func.params[0], 'properties'], [func.params[0], 'bools']]
              and isinstance(t.ops[0], ast.Eq) and name_is(t.comparators[0], func.params[1]))
        R.check(ok, 'EQ-COMPLETE', func, t, 'Triple.__eq__ fallback compares (objects, properties, bools) with the other value',
                '(self.objects, self.properties, self.bools) == other', src(t))
    func = model.func('definitions.Triple.__ne__')
    ne_is_negation(R, func, 'Triple.__ne__ is the negation of ==')


def agreement(model, R):
    R.floor('AGREEMENT', 8)
    init = model.func('contexts.Data.__init__')
    order = init.params[1:4]
    it = model.func('definitions.Triple.__iter__')
    ys = sorted((n for n in walk(it.body) if isinstance(n, ast.Yield)), key=lambda n: n.lineno)
    got = [chain(y.value)[-1] if y.value is not None and chain(y.value) else src(y.value) for y in ys]
    R.check(got == order and all(chain(y.value) and chain(y.value)[0] == it.params[0] for y in ys), 'AGREEMENT', it, it.node,
            'Definition.__iter__ yields in the parameter order of Context.__init__', str(order), str(got))
    # Context.definition() and Context.copy()
    f = model.func('contexts.Context.definition')
    rets = [n for n in walk(f.body) if isinstance(n, ast.Return)]
    ok = False
    if len(rets) == 1 and isinstance(rets[0].value, ast.Call):
        c = rets[0].value
        ok = (chain(c.func) or [''])[-1] == 'Definition' and [chain(a) for a in c.args] == [['self', p] for p in order]
    R.check(ok, 'AGREEMENT', f, f.node, 'Context.definition() passes its own triple', 'Definition(self.objects, self.properties, self.bools)',
            src(rets[0].value) if rets else '')
    di = model.func('definitions.Triple.__init__')
    R.check(di.params[1:4] == order, 'AGREEMENT', di, di.node, 'Definition.__init__ parameter order', str(order), str(di.params[1:4]))
    # Definition.__init__ builds its own containers
    stores = {}
    for s in stmts(di.body):
        if isinstance(s, ast.Assign) and len(s.targets) == 1 and chain(s.targets[0]) and chain(s.targets[0])[0] == 'self':
            stores[chain(s.targets[0])[1]] = s.value
    for fld, p in (('_objects', order[0]), ('_properties', order[1])):
        v = stores.get(fld)
        ok = (isinstance(v, ast.Call) and (chain(v.func) or [''])[-1] == 'Unique' and len(v.args) == 1 and name_is(v.args[0], p))
        R.check(ok, 'FRESH', di, v or di.node, f'Definition.__init__ builds its own {fld} from {p}', f'tools.Unique({p})', src(v))
    v = stores.get('_pairs')
    ok = False
    if isinstance(v, ast.SetComp) and len(v.generators) == 2:
        g0, g1 = v.generators
        ok = (isinstance(g0.iter, ast.Call) and name_is(g0.iter.func, 'zip') and [src(a) for a in g0.iter.args] == [order[0], order[2]]
              and isinstance(g0.target, ast.Tuple) and len(g0.target.elts) == 2
              and isinstance(g1.iter, ast.Call) and name_is(g1.iter.func, 'zip')
              and [src(a) for a in g1.iter.args] == [order[1], src(g0.target.elts[1])]
              and isinstance(g1.target, ast.Tuple) and len(g1.target.elts) == 2
              and isinstance(v.elt, ast.Tuple) and [src(e) for e in v.elt.elts] == [src(g0.target.elts[0]), src(g1.target.elts[0])]
              and len(g1.ifs) == 1 and src(g1.ifs[0]) == src(g1.target.elts[1]) and not g0.ifs)
    R.check(ok, 'DERIVED', di, v or di.node, 'Definition.__init__ cells = true cells of the table by truthiness',
            '{(o, p) for o, row in zip(objects, bools) for p, b in zip(properties, row) if b}', src(v))
    # public views of Definition
    cls = model.cls('definitions.Definition')
    for name, fld in (('objects', '_objects'), ('properties', '_properties')):
        f = cls.methods.get(name)
        rets = [n for n in walk(f.body) if isinstance(n, ast.Return)] if f else []
        ok = (len(rets) == 1 and isinstance(rets[0].value, ast.Call) and name_is(rets[0].value.func, 'tuple')
              and chain(rets[0].value.args[0]) == ['self', fld])
        R.check(ok, 'AGREEMENT', f or f'definitions.Definition.{name}', f.node if f else cls.node, f'Definition.{name} is the ordered {fld}',
                f'tuple(self.{fld})', src(rets[0].value) if rets else '')
    f = cls.methods.get('bools')
    if f is None:
        R.unknown('AGREEMENT', 'definitions.Definition.bools', cls.node, 'bools', 'missing')
    else:
        C = Ctx(R, f)
        rets = [n for n in walk(f.body) if isinstance(n, ast.Return)]
        v = rets[0].value if len(rets) == 1 else None
        ok = False
        if isinstance(v, ast.ListComp) and len(v.generators) == 1 and not v.generators[0].ifs:
            outer = v.generators[0]
            row = v.elt
            if isinstance(row, ast.Call) and name_is(row.func, 'tuple') and len(row.args) == 1:
                row = row.args[0]
            if isinstance(row, (ast.GeneratorExp, ast.ListComp)) and len(row.generators) == 1 and not row.generators[0].ifs:
                inner = row.generators[0]
                fo, fi = C.field_of(outer.iter), C.field_of(inner.iter)
                cell = row.elt
                ok = (bool(fo) and fo[1] == '_objects' and bool(fi) and fi[1] == '_properties'
                      and isinstance(cell, ast.Compare) and isinstance(cell.ops[0], ast.In)
                      and isinstance(cell.left, ast.Tuple) and [src(e) for e in cell.left.elts] == [src(outer.target), src(inner.target)]
                      and bool(C.field_of(cell.comparators[0])) and C.field_of(cell.comparators[0])[1] == '_pairs')
        R.check(ok, 'AGREEMENT', f, f.node, 'Definition.bools: one row per object, one cell per property',
                '[tuple((o, p) in pairs for p in self._properties) for o in self._objects]', src(v))
    # crc32 / tostring / shape agree between the classes
    pairs = [('crc32', 'contexts.FormattingMixin.crc32', 'definitions.FormattingMixin.crc32'),
             ('shape', 'contexts.Context.shape', 'definitions.Definition.shape')]
    for name, a, b in pairs:
        fa, fb = model.func(a), model.func(b)
        ra = [src(n.value) for n in walk(fa.body) if isinstance(n, ast.Return)]
        rb = [src(n.value) for n in walk(fb.body) if isinstance(n, ast.Return)]
        if len(ra) == 1 and len(rb) == 1:
            if name == 'shape':
                # Definition.objects / .properties are tuple copies of the ordered name sets: either spelling has the same length
                node = [n.value for n in walk(fb.body) if isinstance(n, ast.Return)][0]
                canon = rb[0].replace('self._objects', 'self.objects').replace('self._properties', 'self.properties')
                R.expr(canon, ra[0], 'AGREEMENT', fb, f'{name} computed the same way by Context and Definition', at=node)
                continue
            R.returns(fb, ra[0], 'AGREEMENT', f'{name} computed the same way by Context and Definition', expand=False)
        else:
            R.unknown('AGREEMENT', fb, fb.node, f'{name} computed the same way by Context and Definition', f'{len(ra)}/{len(rb)} returns')
    for key, want in (('contexts.FormattingMixin.crc32', 'tools.crc32_hex(self.tostring().encode(encoding))'),
                      ('contexts.Context.shape', '_common.Shape._from_pair(self.objects, self.properties)')):
        f = model.func(key)
        R.returns(f, want, 'AGREEMENT', f'{key.split(".")[-1]} definition', expand=False)
    # tostring: both end in Format[frmat].dumps(objects, properties, bools, ...)
    fa = model.func('contexts.FormattingMixin.tostring')
    fb = model.func('definitions.FormattingMixin.tostring')
    for f, args_ok in ((fa, lambda c: [chain(a) for a in c.args] == [['self', p] for p in order]),
                       (fb, lambda c: len(c.args) == 1 and isinstance(c.args[0], ast.Starred) and name_is(c.args[0].value, 'self'))):
        env = Env(f)
        calls = [n for n in walk(f.body) if isinstance(n, ast.Call) and isinstance(n.func, ast.Attribute) and n.func.attr == 'dumps']
        ok = False
        if len(calls) == 1:
            recv = env.expand(calls[0].func.value)
            if isinstance(recv, ast.Name):
                recv = reaching_value(f, recv.id, calls[0].lineno) or recv
            ok = (isinstance(recv, ast.Subscript) and (chain(recv.value) or [''])[-1] == 'Format'
                  and name_is(recv.slice, f.params[1]) and args_ok(calls[0]))
        R.check(ok, 'AGREEMENT', f, calls[0] if calls else f.node, 'tostring dumps the triple through Format[frmat]',
                'formats.Format[frmat].dumps(objects, properties, bools, **kwargs)', src(calls[0]) if calls else '')
        d = f.defaults().get(f.params[1])
        R.check(const(d) == 'table', 'API-DEFAULT', f, d or f.node, 'tostring default format', "'table'", src(d))
    # nothing derived from the editable state of a definition is memoised
    memo = ('lazyproperty', 'cached_property', 'lru_cache', 'cache')
    dmod = model.modules['definitions']
    n_seen = 0
    for c in dmod.classes.values():
        for m in c.methods.values():
            n_seen += 1
            deco = [(chain(d.func if isinstance(d, ast.Call) else d) or [''])[-1] for d in m.node.decorator_list]
            hit = [d for d in deco if d in memo]
            if not hit or not m.params:
                continue
            me = m.params[0]
            reads = sorted({n.attr for n in ast.walk(m.node) if isinstance(n, ast.Attribute) and isinstance(n.value, ast.Name) and n.value.id == me})
            R.decided(not reads, 'AGREEMENT', m, m.node, f'{c.name}.{m.name}: a value derived from the editable state is recomputed on every access',
                      'a plain property / method', f'@{hit[0]} on a method reading self.{", self.".join(reads)}',
                      extra={'consequence': 'a Definition is edited in place; the memoised value keeps describing the state at its first access '
                                            '(shape, fill_ratio ... disagree with Context(*definition) after add/remove/set)'})
    R.ok('AGREEMENT', 'definitions', 'concepts/definitions.py', f'{n_seen} methods of the definition classes scanned for memoisation')
    # fill_ratio
    f = model.func('definitions.Definition.fill_ratio')
    R.returns(f, 'fractions.Fraction(len(self._pairs), self.shape.size)', 'AGREEMENT', 'Definition.fill_ratio = true cells / size')
    f = model.func('contexts.Context.fill_ratio')
    env = Env(f)
    rets = [n for n in walk(f.body) if isinstance(n, ast.Return)]
    v = env.expand(rets[0].value) if len(rets) == 1 else None
    ok = False
    if isinstance(v, ast.Call) and (chain(v.func) or [''])[-1] == 'Fraction' and len(v.args) == 2:
        num, den = v.args
        ok = (src(den) == 'self.shape.size' and isinstance(num, ast.Call) and name_is(num.func, 'sum')
              and isinstance(num.args[0], ast.GeneratorExp) and src(num.args[0].elt).endswith('.count()')
              and chain(num.args[0].generators[0].iter) in (['self', '_intents'], ['self', '_extents']))
    R.check(ok, 'AGREEMENT', f, f.node, 'Context.fill_ratio = true cells / size', 'Fraction(sum(v.count() for v in self._intents), self.shape.size)',
            src(v))


def run(model, R):
    R.guard('FRESH', None, 'freshness', freshness, model, R)
    R.guard('FRESH', None, 'union/intersection', union_intersection, model, R)
    R.guard('DERIVED', None, 'derived tables', derived_tables, model, R)
    R.guard('CONFLICTS', None, 'conflicting_pairs', conflicting, model, R)
    R.guard('EQ-COMPLETE', None, 'equality', equality, model, R)
    R.guard('AGREEMENT', None, 'agreement', agreement, model, R)
    from .common import flag_clobber
    flag_clobber(R, model.func('definitions.TransformableMixin.take'), ['reorder'])
    for nm in ('union', 'intersection'):
        flag_clobber(R, model.func(f'definitions.MutableMixin.{nm}'), ['ignore_conflicts'])
    return __doc__.strip()
