"""C13: state invariants and effects of every Definition editing method and of tools.Unique.
Decides, from the shape of each mutator: cells-within-axes (a cell added to the cell set has its
object/property name added to, or iterated from, the matching axis; component sorts match),
axis removal => purge of the name's cells, rename = remove every (old, .) and add (new, .) for
the same ., remove_empty_* removes exactly the names absent from the matching projection,
raise-on-unknown (raising removal, validation before the first mutation), new names appended in
the order given, in-place union/intersection touch all three fields against the same field of the
other operand, API defaults, and the Unique invariant _seen == set(_items) (every method has the
same net effect on both).  Does not decide equality with the ordered-table model over all
histories (return values, move index semantics): runtime values.
"""

import ast

from .. import guards
from ..astutil import Env, chain, src, walk, strip_not, const, stmts, targets_of
from ..effects import Effects
from ..model import Unrecognised

FIELDS = ('_objects', '_properties', '_pairs')
AXIS = {'_objects': 'ON', '_properties': 'PN'}
OTHER_AXIS = {'_objects': '_properties', '_properties': '_objects'}
AXIS_MUT = {'add', 'discard', 'remove', 'replace', 'move', 'ior', 'iand', 'isub', 'ixor', 'assign', 'clear', 'pop',
            'update', 'difference_update', 'intersection_update', 'setitem', 'delitem', 'insert', 'append', 'extend'}
PAIR_MUT = {'add', 'discard', 'remove', 'update', 'difference_update', 'intersection_update',
            'symmetric_difference_update', 'ior', 'iand', 'isub', 'ixor', 'assign', 'clear', 'pop'}
PAIR_ADD = {'add', 'update', 'ior'}
PAIR_DEL = {'discard', 'remove', 'difference_update', 'isub'}
ORDER_KEEPING = {'list', 'tuple', 'Unique', 'tools.Unique', 'iter'}
ORDER_LOSING = {'set', 'frozenset', 'sorted', 'reversed'}

MIXIN = 'definitions.MutableMixin'


def mut(e):
    return e.op in (PAIR_MUT if e.field == '_pairs' else AXIS_MUT)


class Ctx:
    """Per-method analysis context: effects, alias env, name sorts."""

    def __init__(self, R, func, axis=None):
        self.R = R
        self.func = func
        self.eff = Effects(func, FIELDS)
        self.env = self.eff.env
        self.axis = axis                   # '_objects' for *_object methods, '_properties' for *_property
        self.params = func.params
        self.sorts = {}                    # explicit name sorts (parameters, unpacked cells)
        self.elem_sorts = {}               # names of sequences -> element sort

    def X(self, node):
        return self.env.expand(node)

    def absent(self, rule, node, slot, expected, found, extra=None):
        """Report a *missing* effect: a VIOLATION only in a closed world - when no tracked container (nor the object
        itself) is handed to a callable whose body the extractor does not see, and no unclassified helper is called."""
        esc = self.eff.escapes()
        helper_calls = [n for n in walk(self.func.body) if isinstance(n, ast.Call) and isinstance(n.func, ast.Name)
                        and n.func.id.startswith('_') and n.func.id in self.func.module.funcs]
        helper_calls += [n for n in walk(self.func.body) if isinstance(n, ast.Call) and isinstance(n.func, ast.Attribute)
                         and isinstance(n.func.value, ast.Name) and n.func.value.id == (self.params[0] if self.params else 'self')
                         and n.func.attr.startswith('_') and not n.func.attr.startswith('__')]
        if esc or helper_calls:
            n = (esc or helper_calls)[0]
            return self.R.unknown(rule, self.func, n, slot, f'effect may happen inside {src(n)[:60]} (not followed)')
        return self.R.bad(rule, self.func, node, slot, expected, found, extra)

    def is_param(self, node, index):
        node = self.X(node)
        return isinstance(node, ast.Name) and len(self.params) > index and node.id == self.params[index]

    def field_of(self, node):
        c = chain(self.X(node))
        if c and len(c) == 2 and c[1] in FIELDS:
            return c[0], c[1]
        return None

    def binding(self, name, e):
        """Iterable expression a name ranges over in the loops/generators enclosing effect e (or None)."""
        for comp in reversed(e.gens):
            if any(isinstance(n, ast.Name) and n.id == name for n in ast.walk(comp.target)):
                return comp.target, comp.iter
        for target, it in reversed(e.loops):
            if target is not None and any(isinstance(n, ast.Name) and n.id == name for n in ast.walk(target)):
                return target, it
        return None

    def sort_of_iter(self, it):
        """Element sort of an iterable expression: an axis field, a sequence parameter of declared sort."""
        it = self.X(it)
        f = self.field_of(it)
        if f and f[1] in AXIS:
            return AXIS[f[1]]
        if isinstance(it, ast.Name) and it.id in self.elem_sorts:
            return self.elem_sorts[it.id]
        if isinstance(it, ast.Call) and it.args and isinstance(it.func, (ast.Name, ast.Attribute)):
            name = '.'.join(chain(it.func) or [])
            if name in ORDER_KEEPING | ORDER_LOSING:
                return self.sort_of_iter(it.args[0])
        return None

    def sort_of(self, node, e=None):
        node0 = node
        if isinstance(node, ast.Name):
            if node.id in self.sorts:
                return self.sorts[node.id]
            if e is not None:
                b = self.binding(node.id, e)
                if b:
                    target, it = b
                    if isinstance(target, ast.Name):
                        return self.sort_of_iter(it)
                    # tuple target over the cell set: (o, p) in pairs
                    f = self.field_of(it)
                    if f and f[1] == '_pairs' and isinstance(target, ast.Tuple) and len(target.elts) == 2:
                        for i, t in enumerate(target.elts):
                            if isinstance(t, ast.Name) and t.id == node.id:
                                return ('ON', 'PN')[i]
                    return None
            d = self.env.single(node.id)
            if d is not None:
                return self.sort_of(d, e)
        return None

    def cell(self, node, e=None):
        """(first, second) component expressions of a cell expression, or None."""
        node = self.X(node) if not isinstance(node, ast.Tuple) else node
        if isinstance(node, ast.Tuple) and len(node.elts) == 2:
            return node.elts[0], node.elts[1]
        if isinstance(node, ast.Name):
            # a temporary bound exactly once to a pair (possibly inside the loop that uses it, ``pair = (o, p)``), none
            # of whose components is rebound between the binding and this use
            defs = [s for s in stmts(self.func.body) if isinstance(s, ast.Assign) and len(s.targets) == 1 and name_is(s.targets[0], node.id)]
            others = [s for s in stmts(self.func.body) if not isinstance(s, ast.Assign) and node.id in targets_of(s)]
            if len(defs) == 1 and not others and isinstance(defs[0].value, ast.Tuple) and len(defs[0].value.elts) == 2:
                lo, hi = defs[0].lineno, getattr(node, 'lineno', defs[0].lineno)
                comps = {n.id for n in ast.walk(defs[0].value) if isinstance(n, ast.Name)}
                clobbered = any(lo < getattr(s, 'lineno', 0) < hi and (set(targets_of(s)) & comps) for s in stmts(self.func.body))
                if lo <= hi and not clobbered:
                    return defs[0].value.elts[0], defs[0].value.elts[1]
        if isinstance(node, ast.Name) and self.sorts.get(node.id) == 'Cell':
            comps = self.cell_components.get(node.id)
            if comps:
                return tuple(ast.Name(id=c, ctx=ast.Load()) for c in comps)
        return None

    cell_components = {}


def same_expr(a, b):
    return src(a) == src(b)


def name_is(node, name):
    return isinstance(node, ast.Name) and node.id == name


# =====================================================================================


def check_cell_sorts(C, rule='CELL-SORT'):
    """Every 2-tuple used as a cell (added/removed/tested) must be (ON, PN) where the sorts are known."""
    R, func = C.R, C.func
    seen = set()
    for e in C.eff.on('_pairs'):
        cells = []
        if e.op in ('add', 'discard', 'remove') and e.args:
            cells.append(e.args[0])
        elif e.op in ('update', 'difference_update', 'ior', 'isub', 'iand') and e.args:
            a = e.args[0]
            if isinstance(a, (ast.GeneratorExp, ast.SetComp, ast.ListComp)):
                fake = type('E', (), {})()
                fake.gens = list(a.generators)
                fake.loops = e.loops
                cells.append((a.elt, fake))
        for c in cells:
            ctx = e
            if isinstance(c, tuple):
                c, ctx = c
            comps = C.cell(c, ctx)
            if not comps:
                continue
            s0, s1 = C.sort_of(comps[0], ctx), C.sort_of(comps[1], ctx)
            key = (src(c), e.order)
            if key in seen:
                continue
            seen.add(key)
            ok = s0 in (None, 'ON') and s1 in (None, 'PN')
            if s0 is None and s1 is None:
                continue
            R.check(ok, rule, func, e.node, f'cell {src(c)} in {e.op}', '(object name, property name)',
                    f'({s0 or "?"}, {s1 or "?"})')
    # membership tests ``(x, y) in pairs`` inside filters and conditions
    for n in walk(func.body):
        if isinstance(n, ast.Compare) and len(n.ops) == 1 and isinstance(n.ops[0], (ast.In, ast.NotIn)):
            f = C.field_of(n.comparators[0])
            if f and f[1] == '_pairs' and isinstance(n.left, ast.Tuple) and len(n.left.elts) == 2:
                ctx = _enclosing_ctx(func, n)
                s0, s1 = C.sort_of(n.left.elts[0], ctx), C.sort_of(n.left.elts[1], ctx)
                if s0 is None and s1 is None:
                    continue
                ok = s0 in (None, 'ON') and s1 in (None, 'PN')
                R.check(ok, rule, func, n, f'membership test {src(n.left)}', '(object name, property name)',
                        f'({s0 or "?"}, {s1 or "?"})')


def _enclosing_ctx(func, node):
    """Loops and comprehension generators enclosing ``node`` (for name bindings)."""
    ctx = type('E', (), {})()
    ctx.gens, ctx.loops = [], []

    def visit(n, gens, loops):
        if n is node:
            ctx.gens, ctx.loops = list(gens), list(loops)
            return True
        if isinstance(n, (ast.GeneratorExp, ast.SetComp, ast.ListComp, ast.DictComp)):
            g = list(gens)
            for comp in n.generators:
                if visit(comp.iter, g, loops):
                    return True
                g = g + [comp]
                for c in comp.ifs:
                    if visit(c, g, loops):
                        return True
            for fld in ('elt', 'key', 'value'):
                sub = getattr(n, fld, None)
                if sub is not None and visit(sub, g, loops):
                    return True
            return False
        if isinstance(n, (ast.For, ast.AsyncFor)):
            if visit(n.iter, gens, loops):
                return True
            for s in n.body + n.orelse:
                if visit(s, gens, loops + [(n.target, n.iter)]):
                    return True
            return False
        if isinstance(n, (ast.FunctionDef, ast.AsyncFunctionDef, ast.ClassDef)) and n is not func.node:
            return False
        for child in ast.iter_child_nodes(n):
            if visit(child, gens, loops):
                return True
        return False

    visit(func.node, [], [])
    return ctx


# ------------------------------------------------------------------ per-method templates


def order_kept(C, arg, param_index):
    """Is ``arg`` the parameter itself or an order-preserving wrapper of it?  Returns True/False/None(unknown)."""
    a = C.X(arg)
    if C.is_param(a, param_index):
        return True
    if isinstance(a, ast.Call) and len(a.args) == 1 and not a.keywords:
        name = '.'.join(chain(a.func) or [])
        if name in ORDER_KEEPING:
            return order_kept(C, a.args[0], param_index)
        if name in ORDER_LOSING:
            inner = order_kept(C, a.args[0], param_index)
            return False if inner is not None else None
    return None


def derived_from_param(C, node, param_index):
    """Does the (expanded) expression denote a collection with exactly the members of the parameter?"""
    a = C.X(node)
    if C.is_param(a, param_index):
        return True
    if isinstance(a, ast.Call) and len(a.args) == 1 and not a.keywords:
        name = '.'.join(chain(a.func) or [])
        if name in ORDER_KEEPING | ORDER_LOSING:
            return derived_from_param(C, a.args[0], param_index)
    return False


def t_setitem(C):
    R, func = C.R, C.func
    if len(C.params) != 3:
        raise Unrecognised('__setitem__ signature', func=func, node=func.node)
    pair, value = C.params[1], C.params[2]
    comps = None
    for s in stmts(func.body):
        if (isinstance(s, ast.Assign) and isinstance(s.targets[0], ast.Tuple) and len(s.targets[0].elts) == 2
                and name_is(s.value, pair) and all(isinstance(t, ast.Name) for t in s.targets[0].elts)):
            comps = [t.id for t in s.targets[0].elts]
    if comps is None:
        raise Unrecognised('cell parameter is not unpacked into (object, property)', func=func, node=func.node)
    C.sorts[comps[0]], C.sorts[comps[1]] = 'ON', 'PN'
    C.sorts[pair] = 'Cell'
    C.cell_components = {pair: comps}

    def is_comp(node, i):
        node = C.X(node)
        if name_is(node, comps[i]):
            return True
        return (isinstance(node, ast.Subscript) and name_is(node.value, pair) and const(node.slice) == i)

    for i, fld in enumerate(('_objects', '_properties')):
        adds = [e for e in C.eff.on(fld, {'add'}) if not e.conds and not e.loops]
        good = [e for e in adds if e.args and is_comp(e.args[0], i)]
        wrong = [e for e in adds if e.args and is_comp(e.args[0], 1 - i)]
        if good:
            R.ok('CELLS-WITHIN-AXES', func, good[0].node, f'{fld}.add(component {i})')
        elif wrong:
            R.bad('CELLS-WITHIN-AXES', func, wrong[0].node, f'{fld}.add(component {i})',
                  f'component {i} of the cell added to {fld}', src(wrong[0].node))
        else:
            C.absent('CELLS-WITHIN-AXES', func.node, f'{fld}.add(component {i})',
                     f'unconditional self.{fld}.add(<component {i} of the cell>)', 'no such statement')

    def is_pair(node):
        node2 = C.X(node)
        if name_is(node2, pair):
            return True
        return (isinstance(node2, ast.Tuple) and len(node2.elts) == 2
                and is_comp(node2.elts[0], 0) and is_comp(node2.elts[1], 1))

    def polarity(e):
        pol = None
        for test, p in e.allconds:
            inner, neg = strip_not(test)
            if name_is(inner, value):
                pol = p != neg
            elif isinstance(inner, ast.Call) and name_is(inner.func, 'bool') and inner.args and name_is(inner.args[0], value):
                pol = p != neg
        return pol

    adds = [e for e in C.eff.on('_pairs', PAIR_ADD)]
    dels = [e for e in C.eff.on('_pairs', PAIR_DEL)]
    ga = [e for e in adds if e.op == 'add' and e.args and is_pair(e.args[0]) and polarity(e) is True]
    gd = [e for e in dels if e.op in ('discard', 'remove') and e.args and is_pair(e.args[0]) and polarity(e) is False]
    R.check(bool(ga) and len(adds) == 1, 'CELL-ASSIGN', func, (adds[0].node if adds else func.node), 'truthy value adds the cell',
            'exactly one add of the cell under a truthy value', '; '.join(src(e.node) for e in adds) or 'none')
    R.check(bool(gd) and len(dels) == 1, 'CELL-ASSIGN', func, (dels[0].node if dels else func.node), 'falsy value removes the cell',
            'exactly one removal of the cell under a falsy value', '; '.join(src(e.node) for e in dels) or 'none')


def t_rename(C):
    R, func = C.R, C.func
    axis, other = C.axis, OTHER_AXIS[C.axis]
    old, new = C.params[1], C.params[2]
    C.sorts[old] = C.sorts[new] = AXIS[axis]
    idx = 0 if axis == '_objects' else 1
    rep = [e for e in C.eff.on(axis, {'replace'})]
    others = [e for e in C.eff.records if mut(e) and e.field in AXIS and e not in rep]
    if len(rep) != 1 or others or not rep[0].unconditional:
        raise Unrecognised(f'expected a single unconditional self.{axis}.replace(old, new)', func=func, node=func.node)
    r = rep[0]
    R.check(len(r.args) == 2 and name_is(C.X(r.args[0]), old) and name_is(C.X(r.args[1]), new),
            'RENAME', func, r.node, 'axis.replace(old, new)', f'self.{axis}.replace({old}, {new})')
    pm = [e for e in C.eff.on('_pairs') if mut(e)]
    R.check(all(e.order > r.order for e in pm), 'VALIDATE-BEFORE-MUTATE', func, r.node,
            'replace precedes cell rewrite', 'the raising axis.replace() before any cell mutation')

    def cell_matches(node, first, ctx):
        """cell == (first, v) [objects axis] resp. (v, first) with v ranging over the other axis; returns v name."""
        comps = C.cell(node, ctx)
        if not comps:
            return None
        fixed, var = (comps[0], comps[1]) if idx == 0 else (comps[1], comps[0])
        if name_is(C.X(fixed), first) and isinstance(var, ast.Name):
            return var.id
        return None

    dels = [e for e in pm if e.op in PAIR_DEL]
    adds = [e for e in pm if e.op in PAIR_ADD]
    rest = [e for e in pm if e not in dels and e not in adds]
    if rest:
        raise Unrecognised(f'cell mutation outside the rename idiom: {src(rest[0].node)}', func=func, node=rest[0].node)
    if not dels:
        C.absent('RENAME', func.node, 'remove (old, .) cells', f'removal of every ({old}, .) cell', 'no removal from the cell set')
    if not adds:
        C.absent('RENAME', func.node, 'add (new, .) cells', f'addition of ({new}, .) for every removed ({old}, .)', 'no addition to the cell set')
    if not dels or not adds:
        return
    if len(dels) != 1 or len(adds) != 1:
        raise Unrecognised('more than one add/remove in rename', func=func, node=func.node)
    d, a = dels[0], adds[0]
    # --- removal: (old, v) with v over the other axis
    dctx = d
    if d.op in ('remove', 'discard'):
        dcell = d.args[0]
    else:
        comp = d.args[0]
        if not isinstance(comp, (ast.GeneratorExp, ast.SetComp, ast.ListComp)):
            raise Unrecognised('removal argument is not a comprehension', func=func, node=d.node)
        dcell = comp.elt
        dctx = type('E', (), {'gens': list(comp.generators), 'loops': d.loops})()
    v = cell_matches(dcell, old, dctx)
    if v is None:
        w = cell_matches(dcell, new, dctx)
        if w is not None or (C.cell(dcell, dctx) and any(name_is(C.X(c_), nm_) for c_ in C.cell(dcell, dctx) for nm_ in (old, new))):
            R.bad('RENAME', func, d.node, 'removed cell', f'({old}, .) cells removed', src(dcell))
        else:
            R.unknown('RENAME', func, d.node, 'removed cell', f'cannot relate {src(dcell)} to ({old}, .)')
        return
    b = C.binding(v, dctx)
    it_field = C.field_of(b[1]) if b else None
    R.check(bool(it_field) and it_field[1] == other, 'RENAME', func, d.node, 'removal ranges over the other axis',
            f'. ranging over self.{other}', src(b[1]) if b else 'unbound')
    if d.gens and d.negated is not None and d.op in ('remove', 'discard') and d.node is not d.stmt:
        # side-effecting filter idiom: ``... and not pairs.remove(cell)`` — remove() returns None, so only the negated
        # form lets the element through
        R.check(d.negated is True, 'RENAME', func, d.node, 'removal inside filter is negated',
                'not pairs.remove(...) (remove returns None: un-negated, the filter rejects every cell)', src(d.node))
    # --- addition: (new, v') for the same cells
    actx = a
    if a.op == 'add':
        acell = a.args[0]
        filters = [t for t, pol in a.conds if pol]
    else:
        comp = C.X(a.args[0]) if not isinstance(a.args[0], (ast.GeneratorExp, ast.SetComp, ast.ListComp)) else a.args[0]
        if not isinstance(comp, (ast.GeneratorExp, ast.SetComp, ast.ListComp)):
            raise Unrecognised('addition argument is not a comprehension', func=func, node=a.node)
        acell = comp.elt
        actx = type('E', (), {'gens': list(comp.generators), 'loops': a.loops})()
        filters = [c for g in comp.generators for c in g.ifs]
    va = cell_matches(acell, new, actx)
    R.check(va is not None, 'RENAME', func, a.node, 'added cell', f'({new}, .) cells added', src(acell))
    if va is None:
        return
    ba = C.binding(va, actx)
    it_field = C.field_of(ba[1]) if ba else None
    R.check(bool(it_field) and it_field[1] == other, 'RENAME', func, a.node, 'addition ranges over the other axis',
            f'. ranging over self.{other}', src(ba[1]) if ba else 'unbound')
    # the membership guard: (old, v) in pairs
    tests = []
    for f in filters:
        for n in walk(f):
            if (isinstance(n, ast.Compare) and len(n.ops) == 1 and isinstance(n.ops[0], ast.In)
                    and C.field_of(n.comparators[0]) and C.field_of(n.comparators[0])[1] == '_pairs'):
                tests.append(n)
    if not tests:
        R.bad('RENAME', func, a.node, 'membership guard', f'only cells with ({old}, .) in the cell set are renamed', 'no membership test')
    else:
        t = tests[0]
        tv = cell_matches(t.left, old, actx)
        R.check(tv == va, 'RENAME', func, t, 'membership guard', f'({old}, {va}) in pairs', src(t))


def t_move(C):
    R, func = C.R, C.func
    axis = C.axis
    muts = [e for e in C.eff.records if mut(e)]
    mv = [e for e in muts if e.field == axis and e.op == 'move']
    R.check(len(mv) == 1 and len(muts) == 1 and len(mv[0].args) == 2 and C.is_param(mv[0].args[0], 1) and C.is_param(mv[0].args[1], 2),
            'MOVE', func, mv[0].node if mv else func.node, 'only axis.move(name, index)',
            f'exactly self.{axis}.move({C.params[1]}, {C.params[2]}) and nothing else',
            '; '.join(src(e.node) for e in muts) or 'no mutation')


def t_add(C, setter=False):
    R, func = C.R, C.func
    axis, other = C.axis, OTHER_AXIS[C.axis]
    name, seq = C.params[1], C.params[2]
    C.sorts[name] = AXIS[axis]
    C.elem_sorts[seq] = AXIS[other]
    idx = 0 if axis == '_objects' else 1
    # the collection the parameter may be re-bound to (``properties = Unique(properties)``)
    rebinds = [s for s in stmts(func.body) if isinstance(s, ast.Assign) and any(name_is(t, seq) for t in s.targets)]
    rebound_ok = None
    rebind_line = None
    if rebinds:
        if len(rebinds) > 1 or rebinds[0] not in func.body:
            raise Unrecognised(f'parameter {seq} rebound more than once / conditionally', func=func, node=rebinds[0])
        v = rebinds[0].value
        rebind_line = rebinds[0].lineno
        if isinstance(v, ast.Call) and len(v.args) == 1 and name_is(v.args[0], seq):
            cname = '.'.join(chain(v.func) or [])
            if cname in ORDER_KEEPING:
                rebound_ok = True
            elif cname in ORDER_LOSING:
                rebound_ok = False
        if rebound_ok is None:
            raise Unrecognised(f'parameter {seq} rebound to {src(v)}', func=func, node=rebinds[0])

    a = [e for e in C.eff.on(axis, {'add'}) if e.unconditional and e.args and name_is(C.X(e.args[0]), name)]
    if a:
        R.ok('CELLS-WITHIN-AXES', func, a[0].node, f'{axis}.add({name})')
    else:
        C.absent('CELLS-WITHIN-AXES', func.node, f'{axis}.add({name})', f'unconditional self.{axis}.add({name})', 'no such statement')
    ext = [e for e in C.eff.on(other, {'ior', 'update'}) if e.unconditional]
    ext_ok = [e for e in ext if e.args and derived_from_param(C, e.args[0], 2)]
    if not ext_ok:
        C.absent('CELLS-WITHIN-AXES', func.node, f'{other} |= {seq}', f'unconditional self.{other} |= {seq}', 'no such statement')
    else:
        e = ext_ok[0]
        R.ok('CELLS-WITHIN-AXES', func, e.node, f'{other} |= {seq}')
        kept = order_kept(C, e.args[0], 2)
        if kept and rebinds and e.node.lineno > rebind_line:
            kept = rebound_ok
        R.check(kept is True, 'ORDER-GIVEN', func, e.node, f'new names appended in the order of {seq}',
                f'the axis extended from {seq} as given (or an order-preserving copy)',
                src(e.args[0]) + (f' with {src(rebinds[0])}' if rebinds else ''))
    # other mutations of the axes are not expected
    extra = [e for e in C.eff.records if e.field in AXIS and mut(e) and e not in a and e not in ext]
    if extra:
        raise Unrecognised(f'unexpected axis mutation {src(extra[0].node)}', func=func, node=extra[0].node)

    def cell_of(node, ctx):
        comps = C.cell(node, ctx)
        if not comps:
            return None
        fixed, var = (comps[0], comps[1]) if idx == 0 else (comps[1], comps[0])
        if name_is(C.X(fixed), name) and isinstance(var, ast.Name):
            return var.id
        return None

    pm = [e for e in C.eff.on('_pairs') if mut(e)]
    if not setter:
        ups = [e for e in pm if e.op in ('update', 'ior') and e.unconditional]
        if len(pm) != 1 or len(ups) != 1:
            if not pm:
                C.absent('CELL-ADD', func.node, 'cells added', f'({name}, .) for every . in {seq}', 'no cell mutation')
                return
            raise Unrecognised('cell mutation outside the add idiom', func=func, node=pm[0].node)
        e = ups[0]
        comp = e.args[0]
        if not isinstance(comp, (ast.GeneratorExp, ast.SetComp, ast.ListComp)) or len(comp.generators) != 1:
            raise Unrecognised('add argument is not a single-generator comprehension', func=func, node=e.node)
        ctx = type('E', (), {'gens': list(comp.generators), 'loops': []})()
        v = cell_of(comp.elt, ctx)
        g = comp.generators[0]
        R.check(v is not None and name_is(g.target, v) and derived_from_param(C, g.iter, 2) and not g.ifs,
                'CELL-ADD', func, e.node, 'cells added', f'({name}, .) for every . in {seq}', src(comp))
        return
    # ---- set_*: afterwards the name has exactly the given cells
    loops_add = [e for e in pm if e.op == 'add' and e.loops]
    loops_del = [e for e in pm if e.op in ('discard', 'remove') and e.loops]
    if loops_add and loops_del and len(pm) == 2:
        ea, ed = loops_add[0], loops_del[0]
        va, vd = cell_of(ea.args[0], ea), cell_of(ed.args[0], ed)
        la, ld = C.binding(va, ea) if va else None, C.binding(vd, ed) if vd else None
        ok_cells = va is not None and vd is not None
        R.check(ok_cells, 'CELL-SET', func, ea.node, 'cells written', f'({name}, .) added / discarded',
                f'{src(ea.node)} / {src(ed.node)}')
        if not ok_cells:
            return
        fa = C.field_of(la[1]) if la else None
        R.check(bool(fa) and fa[1] == other and la is not None and ld is not None and la[1] is ld[1],
                'CELL-SET', func, ea.node, 'loop ranges over the whole other axis', f'for . in self.{other}',
                src(la[1]) if la else '?')
        # loop must run after the axis was extended, otherwise new names get no cells
        if ext_ok:
            R.check(ext_ok[0].order < ea.order, 'CELL-SET', func, ea.node, 'axis extended before the loop',
                    f'self.{other} |= {seq} precedes the loop over self.{other}')
        # polarity: membership of . in the given collection decides add vs discard

        def pol(e, v):
            for test, p in e.allconds:
                inner, neg = strip_not(test)
                if (isinstance(inner, ast.Compare) and len(inner.ops) == 1 and name_is(inner.left, v)
                        and derived_from_param(C, inner.comparators[0], 2)):
                    if isinstance(inner.ops[0], ast.In):
                        return p != neg
                    if isinstance(inner.ops[0], ast.NotIn):
                        return p == neg
            return None
        R.check(pol(ea, va) is True and pol(ed, vd) is False, 'CELL-SET', func, ea.node, 'membership decides add/discard',
                f'add when . in {seq}, discard otherwise', f'add under {pol(ea, va)}, discard under {pol(ed, vd)}')
        return
    purge = [e for e in pm if e.op in ('difference_update', 'isub') and e.unconditional]
    ups = [e for e in pm if e.op in ('update', 'ior') and e.unconditional]
    if len(purge) == 1 and len(ups) == 1 and len(pm) == 2:
        pc, uc = purge[0].args[0], ups[0].args[0]
        if not all(isinstance(c, (ast.GeneratorExp, ast.SetComp, ast.ListComp)) and len(c.generators) == 1 for c in (pc, uc)):
            raise Unrecognised('set_* purge/update arguments', func=func, node=purge[0].node)
        pctx = type('E', (), {'gens': list(pc.generators), 'loops': []})()
        uctx = type('E', (), {'gens': list(uc.generators), 'loops': []})()
        vp, vu = cell_of(pc.elt, pctx), cell_of(uc.elt, uctx)

        def ranges(comp, var):
            """('axis' | 'given', predicate over "var in the given collection") of a single-generator comprehension, or None."""
            g = comp.generators[0]
            fld = C.field_of(g.iter)
            if fld and fld[1] == other:
                dom = 'axis'
            elif derived_from_param(C, g.iter, 2):
                dom = 'given'
            else:
                return None
            pols = []
            for c_ in g.ifs:
                inner, neg = strip_not(c_)
                if not (isinstance(inner, ast.Compare) and len(inner.ops) == 1 and isinstance(inner.ops[0], (ast.In, ast.NotIn))
                        and name_is(inner.left, var) and derived_from_param(C, inner.comparators[0], 2)):
                    return None
                pols.append(isinstance(inner.ops[0], ast.In) != neg)
            return dom, (lambda S, pols=pols: all(S == p_ for p_ in pols))
        rp = ranges(pc, vp) if vp is not None else None
        ru = ranges(uc, vu) if vu is not None else None
        if rp is None or ru is None:
            R.unknown('CELL-SET', func, purge[0].node, 'cells of the name set to exactly the given collection',
                      f'purge {src(pc)[:70]} / update {src(uc)[:70]} not in the recognised comprehension form')
            return
        # decide: for every name v of the other axis, afterwards (name, v) is a cell iff v is in the given collection -
        # over the four cases (was a cell before?, is v given?)
        purge_first = purge[0].order < ups[0].order
        wrong = []
        for O in (False, True):
            for S in (False, True):
                Pv = (rp[0] == 'axis' or S) and rp[1](S)
                Uv = (ru[0] == 'axis' or S) and ru[1](S)
                final = ((O and not Pv) or Uv) if purge_first else ((O or Uv) and not Pv)
                if final != S:
                    wrong.append({'was a cell': O, 'in the given collection': S, 'is a cell afterwards': final})
        R.decided(not wrong, 'CELL-SET', func, purge[0].node, 'afterwards the name has exactly the given cells (old ones purged, given ones added)',
                  f'({name}, .) present iff . in {seq}', f'{src(purge[0].node)[:80]}; {src(ups[0].node)[:80]}', extra={'differs': wrong[:2]} if wrong else None)
        return
    if not pm:
        C.absent('CELL-SET', func.node, 'cells written', f'cells of {name} set to exactly {seq}', 'no cell mutation')
        return
    raise Unrecognised('cell mutation outside the set_* idioms', func=func, node=pm[0].node)


def t_remove(C):
    R, func = C.R, C.func
    axis, other = C.axis, OTHER_AXIS[C.axis]
    name = C.params[1]
    C.sorts[name] = AXIS[axis]
    idx = 0 if axis == '_objects' else 1
    rm = [e for e in C.eff.on(axis) if mut(e)]
    om = [e for e in C.eff.on(other) if mut(e)]
    if om:
        raise Unrecognised(f'unexpected mutation of the other axis: {src(om[0].node)}', func=func, node=om[0].node)
    if len(rm) != 1 or rm[0].op not in ('remove', 'discard') or not rm[0].unconditional:
        if not rm:
            C.absent('AXIS-REMOVE', func.node, 'name removed from axis', f'self.{axis}.remove({name})', 'no removal')
            return
        raise Unrecognised(f'axis mutation outside the remove idiom: {src(rm[0].node)}', func=func, node=rm[0].node)
    r = rm[0]
    R.check(r.args and name_is(C.X(r.args[0]), name), 'AXIS-REMOVE', func, r.node, 'name removed from axis',
            f'self.{axis}.remove({name})')
    R.check(r.op == 'remove', 'RAISE-ON-UNKNOWN', func, r.node, 'raising removal',
            'remove() (KeyError for an unknown name)', f'{r.op}() (silently ignores an unknown name)')
    pm = [e for e in C.eff.on('_pairs') if mut(e)]
    if not pm:
        C.absent('PURGE', func.node, 'cells of the removed name purged', f'every ({name}, .) removed from the cell set',
                 'no cell mutation: stale cells survive and reappear when the name is added again')
        return
    if len(pm) != 1:
        raise Unrecognised('more than one cell mutation in remove_*', func=func, node=pm[1].node)
    e = pm[0]
    if e.op in PAIR_ADD or e.op in ('intersection_update', 'iand'):
        R.bad('PURGE', func, e.node, 'purge polarity', 'a removing operation (difference_update / -=)', f'{e.op}')
        return
    if e.op not in ('difference_update', 'isub') or not e.unconditional:
        raise Unrecognised(f'purge outside the idiom: {src(e.node)}', func=func, node=e.node)
    comp = e.args[0]
    if not isinstance(comp, (ast.GeneratorExp, ast.SetComp, ast.ListComp)) or len(comp.generators) != 1:
        raise Unrecognised('purge argument is not a single-generator comprehension', func=func, node=e.node)
    g = comp.generators[0]
    ctx = type('E', (), {'gens': [g], 'loops': []})()
    comps = C.cell(comp.elt, ctx)
    if not comps:
        raise Unrecognised('purge element is not a cell', func=func, node=e.node)
    fixed, var = (comps[0], comps[1]) if idx == 0 else (comps[1], comps[0])
    fld = C.field_of(g.iter)
    good = (name_is(C.X(fixed), name) and isinstance(var, ast.Name) and name_is(g.target, var.id)
            and bool(fld) and fld[1] == other and not g.ifs)
    R.check(good, 'PURGE', func, e.node, 'cells of the removed name purged',
            f'({name}, .) for every . in self.{other}' if idx == 0 else f'(., {name}) for every . in self.{other}', src(comp))


def t_remove_empty(C):
    R, func = C.R, C.func
    axis = C.axis
    idx = 0 if axis == '_objects' else 1
    env = C.env
    # the returned list: [x for x in self.<axis> if x not in <projection>]
    rets = [n for n in walk(func.body) if isinstance(n, ast.Return) and n.value is not None]
    if len(rets) != 1:
        raise Unrecognised('remove_empty_* should have one return', func=func, node=func.node)
    lst = C.X(rets[0].value)
    if not isinstance(lst, ast.ListComp) or len(lst.generators) != 1:
        raise Unrecognised('returned value is not a list comprehension over the axis', func=func, node=rets[0])
    g = lst.generators[0]
    fld = C.field_of(g.iter)
    R.check(bool(fld) and fld[1] == axis and isinstance(g.target, ast.Name) and name_is(lst.elt, g.target.id),
            'REMOVE-EMPTY', func, rets[0], 'candidates range over the axis', f'[x for x in self.{axis} if ...]', src(lst))
    if not g.ifs:
        R.bad('REMOVE-EMPTY', func, rets[0], 'filter: only names without cells', 'a filter "x not in <names occurring in cells>"',
              'no filter: every name is removed')
        return
    if len(g.ifs) != 1:
        raise Unrecognised('more than one filter', func=func, node=rets[0])
    test, neg = strip_not(g.ifs[0])
    good = False
    proj = None
    if isinstance(test, ast.Compare) and len(test.ops) == 1 and isinstance(g.target, ast.Name) and name_is(test.left, g.target.id):
        is_notin = isinstance(test.ops[0], ast.NotIn) != neg if isinstance(test.ops[0], (ast.In, ast.NotIn)) else None
        proj = C.X(test.comparators[0])
        good = is_notin is True
    if isinstance(test, ast.Constant):
        R.bad('REMOVE-EMPTY', func, rets[0], 'filter: only names without cells', 'x not in <names occurring in cells>', src(g.ifs[0]))
        return
    if not good or proj is None:
        if isinstance(test, ast.Compare) and isinstance(test.ops[0], (ast.In, ast.NotIn)):
            R.bad('REMOVE-EMPTY', func, rets[0], 'filter polarity', 'x not in <names occurring in cells>', src(g.ifs[0]))
            return
        raise Unrecognised(f'filter outside the idiom: {src(g.ifs[0])}', func=func, node=rets[0])
    # projection: {o for o, _ in self._pairs}
    if not isinstance(proj, (ast.SetComp, ast.ListComp, ast.GeneratorExp)) or len(proj.generators) != 1:
        raise Unrecognised(f'projection outside the idiom: {src(proj)}', func=func, node=rets[0])
    pg = proj.generators[0]
    pf = C.field_of(pg.iter)
    ok = (bool(pf) and pf[1] == '_pairs' and isinstance(pg.target, ast.Tuple) and len(pg.target.elts) == 2
          and isinstance(pg.target.elts[idx], ast.Name) and name_is(proj.elt, pg.target.elts[idx].id) and not pg.ifs)
    if not ok and bool(pf) and pf[1] == '_pairs' and isinstance(proj.elt, ast.Subscript) and isinstance(pg.target, ast.Name):
        ok = name_is(proj.elt.value, pg.target.id) and const(proj.elt.slice) == idx and not pg.ifs
    R.check(ok, 'REMOVE-EMPTY', func, rets[0], 'projection of the matching cell component',
            f'component {idx} of every cell in self._pairs', src(proj))
    # the removal loop: for x in <that list>: self.<axis>.remove(x)
    rm = [e for e in C.eff.records if mut(e)]
    good_rm = [e for e in rm if e.field == axis and e.op in ('remove', 'discard') and len(e.loops) == 1 and not e.conds]
    if len(rm) != 1 or len(good_rm) != 1:
        if not rm:
            C.absent('REMOVE-EMPTY', func.node, 'names removed from axis', f'self.{axis}.remove(x) for every listed x', 'no removal')
            return
        raise Unrecognised('mutation outside the remove_empty idiom', func=func, node=rm[0].node)
    e = good_rm[0]
    target, it = e.loops[0]
    R.check(isinstance(target, ast.Name) and name_is(C.X(e.args[0]), target.id) and src(C.X(it)) == src(lst),
            'REMOVE-EMPTY', func, e.node, 'exactly the listed names are removed', 'loop over the returned list', src(it))


def t_update(C, op):
    """union_update / intersection_update."""
    R, func = C.R, C.func
    other = C.params[1]
    flag = C.params[2] if len(C.params) > 2 else None
    want = {'union': 'ior', 'intersection': 'iand'}[op]
    alt = {'ior': {'update'}, 'iand': {'intersection_update'}}[want]
    muts = [e for e in C.eff.records if mut(e)]
    for fld in FIELDS:
        es = [e for e in muts if e.field == fld]
        if not es:
            C.absent('INPLACE-ALL-FIELDS', func.node, f'{fld} updated', f'self.{fld} {"|=" if want == "ior" else "&="} {other}.{fld}',
                     'field is not updated')
            continue
        if len(es) > 1 or not es[0].unconditional:
            raise Unrecognised(f'several/conditional updates of {fld}', func=func, node=es[0].node)
        e = es[0]
        c = chain(C.X(e.args[0])) if e.args else None
        R.check(e.root == C.params[0], 'INPLACE-ALL-FIELDS', func, e.node, f'{fld} updated on self',
                f'{C.params[0]}.{fld} is the updated container', f'{e.root}.{fld} is updated (the other operand is mutated, self is not)')
        R.check(e.op == want or e.op in alt, 'INPLACE-ALL-FIELDS', func, e.node, f'{fld} operator',
                '|=' if want == 'ior' else '&=', e.op)
        R.check(c == [other, fld], 'INPLACE-ALL-FIELDS', func, e.node, f'{fld} operand', f'{other}.{fld}',
                src(e.args[0]) if e.args else '')
    # ensure_compatible(self, other) unless ignored, before the first mutation
    calls = [n for n in walk(func.body) if isinstance(n, ast.Call) and name_is(n.func, 'ensure_compatible')]
    if not calls:
        R.bad('VALIDATE-BEFORE-MUTATE', func, func.node, 'conflict check', 'ensure_compatible(self, other) unless ignore_conflicts',
              'no call')
    else:
        call = calls[0]
        args = {src(a) for a in call.args}
        R.check(args == {C.params[0], other}, 'VALIDATE-BEFORE-MUTATE', func, call, 'conflict check operands',
                f'ensure_compatible({C.params[0]}, {other})', src(call))
        first = min((e.node.lineno for e in muts), default=10 ** 9)
        R.check(call.lineno < first, 'VALIDATE-BEFORE-MUTATE', func, call, 'conflict check precedes mutation',
                'check before the first mutation', f'check at line {call.lineno}, first mutation at line {first}')
        # guard: executed iff not ignore_conflicts
        guard = None
        for s in stmts(func.body):
            if isinstance(s, ast.If) and any(n is call for n in walk(s.body)):
                guard = (s.test, True)
            elif isinstance(s, ast.If) and any(n is call for n in walk(s.orelse)):
                guard = (s.test, False)
        if guard is None:
            R.ok('VALIDATE-BEFORE-MUTATE', func, call, 'conflict check unconditional')
        else:
            inner, neg = strip_not(guard[0])
            runs_when_flag = (guard[1] != neg) if (flag and name_is(inner, flag)) else None
            if runs_when_flag is None:
                raise Unrecognised(f'conflict-check guard {src(guard[0])}', func=func, node=call)
            R.check(runs_when_flag is False, 'VALIDATE-BEFORE-MUTATE', func, call, 'conflict check guard',
                    f'runs when not {flag}', f'runs when {flag} is {"truthy" if runs_when_flag else "falsy"}')
    if flag:
        d = func.defaults().get(flag)
        R.check(d is not None and const(d, 'x') is False, 'API-DEFAULT', func, d or func.node, f'{flag} default',
                'False (conflicts are detected unless asked otherwise)', src(d))


def t_inplace_op(C, target):
    R, func = C.R, C.func
    other = C.params[1]
    calls = [n for n in walk(func.body) if isinstance(n, ast.Call) and chain(n.func) == [C.params[0], target]]
    ok = (len(calls) == 1 and calls[0].args and name_is(calls[0].args[0], other)
          and all(const(a, 'x') is False for a in calls[0].args[1:])
          and all(const(k.value, 'x') is False for k in calls[0].keywords))
    R.check(ok, 'INPLACE-OPERATOR', func, calls[0] if calls else func.node, f'delegates to {target}', f'self.{target}({other})',
            '; '.join(src(c) for c in calls) or 'no call')
    rets = [n for n in walk(func.body) if isinstance(n, ast.Return)]
    R.check(len(rets) == 1 and name_is(rets[0].value, C.params[0]), 'INPLACE-OPERATOR', func, rets[0] if rets else func.node,
            'returns self', 'return self', src(rets[0]) if rets else 'no return')


def t_getitem(model, R):
    func = model.func('definitions.Triple.__getitem__')
    C = Ctx(R, func)
    pair = func.params[1]
    comps = None
    for s in stmts(func.body):
        if (isinstance(s, ast.Assign) and isinstance(s.targets[0], ast.Tuple) and len(s.targets[0].elts) == 2
                and name_is(s.value, pair) and all(isinstance(t, ast.Name) for t in s.targets[0].elts)):
            comps = [t.id for t in s.targets[0].elts]
    raises = [s for s in stmts(func.body) if isinstance(s, ast.Raise)]
    key_raises = []
    for s in stmts(func.body):
        if isinstance(s, ast.If):
            for r in s.body:
                if isinstance(r, ast.Raise) and r.exc is not None and (
                        name_is(r.exc, 'KeyError') or (isinstance(r.exc, ast.Call) and name_is(r.exc.func, 'KeyError'))):
                    key_raises.append((s, r))
    if comps is None or len(key_raises) != 1:
        raise Unrecognised('Triple.__getitem__: expected "o, p = pair" and one guarded raise KeyError', func=func, node=func.node)
    test = key_raises[0][0].test

    def atomizer(n):
        if isinstance(n, ast.Compare) and len(n.ops) == 1 and isinstance(n.ops[0], (ast.In, ast.NotIn)):
            f = C.field_of(n.comparators[0])
            if f and f[1] in AXIS and isinstance(n.left, ast.Name) and n.left.id in comps:
                return (f'{["first", "second"][comps.index(n.left.id)]} in {f[1]}', isinstance(n.ops[0], ast.In))
        return None
    try:
        f = guards.compile_formula(test, atomizer)
    except Unrecognised as e:
        R.unknown('GUARD', func, test, 'KeyError iff unknown object or property', e.what)
        return
    spec_atoms = ['first in _objects', 'second in _properties']
    diff = guards.equivalent(f, lambda env: not env['first in _objects'] or not env['second in _properties'], spec_atoms)
    wrong_axis = [a for a in f.atoms if a not in spec_atoms]
    if wrong_axis:
        R.bad('GUARD', func, test, 'KeyError iff unknown object or property', 'object tested against _objects, property against _properties',
              f.text)
    else:
        R.decided(diff is None, 'GUARD', func, test, 'KeyError iff unknown object or property',
                'raise KeyError iff o not in objects or p not in properties', f.text, extra={'differs_at': diff})
    # the answer itself: pair in self._pairs
    rets = sorted((n for n in walk(func.body) if isinstance(n, ast.Return) and n.value is not None), key=lambda n: n.lineno)
    last = rets[-1].value if rets else None
    ok = (isinstance(last, ast.Compare) and len(last.ops) == 1 and isinstance(last.ops[0], ast.In)
          and C.field_of(last.comparators[0]) and C.field_of(last.comparators[0])[1] == '_pairs'
          and (name_is(last.left, pair) or (isinstance(last.left, ast.Tuple) and [src(x) for x in last.left.elts] == comps)))
    R.check(bool(ok), 'CELL-READ', func, rets[-1] if rets else func.node, 'cell value is membership in the cell set',
            f'{pair} in self._pairs', src(last))


# ------------------------------------------------------------------ tools.Unique


def unique_rules(model, R):
    cls = model.cls('tools.Unique')
    FLD = ('_seen', '_items')
    R.floor('UNIQUE-INVARIANT', 8)

    def effs(name):
        func = cls.methods.get(name)
        if func is None:
            raise Unrecognised(f'tools.Unique.{name} missing', node=cls.node)
        return func, Effects(func, FLD)

    # add / discard: same guarded net effect on both containers
    for name, seen_ops, item_ops, guard_in in (('add', {'add'}, {'append'}, False), ('discard', {'remove', 'discard'}, {'remove'}, True)):
        func, E = effs(name)
        item = func.params[1]
        s = [e for e in E.on('_seen') if e.op in ('add', 'remove', 'discard', 'update', 'clear', 'pop', 'assign', 'ior')]
        i = [e for e in E.on('_items') if e.op in ('append', 'remove', 'insert', 'pop', 'extend', 'setitem', 'delitem', 'clear', 'assign')]
        ok_s = len(s) == 1 and s[0].op in seen_ops and s[0].args and name_is(s[0].args[0], item)
        ok_i = len(i) == 1 and i[0].op in item_ops and i[0].args and name_is(i[0].args[0], item)
        R.check(ok_s, 'UNIQUE-INVARIANT', func, s[0].node if s else func.node, f'{name}: _seen updated',
                f'self._seen.{sorted(seen_ops)[0]}({item})', '; '.join(src(e.node) for e in s) or 'no update of _seen')
        R.check(ok_i, 'UNIQUE-INVARIANT', func, i[0].node if i else func.node, f'{name}: _items updated',
                f'self._items.{sorted(item_ops)[0]}({item})', '; '.join(src(e.node) for e in i) or 'no update of _items')
        if ok_s and ok_i:
            # both under the same membership guard
            def guard_pol(e):
                for test, p in e.allconds:
                    inner, neg = strip_not(test)
                    if (isinstance(inner, ast.Compare) and len(inner.ops) == 1 and name_is(inner.left, item)
                            and chain(inner.comparators[0]) in (['self', '_seen'], ['self', '_items'])):
                        isin = isinstance(inner.ops[0], ast.In)
                        return (p != neg) == isin
                return None
            R.check(guard_pol(s[0]) is guard_in and guard_pol(i[0]) is guard_in, 'UNIQUE-INVARIANT', func, s[0].node,
                    f'{name}: guarded by membership', f'only when item {"in" if guard_in else "not in"} self._seen',
                    f'_seen under {guard_pol(s[0])}, _items under {guard_pol(i[0])}')
    # replace: checks precede writes; _seen loses item, gains new_item; _items[idx] = new_item with idx = index(item)
    func, E = effs('replace')
    item, new = func.params[1], func.params[2]
    env = Env(func)
    s = [e for e in E.on('_seen') if e.op in ('add', 'remove', 'discard', 'update', 'clear', 'pop', 'assign')]
    i = [e for e in E.on('_items') if e.op in ('append', 'remove', 'insert', 'pop', 'extend', 'setitem', 'delitem', 'clear', 'assign')]
    rm = [e for e in s if e.op in ('remove', 'discard') and e.args and name_is(e.args[0], item)]
    ad = [e for e in s if e.op == 'add' and e.args and name_is(e.args[0], new)]
    # the effects on _seen were extracted (recognised operations on the tracked container): their net effect is decided
    simple = all(e.op in ('add', 'remove', 'discard') and len(e.args) == 1 for e in s) and 1 <= len(s) <= 3
    R.check(len(rm) == 1 and len(s) == 2, 'UNIQUE-INVARIANT', func, rm[0].node if rm else func.node, 'replace: old item leaves _seen',
            f'self._seen.remove({item})', '; '.join(src(e.node) for e in s), strict=True if simple else None)
    R.check(len(ad) == 1 and len(s) == 2, 'UNIQUE-INVARIANT', func, ad[0].node if ad else func.node, 'replace: new item enters _seen',
            f'self._seen.add({new})', '; '.join(src(e.node) for e in s), strict=True if simple else None)
    st = [e for e in i if e.op == 'setitem']
    ok = False
    if len(st) == 1 and len(i) == 1:
        idx = env.expand(st[0].args[0])
        ok = (isinstance(idx, ast.Call) and chain(idx.func) == ['self', '_items', 'index'] and idx.args
              and name_is(idx.args[0], item) and name_is(st[0].args[1], new))
    R.check(ok, 'UNIQUE-INVARIANT', func, st[0].node if st else func.node, 'replace: _items slot overwritten',
            f'self._items[self._items.index({item})] = {new}', '; '.join(src(e.node) for e in i))
    # validate before mutate
    raises = [n for n in stmts(func.body) if isinstance(n, ast.If) and any(isinstance(b, ast.Raise) for b in n.body)]
    first_write = min((e.node.lineno for e in s + i), default=10 ** 9)
    clash = [n for n in raises if isinstance(strip_not(n.test)[0], ast.Compare) and name_is(strip_not(n.test)[0].left, new)]
    R.check(len(clash) == 1 and clash[0].lineno < first_write and isinstance(strip_not(clash[0].test)[0].ops[0], ast.In)
            and not strip_not(clash[0].test)[1],
            'VALIDATE-BEFORE-MUTATE', func, clash[0] if clash else func.node, 'replace: clash check first',
            f'raise ValueError if {new} in self._seen, before any write')
    idx_calls = [n for n in walk(func.body) if isinstance(n, ast.Call) and chain(n.func) == ['self', '_items', 'index']]
    R.check(bool(idx_calls) and min(n.lineno for n in idx_calls) < first_write, 'VALIDATE-BEFORE-MUTATE', func,
            idx_calls[0] if idx_calls else func.node, 'replace: unknown item raises before any write',
            'self._items.index(item) (ValueError) evaluated before the first write')
    # move: only _items, pop + insert of the same item
    func, E = effs('move')
    s = [e for e in E.on('_seen') if e.op in ('add', 'remove', 'discard', 'update', 'clear', 'pop', 'assign')]
    i = [e for e in E.on('_items') if e.op in ('append', 'remove', 'insert', 'pop', 'extend', 'setitem', 'delitem', 'clear', 'assign')]
    ops = sorted(e.op for e in i)
    R.check(not s and ops in (['insert', 'pop'], ['insert', 'remove'], ['delitem', 'insert']), 'UNIQUE-INVARIANT', func,
            i[0].node if i else func.node, 'move: membership unchanged', 'one removal and one insert on _items, _seen untouched',
            '; '.join(src(e.node) for e in s + i) or 'nothing')
    # __init__ / rsub: the dedup comprehension feeds the same set that becomes _seen
    for name in ('__init__', 'rsub'):
        func = cls.methods.get(name)
        if func is None:
            raise Unrecognised(f'tools.Unique.{name} missing', node=cls.node)
        env = Env(func)
        comps = [n for n in walk(func.body) if isinstance(n, ast.ListComp)]
        if len(comps) != 1:
            if not comps and _unique_loop_form(R, func, name, model):
                continue
            raise Unrecognised(f'Unique.{name}: expected one list comprehension', func=func, node=func.node)
        lc = comps[0]
        g = lc.generators[0]
        conj = []
        for c in g.ifs:
            conj += _flatten_and(c)
        seen_names = set()
        notin = []
        adders = []
        for c in conj:
            inner, neg = strip_not(c)
            if isinstance(inner, ast.Compare) and len(inner.ops) == 1 and isinstance(inner.ops[0], (ast.In, ast.NotIn)):
                is_notin = isinstance(inner.ops[0], ast.NotIn) != neg
                if is_notin and name_is(inner.left, g.target.id if isinstance(g.target, ast.Name) else ''):
                    notin.append(src(env.expand(inner.comparators[0], alias_only=True)))
            elif isinstance(inner, ast.Call) and neg:
                f = env.expand(inner.func, alias_only=True)
                c2 = chain(f)
                if c2 and c2[-1] == 'add' and inner.args and isinstance(g.target, ast.Name) and name_is(inner.args[0], g.target.id):
                    adders.append('.'.join(c2[:-1]))
                else:
                    adders.append('!' + src(f))
            elif isinstance(inner, ast.Call) and not neg:
                adders.append('!un-negated ' + src(inner))
        # which set becomes _seen?
        if name == '__init__':
            seen_assign = [s for s in stmts(func.body) if isinstance(s, ast.Assign)
                           and any(chain(t) == ['self', '_seen'] for t in s.targets)]
            seen_name = None
            if seen_assign:
                names = [t.id for t in seen_assign[0].targets if isinstance(t, ast.Name)]
                seen_name = names[0] if names else None
                if seen_name is None and isinstance(seen_assign[0].value, ast.Name):
                    seen_name = seen_assign[0].value.id
            seen_key = seen_name
        else:
            call = [n for n in walk(func.body) if isinstance(n, ast.Call) and chain(n.func) and chain(n.func)[-1] == '_fromargs']
            from .common import fromargs_args
            fa = fromargs_args(model, func, call[0]) if call else None
            seen_key = src(fa[0]) if fa else None
        ok = seen_key is not None and adders == [seen_key] and seen_key in notin
        # the filter idiom was parsed (membership tests and a side-effecting recorder): a wrong recorder is a recognised slot
        R.check(ok, 'UNIQUE-INVARIANT', func, lc, f'{name}: dedup records every kept item in the set that becomes _seen',
                f'[x for x in ... if x not in {seen_key} and not {seen_key}.add(x)]', src(lc), strict=True if (notin and adders) else None)
        if name == 'rsub':
            R.check(src(ast.Attribute(value=ast.Name(id='self', ctx=ast.Load()), attr='_seen', ctx=ast.Load())) in notin,
                    'UNIQUE-INVARIANT', func, lc, 'rsub: items already present are dropped', 'x not in self._seen', src(lc))
    # any further method that writes the two containers directly (e.g. a bulk __ior__ replacing the inherited one-by-one add)
    known_writers = {'__init__', '_fromargs', 'copy', 'add', 'discard', 'replace', 'move', 'rsub'}
    for mname, mfunc in cls.methods.items():
        if mname in known_writers:
            continue
        ME = Effects(mfunc, FLD)
        writes = [e for e in ME.records if (e.field == '_seen' and e.op in ('add', 'remove', 'discard', 'update', 'clear', 'pop', 'assign', 'ior', 'difference_update'))
                  or (e.field == '_items' and e.op in ('append', 'remove', 'insert', 'pop', 'extend', 'setitem', 'delitem', 'clear', 'assign', 'iadd', 'sort', 'reverse'))]
        if not writes:
            continue
        menv = Env(mfunc)
        bulk = [e for e in writes if e.field == '_items' and e.op in ('extend', 'iadd')]
        decided = False
        for e in bulk:
            arg = menv.expand(e.args[0]) if e.args else None
            if isinstance(arg, (ast.ListComp, ast.GeneratorExp)) and len(arg.generators) == 1:
                g = arg.generators[0]
                conj = []
                for c_ in g.ifs:
                    conj += _flatten_and(c_)
                only_membership = bool(conj) and all(
                    isinstance(strip_not(c_)[0], ast.Compare) and isinstance(strip_not(c_)[0].ops[0], (ast.In, ast.NotIn)) for c_ in conj)
                targets = {src(menv.expand(strip_not(c_)[0].comparators[0], alias_only=True)) for c_ in conj if isinstance(strip_not(c_)[0], ast.Compare)}
                if only_membership and targets <= {'self._seen', 'self._items', 'self'}:
                    R.bad('UNIQUE-INVARIANT', mfunc, e.node, f'{mname}: a batch appended to _items is free of repeats',
                          'every item checked against the items already kept *and* the ones of the same batch (add() one by one, or the dedup idiom)',
                          f'{src(arg)[:100]} filters only against the names already present',
                          extra={'consequence': 'a new name that occurs twice in the argument is stored twice: duplicate rows/columns'})
                    decided = True
        # a writer that can drop members from _items (filtered rebuild, clear) and never touches _seen: the membership
        # set keeps the dropped names, so a later add() of such a name is skipped and ``in`` stays true
        seen_w = [e for e in writes if e.field == '_seen']
        if not decided and not seen_w:
            for e in writes:
                if e.field != '_items':
                    continue
                drops = None
                if e.op == 'clear':
                    drops = 'self._items.clear()'
                elif e.op == 'assign' and e.args:
                    val = menv.expand(e.args[0])
                    if isinstance(val, ast.ListComp) and len(val.generators) == 1 and val.generators[0].ifs \
                            and chain(menv.expand(val.generators[0].iter, alias_only=True)) in (['self', '_items'], ['self'])\
                            and isinstance(val.elt, ast.Name) and isinstance(val.generators[0].target, ast.Name) \
                            and val.elt.id == val.generators[0].target.id:
                        tests = []
                        for c_ in val.generators[0].ifs:
                            tests += _flatten_and(c_)
                        # a filter against a collection other than the object's own containers can reject kept items
                        foreign = [c_ for c_ in tests if isinstance(strip_not(c_)[0], ast.Compare)
                                   and isinstance(strip_not(c_)[0].ops[0], (ast.In, ast.NotIn))
                                   and src(menv.expand(strip_not(c_)[0].comparators[0], alias_only=True)) not in ('self._seen', 'self._items', 'self')]
                        if foreign and len(foreign) == len(tests):
                            drops = src(val)[:100]
                if drops:
                    R.bad('UNIQUE-INVARIANT', mfunc, e.node, f'{mname}: _seen follows every change of membership of _items',
                          'a write of self._seen in the same method (self._seen is the set of self._items at every exit)',
                          f'{drops} may drop items; no write of self._seen in {mname}',
                          extra={'consequence': 'a dropped name stays in _seen: a later add() skips it and membership tests stay true'})
                    decided = True
                    break
        if not decided and model.fully_inlined(mfunc):
            decided = True
        if not decided:
            R.unknown('UNIQUE-INVARIANT', mfunc, writes[0].node, f'{mname}: writes the containers directly', 'a writer the rule table does not know')
    func = cls.methods.get('__contains__')
    if func is not None:
        rets = [n for n in walk(func.body) if isinstance(n, ast.Return)]
        ok = (len(rets) == 1 and isinstance(rets[0].value, ast.Compare) and isinstance(rets[0].value.ops[0], ast.In)
              and chain(rets[0].value.comparators[0]) in (['self', '_seen'], ['self', '_items']))
        R.check(ok, 'UNIQUE-INVARIANT', func, func.node, '__contains__ reads the membership set', 'item in self._seen')
    func = cls.methods.get('__iter__')
    if func is not None:
        rets = [n for n in walk(func.body) if isinstance(n, ast.Return)]
        ok = (len(rets) == 1 and isinstance(rets[0].value, ast.Call) and name_is(rets[0].value.func, 'iter')
              and chain(rets[0].value.args[0]) == ['self', '_items'])
        R.check(ok, 'UNIQUE-INVARIANT', func, func.node, '__iter__ is the ordered list', 'iter(self._items)')


def _unique_loop_form(R, func, name, model=None):
    """Explicit-loop spelling of the dedup: ``for x in it: if x not in seen [..]: seen.add(x); items.append(x)`` (also with guard-``continue``).
    Returns True when the shape was recognised (and the obligations recorded)."""
    from ..astutil import context_of
    loops = [s_ for s_ in func.body if isinstance(s_, ast.For) and isinstance(s_.target, ast.Name)]
    if len(loops) != 1:
        return False
    lp = loops[0]
    x = lp.target.id
    adds = [n for n in walk(lp.body) if isinstance(n, ast.Call) and isinstance(n.func, ast.Attribute) and n.func.attr == 'add'
            and len(n.args) == 1 and name_is(n.args[0], x) and isinstance(n.func.value, ast.Name)]
    apps = [n for n in walk(lp.body) if isinstance(n, ast.Call) and isinstance(n.func, ast.Attribute) and n.func.attr == 'append'
            and len(n.args) == 1 and name_is(n.args[0], x) and isinstance(n.func.value, ast.Name)]
    if len(adds) != 1 or len(apps) != 1:
        return False
    seen_name, items_name = adds[0].func.value.id, apps[0].func.value.id

    def excluded(call):
        """names of collections the element is known NOT to be in when the call runs"""
        out = set()
        for c in context_of(lp.body, call) or []:
            if c[0] not in ('if', 'guard'):
                return None
            parts = [c[1]]
            t, neg = strip_not(c[1])
            pol = c[2] != neg
            # (a in A or a in B) false  ==  a not in A and a not in B ; (a not in A and a not in B) true
            if isinstance(t, ast.BoolOp):
                if (isinstance(t.op, ast.Or) and not pol) or (isinstance(t.op, ast.And) and pol):
                    parts = [(v, pol) for v in t.values]
                else:
                    return None
            else:
                parts = [(t, pol)]
            for tt, pp in parts:
                tt, n2 = strip_not(tt)
                pp = pp != n2
                if isinstance(tt, ast.Compare) and len(tt.ops) == 1 and name_is(tt.left, x) and isinstance(tt.ops[0], (ast.In, ast.NotIn)):
                    notin = isinstance(tt.ops[0], ast.NotIn) == pp
                    if notin:
                        out.add(src(tt.comparators[0]))
                    else:
                        return None
                else:
                    return None
        return out
    ea, ep = excluded(adds[0]), excluded(apps[0])
    if ea is None or ep is None:
        return False
    # which set becomes _seen / which list becomes _items
    if name == '__init__':
        becomes_seen = any(isinstance(s_, ast.Assign) and any(chain(t_) == ['self', '_seen'] for t_ in s_.targets)
                           and (any(name_is(t_, seen_name) for t_ in s_.targets) or name_is(s_.value, seen_name)) for s_ in stmts(func.body))
        becomes_items = any(isinstance(s_, ast.Assign) and any(chain(t_) == ['self', '_items'] for t_ in s_.targets) and name_is(s_.value, items_name)
                            for s_ in stmts(func.body))
    else:
        call = [n for n in walk(func.body) if isinstance(n, ast.Call) and chain(n.func) and chain(n.func)[-1] == '_fromargs']
        from .common import fromargs_args
        fa = fromargs_args(model, func, call[0]) if call else None
        becomes_seen = bool(fa) and name_is(fa[0], seen_name)
        becomes_items = bool(fa) and name_is(fa[1], items_name)
    R.decided(becomes_seen and becomes_items and seen_name in ea and seen_name in ep and ea == ep, 'UNIQUE-INVARIANT', func, lp,
              f'{name}: dedup records every kept item in the set that becomes _seen',
              f'for x in ...: if x not in {seen_name}: {seen_name}.add(x); {items_name}.append(x)',
              f'add under not-in {sorted(ea)}, append under not-in {sorted(ep)}; _seen<-{seen_name}: {becomes_seen}, _items<-{items_name}: {becomes_items}')
    if name == 'rsub':
        R.decided('self._seen' in ea or any(True for s_ in func.body if isinstance(s_, ast.Assign) and name_is(s_.targets[0], next(iter(ea - {seen_name}), ''))
                                            and chain(s_.value) == ['self', '_seen']),
                  'UNIQUE-INVARIANT', func, lp, 'rsub: items already present are dropped', 'x not in self._seen', str(sorted(ea)))
    return True


def _flatten_and(node):
    if isinstance(node, ast.BoolOp) and isinstance(node.op, ast.And):
        out = []
        for v in node.values:
            out += _flatten_and(v)
        return out
    return [node]


# ------------------------------------------------------------------ who may write


def who_may_write(model, R):
    """Only definitions.py writes Definition._objects/_properties/_pairs; only tools.Unique writes _seen/_items."""
    allowed = {'_objects': 'definitions', '_properties': 'definitions', '_pairs': 'definitions',
               '_seen': 'tools', '_items': 'tools'}
    n = 0
    for func in model.all_funcs():
        E = Effects(func, tuple(allowed))
        for e in E.records:
            if not (e.op in AXIS_MUT or e.op in PAIR_MUT):
                continue
            n += 1
            if func.module.name != allowed[e.field]:
                R.bad('WHO-MAY-WRITE', func, e.node, f'{e.field} written outside {allowed[e.field]}.py',
                      f'only {allowed[e.field]}.py mutates {e.field}', src(e.node))
    R.ok('WHO-MAY-WRITE', 'package', 'concepts/', f'{n} write sites, all inside their owning module')


# =====================================================================================


METHODS = [
    ('__setitem__', None, t_setitem),
    ('rename_object', '_objects', t_rename), ('rename_property', '_properties', t_rename),
    ('move_object', '_objects', t_move), ('move_property', '_properties', t_move),
    ('add_object', '_objects', t_add), ('add_property', '_properties', t_add),
    ('remove_object', '_objects', t_remove), ('remove_property', '_properties', t_remove),
    ('remove_empty_objects', '_objects', t_remove_empty), ('remove_empty_properties', '_properties', t_remove_empty),
    ('set_object', '_objects', lambda C: t_add(C, setter=True)), ('set_property', '_properties', lambda C: t_add(C, setter=True)),
    ('union_update', None, lambda C: t_update(C, 'union')), ('intersection_update', None, lambda C: t_update(C, 'intersection')),
    ('__ior__', None, lambda C: t_inplace_op(C, 'union_update')), ('__iand__', None, lambda C: t_inplace_op(C, 'intersection_update')),
]


def run(model, R):
    cls = model.cls(MIXIN)
    R.floor('CELLS-WITHIN-AXES', 10)
    R.floor('PURGE', 2)
    R.floor('RENAME', 10)
    R.floor('REMOVE-EMPTY', 6)
    R.floor('INPLACE-ALL-FIELDS', 12)
    for name, axis, template in METHODS:
        func = cls.methods.get(name)
        if func is None:
            R.unknown('ANCHOR', f'{MIXIN}.{name}', cls.node, name, 'mutator missing')
            continue
        try:
            C = Ctx(R, func, axis)
            foreign = [e for e in C.eff.records if mut(e) and e.root != func.params[0]]
            for e in foreign:
                if name not in ('union_update', 'intersection_update'):
                    R.bad('FOREIGN-MUTATION', func, e.node, f'{e.root}.{e.field} mutated', 'only self is edited', src(e.node))
            template(C)
            check_cell_sorts(C)
        except Unrecognised as e:
            R.unknown('TEMPLATE', func, e.node if e.node is not None else func.node, name, e.what)
    from .common import flag_clobber
    for nm in ('union_update', 'intersection_update'):
        if nm in cls.methods:
            flag_clobber(R, cls.methods[nm], ['ignore_conflicts'])
    R.guard('GUARD', None, 'Triple.__getitem__', t_getitem, model, R)
    R.guard('UNIQUE-INVARIANT', None, 'tools.Unique', unique_rules, model, R)
    R.guard('WHO-MAY-WRITE', None, 'package', who_may_write, model, R)
    # any *other* method of MutableMixin mutating the fields must be known
    known = {m[0] for m in METHODS} | {'union', 'intersection'}
    for name, func in cls.methods.items():
        if name in known:
            continue
        E = Effects(func, FIELDS)
        if any(mut(e) for e in E.records):
            if model.fully_inlined(func):
                R.ok('ANCHOR', func, func.node, name, 'private helper, judged inside every caller (all calls spliced into the known mutators)')
                continue
            R.unknown('ANCHOR', func, func.node, name, 'a mutator that the rule table does not know')
    # "a call the model rejects (... conflicting cells) raises": the conflict test behind union_update/intersection_update
    from . import c14
    R.guard('CONFLICTS', None, 'conflicting_pairs', c14.conflicting, model, R)
    # 'no residue can reappear': copies and combinations own their containers (C14's freshness rules are a dependency)
    R.guard('FRESH', None, 'freshness', c14.freshness, model, R)
    return __doc__.strip()
