"""C07: join is the closure of the union of extents, meet the (closure of the) intersection.
Decides: Concept.join/meet compute, as a Boolean function of the two extents, a | b resp. a & b
(object-set sort), apply the extent closure (object set -> object set; required for join,
optional for meet because an intersection of extents is an extent) and return the member of an
operand's lattice with that extent; operators | and & are aliases of them; Lattice.join/meet
reduce the extents of exactly the given concepts with reduce_or resp. reduce_and (empty cases:
empty set resp. all objects - axiom), close, and look the result up.  The two loops of the closure
itself are C01's.  Lattice laws follow mathematically from 'extent = closure of union /
intersection' and are not checked separately.
"""

import ast
import itertools

from .. import bitalg
from ..astutil import Env, chain, src, walk, const, stmts
from ..model import Unrecognised
from ..sorts import Sorter
from .common import concept_cls, resolve_method, subclass_overrides
from .c13 import name_is


def split_closure(node):
    """(kind, arg): kind 'vec' for X._extents.double(arg), 'method' for arg.double(), None for bare."""
    if isinstance(node, ast.Call) and isinstance(node.func, ast.Attribute) and node.func.attr in ('double', 'doubleprime', 'prime'):
        c = chain(node.func)
        if node.args and c and len(c) >= 2 and c[-2] in ('_extents', '_intents'):
            return (c[-2], node.func.attr), node.args[0]
        if not node.args:
            return ('method', node.func.attr), node.func.value
    return None, node


def semantic_cases(model, R, func, name, owner_kind):
    """Fallback for a join/meet that does not follow the lookup template: the function is read as a case analysis
    (path condition -> returned concept), conditions are compiled with C08's predicate algebra, every returned concept is
    given an extent term (self -> a, other -> b, infimum -> Z, supremum -> U, mapping[t] -> t, closure(a | b) -> the free
    variable J, closure of an intersection of extents -> itself) and the result is compared with the specification
    (meet: a & b, join: J) on every admissible occupancy pattern.  ``owner_kind``: 'Atom' / 'Infimum' / 'Supremum' adds what
    is known about ``self`` in that subclass.  Returns True if a verdict (PASS or VIOLATION) was recorded."""
    from .c08 import make_hook, make_var_of, SORT
    from ..astutil import context_of
    self_, other = func.params[:2]
    env = Env(func)
    used = set()
    var_of0 = make_var_of(self_, other)

    def var_of(n):
        v = var_of0(n)
        if v:
            used.add(v)
        return v
    hook = make_hook(self_, other, used)

    def extent_term(n):
        n = env.expand(n)
        t = hook.concept_term(n)
        if t is not None:
            return t
        if isinstance(n, ast.Subscript) and chain(n.value) and chain(n.value)[-1] == '_mapping':
            closure, arg = split_closure(n.slice)
            term = bitalg.compile_term(arg, var_of, SORT.get)
            if 'P' in term.sorts:
                raise Unrecognised('mapping key over intents')
            if closure is None or _is_intersection(term):
                return term            # an intersection of extents is an extent: the closure is the identity on it
            if all(term({'a': a_, 'b': b_, 'U': 1, 'Z': 0, 'J': 1, bitalg.OUTSIDE: 0}) == (a_ | b_) for a_ in (0, 1) for b_ in (0, 1)):
                used.add('J')
                return bitalg.Term(lambda r: r['J'], 'J', frozenset('O'))
            raise Unrecognised(f'closure of {term.text}')
        raise Unrecognised(f'returned concept {src(n)[:60]}')

    rets = sorted((r for r in walk(func.body) if isinstance(r, ast.Return) and r.value is not None), key=lambda r: r.lineno)
    if not rets:
        return False
    cases = []
    try:
        for r in rets:
            ctx = context_of(func.body, r)
            if ctx is None or any(c[0] not in ('if', 'guard') for c in ctx):
                return False
            conds = [(bitalg.compile_pred(env.expand(c[1]), var_of, SORT.get, hook=hook), c[2]) for c in ctx]
            cases.append((conds, extent_term(r.value), r))
    except (Unrecognised, bitalg.SortError):
        return False
    if used & {'A', 'B', 'UI', 'ZI'}:
        return False
    variables = ['a', 'b', 'U', 'Z', 'J']

    def row_ok(r):
        return r['U'] == 1 and (not r['Z'] or (r['a'] and r['b'])) and (r['J'] or not (r['a'] or r['b']))

    def pattern_ok(occ):
        rows_ = [r for r in occ if not r[bitalg.OUTSIDE]]
        # J is the *least* closed set above a | b, and a, b are closed: when one operand contains the other, J is that operand
        if all(r['b'] <= r['a'] for r in rows_) and any(r['J'] != r['a'] for r in rows_):
            return False
        if all(r['a'] <= r['b'] for r in rows_) and any(r['J'] != r['b'] for r in rows_):
            return False
        if owner_kind == 'Infimum':
            return all(r['a'] == r['Z'] for r in rows_)
        if owner_kind == 'Supremum':
            return all(r['a'] == 1 for r in rows_)
        if owner_kind == 'Atom':
            # a covers Z: the extent a & b lies between Z and a, hence equals one of them; and a != Z
            meet_is_z = all((r['a'] & r['b']) == r['Z'] for r in rows_)
            meet_is_a = all((r['a'] & r['b']) == r['a'] for r in rows_)
            return (meet_is_z or meet_is_a) and any(r['a'] != r['Z'] for r in rows_)
        return True
    spec = (lambda r: r['a'] & r['b']) if name == 'meet' else (lambda r: r['J'])
    bad = None
    n_pat = 0
    for occ in bitalg.patterns(variables, row_ok, pattern_ok):
        n_pat += 1
        chosen = None
        for conds, term, r in cases:
            if all(bool(p(occ)) == pol for p, pol in conds):
                chosen = (term, r)
                break
        if chosen is None:
            return False          # falls off the end on some pattern: not a total case analysis
        term, r = chosen
        rows_ = [row for row in occ if not row[bitalg.OUTSIDE]]
        if any(term(row) != spec(row) for row in rows_):
            bad = (rows_, term, r)
            break
    slot = f'{func.cls.name if func.cls else ""}.{func.name}: {name} decided as a case analysis over extents' + (f' (self is the {owner_kind.lower()})' if owner_kind else '')
    if bad is None:
        R.ok('BOUNDS', func, func.node, slot, found=f'{len(cases)} cases agree with {"a & b" if name == "meet" else "closure(a | b)"} on {n_pat} occupancy patterns')
    else:
        rows_, term, r = bad
        objs = {f'o{i}': {k: row[k] for k in ('a', 'b', 'Z', 'J')} for i, row in enumerate(rows_, 1)}
        R.bad('BOUNDS', func, r, slot, 'extent a & b' if name == 'meet' else 'extent closure(a | b)', f'returns {src(r.value)[:60]} with extent {term.text}',
              extra={'counterexample objects (in x / in y / in bottom / in the join)': objs,
                     'note': 'realised by the context whose extent family is the intersection-closure of {all, join, x, y, bottom}'})
    return True


def _follows_template(func):
    rets = [n for n in walk(func.body) if isinstance(n, ast.Return)]
    if len(rets) != 1:
        return False
    v = Env(func).expand(rets[0].value)
    return isinstance(v, ast.Subscript) and bool(chain(v.value)) and chain(v.value)[-1] == '_mapping'


def _through_public_lookup(model, R, func, name, ret, v, self_, other):
    """``return x.lattice[<objects built from the operands' extents>]`` with no case analysis around it.
    Lattice.__getitem__ (read on the current tree) answers a falsy key with the *supremum*; the union (join) or intersection
    (meet) of two extents is empty for real operands (infimum | infimum with an empty bottom extent; two disjoint atoms),
    where the specified result is the infimum.  Decided only when that special case is present in __getitem__ and nothing
    in the function can route the empty key elsewhere; otherwise not judged (False)."""
    if not (isinstance(v, ast.Subscript) and chain(v.value) in ([self_, 'lattice'], [other, 'lattice'])):
        return False
    if any(isinstance(n, (ast.If, ast.IfExp, ast.Try, ast.BoolOp, ast.While, ast.For)) for s_ in func.body for n in ast.walk(s_)):
        return False
    if any(isinstance(n, (ast.IfExp, ast.BoolOp)) for n in ast.walk(v.slice)):
        return False
    attrs = {n.attr for n in ast.walk(v.slice) if isinstance(n, ast.Attribute) and chain(n) and chain(n)[0] in (self_, other)}
    if not attrs & {'extent', '_extent', 'objects'} or attrs & {'intent', '_intent', 'properties'}:
        return False
    try:
        gi = model.func('lattices.CollectionMixin.__getitem__')
    except Exception:
        return False
    kparam = gi.params[1] if len(gi.params) > 1 else None
    special = [s_ for s_ in gi.body if isinstance(s_, ast.If) and isinstance(s_.test, ast.UnaryOp) and isinstance(s_.test.op, ast.Not)
               and isinstance(s_.test.operand, ast.Name) and s_.test.operand.id == kparam
               and len(s_.body) == 1 and isinstance(s_.body[0], ast.Return) and chain(s_.body[0].value) == [gi.params[0], 'supremum']]
    if not special:
        return False
    R.bad('BOUNDS', func, ret, f'{name}: the empty combination of extents is looked up as an extent',
          f'{self_}.lattice._mapping[closure] (the mapping has no special keys)',
          f'{src(v)[:90]}: Lattice.__getitem__ returns the supremum for an empty key (concepts/lattices.py:{special[0].lineno})',
          extra={'consequence': ('infimum | infimum' if name == 'join' else 'the meet of two concepts with disjoint extents')
                 + ' has an empty key when the bottom extent is empty and comes back as the top concept'})
    return True


def _is_intersection(term):
    """term == AND of a subset of {a, b, U, Z} as a Boolean function"""
    import itertools
    rows_ = [dict(zip(('a', 'b', 'Z'), bits)) for bits in itertools.product((0, 1), repeat=3)]
    for r in rows_:
        r.update({'U': 1, 'J': 1, 'A': 0, 'B': 0, bitalg.OUTSIDE: 0})
    for k in range(0, 4):
        for sub in itertools.combinations(('a', 'b', 'Z'), k):
            if all(term(r) == min([r[v] for v in sub] + [1]) for r in rows_):
                return True
    return False


def binary(model, R):
    cls = concept_cls(model)
    table = {'join': ('a | b', lambda r: r['a'] | r['b']), 'meet': ('a & b', lambda r: r['a'] & r['b'])}
    targets = [(name, resolve_method(model, cls, name)) for name in ('join', 'meet')]
    for sub, name, target in subclass_overrides(model, cls, ['join', 'meet', '__or__', '__and__']):
        base = {'__or__': 'join', '__and__': 'meet'}.get(name, name)
        if hasattr(target, 'node'):
            targets.append((base, target))
        elif isinstance(target, ast.Name) and target.id in sub.methods and target.id in ('join', 'meet') \
                and {'__or__': 'join', '__and__': 'meet'}.get(name) == target.id:
            R.ok('BOUNDS', f'{sub.key}.{name}', sub.node, f'{sub.name}.{name} is {target.id}')
        else:
            R.unknown('BOUNDS', f'{sub.key}.{name}', sub.node, f'{sub.name}.{name} (override)', 'rebinding that is not a method definition')
    for name, func in targets:
        op_text, spec = table[name]
        owner = func.cls.name if func.cls is not None and func.cls.name in ('Atom', 'Infimum', 'Supremum') else None
        if owner is not None or not _follows_template(func):
            if semantic_cases(model, R, func, name, owner):
                continue
        self_, other = func.params[:2]
        env = Env(func)
        rets = [n for n in walk(func.body) if isinstance(n, ast.Return)]
        if len(rets) != 1:
            R.unknown('BOUNDS', func, func.node, name, f'{len(rets)} returns')
            continue
        v = env.expand(rets[0].value)
        if not (isinstance(v, ast.Subscript) and chain(v.value) and chain(v.value)[-1] == '_mapping'):
            if _through_public_lookup(model, R, func, name, rets[0], v, self_, other):
                continue
            R.unknown('BOUNDS', func, rets[0], name, f'result is not a mapping lookup: {src(v)[:80]}')
            continue
        root = chain(v.value)
        R.check(root in ([self_, 'lattice', '_mapping'], [other, 'lattice', '_mapping']), 'BOUNDS', func, rets[0],
                f'{name}: result is the member of an operand\'s lattice', f'{self_}.lattice._mapping[...]', src(v.value))
        closure, arg = split_closure(v.slice)

        def var_of(n):
            c = chain(n)
            if c == [self_, '_extent']:
                return 'a'
            if c == [other, '_extent']:
                return 'b'
            if c == [self_, '_intent']:
                return 'A'
            if c == [other, '_intent']:
                return 'B'
            return None
        try:
            term = bitalg.compile_term(arg, var_of, {'a': 'O', 'b': 'O', 'A': 'P', 'B': 'P'}.get)
        except bitalg.SortError as e:
            R.bad('BOUNDS', func, e.node, f'{name}: operands are object sets', 'extents of both concepts', str(e))
            continue
        except Unrecognised as e:
            R.unknown('BOUNDS', func, arg, f'{name}: closure argument', e.what)
            continue
        if 'P' in term.sorts:
            R.bad('BOUNDS', func, arg, f'{name}: operands are object sets', 'extents of both concepts', term.text)
            continue
        diff = None
        for a, b in itertools.product((0, 1), repeat=2):
            row = {'a': a, 'b': b, 'A': 0, 'B': 0, bitalg.OUTSIDE: 0}
            if term(row) != spec(row):
                diff = row
        R.decided(diff is None, 'BOUNDS', func, arg, f'{name}: closure argument is {op_text}', op_text, term.text,
                extra={'differs_for_object_in': {'x': diff['a'], 'y': diff['b']}} if diff else None)
        if closure is None:
            if name == 'join':
                R.bad('BOUNDS', func, v.slice, 'join: union of extents is closed', 'double(a | b) (a union of extents is generally not an extent)',
                      'no closure applied')
            else:
                R.ok('BOUNDS', func, v.slice, 'meet: intersection of extents needs no closure')
        else:
            good = closure in (('_extents', 'double'), ('method', 'double'))
            R.check(good, 'BOUNDS', func, v.slice, f'{name}: closure is the object-set closure', '_extents.double(...) / <extent>.double()',
                    f'{closure[0]}.{closure[1]}')
    for op, name in (('__or__', 'join'), ('__and__', 'meet')):
        try:
            f = resolve_method(model, cls, op)
            R.check(f.name == name, 'BOUNDS', f'lattice_members.Concept.{op}', f.node, f'{op} is {name}', name, f.name)
        except Unrecognised as e:
            R.bad('BOUNDS', f'lattice_members.Concept.{op}', cls.node, f'{op} is {name}', name, e.what)


def aggregate(model, R):
    for name, red in (('join', 'reduce_or'), ('meet', 'reduce_and')):
        func = model.func(f'lattices.AggregagtionMixin.{name}')
        p = func.params[1]
        env = Env(func)
        rets = [n for n in walk(func.body) if isinstance(n, ast.Return)]
        if len(rets) != 1:
            R.unknown('BOUNDS', func, func.node, f'Lattice.{name}', f'{len(rets)} returns')
            continue
        v = env.expand(rets[0].value)
        if not (isinstance(v, ast.Subscript) and chain(v.value) == ['self', '_mapping']):
            R.unknown('BOUNDS', func, rets[0], f'Lattice.{name}', src(v)[:80])
            continue
        closure, arg = split_closure(v.slice)
        ok_red = (isinstance(arg, ast.Call) and chain(arg.func) and chain(arg.func)[-2:] == ['_Objects', red] and len(arg.args) == 1)
        found_red = (chain(arg.func) or ['?'])[-1] if isinstance(arg, ast.Call) else src(arg)[:40]
        R.check(ok_red, 'BOUNDS', func, arg, f'Lattice.{name}: extents combined with {red} over the object sets',
                f'self._context._Objects.{red}(...)', src(arg.func) if isinstance(arg, ast.Call) else found_red)
        if ok_red:
            g = arg.args[0]
            shaped = (isinstance(g, (ast.GeneratorExp, ast.ListComp)) and len(g.generators) == 1 and isinstance(g.generators[0].target, ast.Name)
                      and chain(g.elt) == [g.generators[0].target.id, '_extent'])
            if not shaped:
                R.unknown('BOUNDS', func, g, f'Lattice.{name}: the extents of exactly the given concepts', src(g)[:100])
            else:
                it = g.generators[0].iter
                from ..astutil import reaching_value
                for _ in range(3):
                    if isinstance(it, ast.Name) and not name_is(it, p):
                        v_ = reaching_value(func, it.id, 10 ** 9) or env.single(it.id)
                        if v_ is None:
                            break
                        it = v_
                    elif isinstance(it, ast.Call) and isinstance(it.func, ast.Name) and it.func.id in ('list', 'tuple', 'set', 'frozenset') and len(it.args) == 1:
                        it = it.args[0]
                    else:
                        break
                if g.generators[0].ifs:
                    tv = g.generators[0].target.id
                    conds = g.generators[0].ifs
                    # dropping empty extents: neutral for a union, but the empty extent is the absorbing element of an intersection
                    only_nonempty = len(conds) == 1 and chain(conds[0]) == [tv, '_extent'] and name_is(it, p)
                    if only_nonempty and name == 'join':
                        R.ok('BOUNDS', func, g, f'Lattice.{name}: the extents of exactly the given concepts', 'empty extents skipped (neutral for a union)')
                    elif only_nonempty:
                        R.bad('BOUNDS', func, g, f'Lattice.{name}: the extents of exactly the given concepts', f'({tv}._extent for {tv} in {p})', src(g),
                              extra={'consequence': 'a concept with an empty extent (the bottom) forces the intersection to be empty; skipping it returns a '
                                                    'concept above the greatest lower bound (meet([infimum]) is the supremum)'})
                    else:
                        R.unknown('BOUNDS', func, g, f'Lattice.{name}: the extents of exactly the given concepts', 'filtered: ' + src(conds[0]))
                elif name_is(it, p):
                    R.ok('BOUNDS', func, g, f'Lattice.{name}: the extents of exactly the given concepts')
                elif isinstance(it, ast.Call) and (chain(it.func) or [''])[-1] == 'maximal' and it.args and name_is(it.args[0], p):
                    comp = next((k.value for k in it.keywords if k.arg == 'comparison'), it.args[1] if len(it.args) > 1 else None)
                    cname = (chain(comp) or [''])[-1] if comp is not None else 'lt'
                    # join needs the concepts with the largest extents, meet those with the smallest: dropping a concept is only
                    # harmless when another kept one is above (join) resp. below (meet) it
                    keep_ok = {'join': ('properly_implies', '__lt__', 'lt'), 'meet': ('properly_subsumes', '__gt__', 'gt')}[name]
                    R.decided(cname in keep_ok, 'BOUNDS', func, it, f'Lattice.{name}: arguments may only be dropped when another one dominates them',
                              f'all of {p} (or tools.maximal(..., comparison=Concept.{keep_ok[0]}))', src(it)[:120],
                              extra={'consequence': f'{name}([x, y]) with comparable x, y ignores the one that determines the result'})
                else:
                    R.unknown('BOUNDS', func, g, f'Lattice.{name}: the extents of exactly the given concepts', src(it)[:100])
        if closure is None:
            if name == 'join':
                R.bad('BOUNDS', func, v.slice, 'Lattice.join: union of extents is closed', f'{red}(...).double()', 'no closure applied')
            else:
                R.ok('BOUNDS', func, v.slice, 'Lattice.meet: intersection of extents needs no closure')
        else:
            R.check(closure in (('method', 'double'), ('_extents', 'double')), 'BOUNDS', func, v.slice,
                    f'Lattice.{name}: closure is the object-set closure', '.double()', f'{closure[0]}.{closure[1]}')


def run(model, R):
    R.floor('BOUNDS', 8)
    R.guard('BOUNDS', None, 'Concept.join/meet', binary, model, R)
    R.guard('BOUNDS', None, 'Lattice.join/meet', aggregate, model, R)
    # both close their argument with the double derivation of the object family (C01's closures are a dependency)
    from . import c01
    R.guard('WIRING', None, '_pair_with closures', c01.closure_rules, model, R)
    R.guard('WIRING', None, 'Relation.__new__', c01.relation_new, model, R)
    # a lattice loaded from an unordered serialisation is only the documented structure if the loaders forward raw (C06's rule)
    from . import c06 as _c06
    R.guard('ORDER', None, 'raw flag', _c06.raw_is_forwarded, model, R)
    return __doc__.strip()
