"""C07: join is the closure of the union of extents, meet the (closure of the) intersection.
Decides: Concept.join/meet compute, as a Boolean function of the two extents, a | b resp. a & b
(object-set sort), apply the extent closure (object set -> object set; required for join,
optional for meet because an intersection of extents is an extent) and return the member of an
operand's lattice with that extent; operators | and & are aliases of them; Lattice.join/meet
reduce the extents of exactly the given concepts with reduce_or resp. reduce_and (empty cases:
empty set resp. all objects - axiom), close, and look the result up.  The two loops of the closure
itself are C01's.  Lattice laws follow mathematically from 'extent = closure of union /
intersection' and are not checked separately.
"""

import ast
import itertools

from .. import bitalg
from ..astutil import Env, chain, src, walk, const, stmts
from ..model import Unrecognised
from ..sorts import Sorter
from .common import concept_cls, resolve_method, subclass_overrides
from .c13 import name_is


def split_closure(node):
    """(kind, arg): kind 'vec' for X._extents.double(arg), 'method' for arg.double(), None for bare."""
    if isinstance(node, ast.Call) and isinstance(node.func, ast.Attribute) and node.func.attr in ('double', 'doubleprime', 'prime'):
        c = chain(node.func)
        if node.args and c and len(c) >= 2 and c[-2] in ('_extents', '_intents'):
            return (c[-2], node.func.attr), node.args[0]
        if not node.args:
            return ('method', node.func.attr), node.func.value
    return None, node


def binary(model, R):
    cls = concept_cls(model)
    table = {'join': ('a | b', lambda r: r['a'] | r['b']), 'meet': ('a & b', lambda r: r['a'] & r['b'])}
    targets = [(name, resolve_method(model, cls, name)) for name in ('join', 'meet')]
    for sub, name, target in subclass_overrides(model, cls, ['join', 'meet', '__or__', '__and__']):
        base = {'__or__': 'join', '__and__': 'meet'}.get(name, name)
        if hasattr(target, 'node'):
            targets.append((base, target))
        else:
            R.unknown('BOUNDS', f'{sub.key}.{name}', sub.node, f'{sub.name}.{name} (override)', 'rebinding that is not a method definition')
    for name, func in targets:
        op_text, spec = table[name]
        self_, other = func.params[:2]
        env = Env(func)
        rets = [n for n in walk(func.body) if isinstance(n, ast.Return)]
        if len(rets) != 1:
            R.unknown('BOUNDS', func, func.node, name, f'{len(rets)} returns')
            continue
        v = env.expand(rets[0].value)
        if not (isinstance(v, ast.Subscript) and chain(v.value) and chain(v.value)[-1] == '_mapping'):
            R.unknown('BOUNDS', func, rets[0], name, f'result is not a mapping lookup: {src(v)[:80]}')
            continue
        root = chain(v.value)
        R.check(root in ([self_, 'lattice', '_mapping'], [other, 'lattice', '_mapping']), 'BOUNDS', func, rets[0],
                f'{name}: result is the member of an operand\'s lattice', f'{self_}.lattice._mapping[...]', src(v.value))
        closure, arg = split_closure(v.slice)

        def var_of(n):
            c = chain(n)
            if c == [self_, '_extent']:
                return 'a'
            if c == [other, '_extent']:
                return 'b'
            if c == [self_, '_intent']:
                return 'A'
            if c == [other, '_intent']:
                return 'B'
            return None
        try:
            term = bitalg.compile_term(arg, var_of, {'a': 'O', 'b': 'O', 'A': 'P', 'B': 'P'}.get)
        except bitalg.SortError as e:
            R.bad('BOUNDS', func, e.node, f'{name}: operands are object sets', 'extents of both concepts', str(e))
            continue
        except Unrecognised as e:
            R.unknown('BOUNDS', func, arg, f'{name}: closure argument', e.what)
            continue
        if 'P' in term.sorts:
            R.bad('BOUNDS', func, arg, f'{name}: operands are object sets', 'extents of both concepts', term.text)
            continue
        diff = None
        for a, b in itertools.product((0, 1), repeat=2):
            row = {'a': a, 'b': b, 'A': 0, 'B': 0, bitalg.OUTSIDE: 0}
            if term(row) != spec(row):
                diff = row
        R.decided(diff is None, 'BOUNDS', func, arg, f'{name}: closure argument is {op_text}', op_text, term.text,
                extra={'differs_for_object_in': {'x': diff['a'], 'y': diff['b']}} if diff else None)
        if closure is None:
            if name == 'join':
                R.bad('BOUNDS', func, v.slice, 'join: union of extents is closed', 'double(a | b) (a union of extents is generally not an extent)',
                      'no closure applied')
            else:
                R.ok('BOUNDS', func, v.slice, 'meet: intersection of extents needs no closure')
        else:
            good = closure in (('_extents', 'double'), ('method', 'double'))
            R.check(good, 'BOUNDS', func, v.slice, f'{name}: closure is the object-set closure', '_extents.double(...) / <extent>.double()',
                    f'{closure[0]}.{closure[1]}')
    for op, name in (('__or__', 'join'), ('__and__', 'meet')):
        try:
            f = resolve_method(model, cls, op)
            R.check(f.name == name, 'BOUNDS', f'lattice_members.Concept.{op}', f.node, f'{op} is {name}', name, f.name)
        except Unrecognised as e:
            R.bad('BOUNDS', f'lattice_members.Concept.{op}', cls.node, f'{op} is {name}', name, e.what)


def aggregate(model, R):
    for name, red in (('join', 'reduce_or'), ('meet', 'reduce_and')):
        func = model.func(f'lattices.AggregagtionMixin.{name}')
        p = func.params[1]
        env = Env(func)
        rets = [n for n in walk(func.body) if isinstance(n, ast.Return)]
        if len(rets) != 1:
            R.unknown('BOUNDS', func, func.node, f'Lattice.{name}', f'{len(rets)} returns')
            continue
        v = env.expand(rets[0].value)
        if not (isinstance(v, ast.Subscript) and chain(v.value) == ['self', '_mapping']):
            R.unknown('BOUNDS', func, rets[0], f'Lattice.{name}', src(v)[:80])
            continue
        closure, arg = split_closure(v.slice)
        ok_red = (isinstance(arg, ast.Call) and chain(arg.func) and chain(arg.func)[-2:] == ['_Objects', red] and len(arg.args) == 1)
        found_red = (chain(arg.func) or ['?'])[-1] if isinstance(arg, ast.Call) else src(arg)[:40]
        R.check(ok_red, 'BOUNDS', func, arg, f'Lattice.{name}: extents combined with {red} over the object sets',
                f'self._context._Objects.{red}(...)', src(arg.func) if isinstance(arg, ast.Call) else found_red)
        if ok_red:
            g = arg.args[0]
            ok = (isinstance(g, (ast.GeneratorExp, ast.ListComp)) and len(g.generators) == 1 and not g.generators[0].ifs
                  and name_is(g.generators[0].iter, p) and isinstance(g.generators[0].target, ast.Name)
                  and chain(g.elt) == [g.generators[0].target.id, '_extent'])
            R.check(ok, 'BOUNDS', func, g, f'Lattice.{name}: the extents of exactly the given concepts', f'(c._extent for c in {p})', src(g))
        if closure is None:
            if name == 'join':
                R.bad('BOUNDS', func, v.slice, 'Lattice.join: union of extents is closed', f'{red}(...).double()', 'no closure applied')
            else:
                R.ok('BOUNDS', func, v.slice, 'Lattice.meet: intersection of extents needs no closure')
        else:
            R.check(closure in (('method', 'double'), ('_extents', 'double')), 'BOUNDS', func, v.slice,
                    f'Lattice.{name}: closure is the object-set closure', '.double()', f'{closure[0]}.{closure[1]}')


def run(model, R):
    R.floor('BOUNDS', 14)
    R.guard('BOUNDS', None, 'Concept.join/meet', binary, model, R)
    R.guard('BOUNDS', None, 'Lattice.join/meet', aggregate, model, R)
    return __doc__.strip()
