"""C02: concept lookup returns the closure pair of the query and the member object with that extent.
Decides (sorts + def-use): in Context.__getitem__ the objects attempt is the try body and only
KeyError falls back to properties; each branch binds (extent, intent) resp. (intent, extent) from
the doubleprime of exactly the query set, with consistent sorts; both return forms denote that
pair (raw / .members()); Lattice._make_mapping keys every member by its extent; Lattice.__call__
and __getitem__ look the object-set key up in that mapping, integer/slice keys index the member
list, a falsy key is the top concept; __iter__/__len__ are those of the same list.  That the pair
is the *least* concept follows from (A'', A') once ' is the derivation (C01).
"""

import ast

from ..astutil import Env, chain, src, walk, const, stmts, strip_not
from ..model import Unrecognised
from ..sorts import Sorter
from .c13 import name_is


def getitem_rules(model, R):
    func = model.func('contexts.PrimeMixin.__getitem__')
    p_items = func.params[1]
    p_raw = func.params[2] if len(func.params) > 2 else None
    S = Sorter(func)
    # (a name bound to different sorts in different branches is not an error by itself; the unpack orders below are what is decided)
    tries = [s for s in func.body if isinstance(s, ast.Try)]
    if len(tries) != 1:
        raise Unrecognised('try/except/else lookup', func=func, node=func.node)
    t = tries[0]
    # try body: objects attempt only
    ok = False
    qo = None
    if len(t.body) == 1 and isinstance(t.body[0], ast.Assign) and isinstance(t.body[0].value, ast.Call):
        c = t.body[0].value
        ok = chain(c.func) == ['self', '_Objects', 'frommembers'] and len(c.args) == 1 and name_is(c.args[0], p_items)
        qo = t.body[0].targets[0].id if isinstance(t.body[0].targets[0], ast.Name) else None
    def is_frommembers(stmt):
        return (isinstance(stmt, ast.Assign) and isinstance(stmt.value, ast.Call) and isinstance(stmt.value.func, ast.Attribute)
                and stmt.value.func.attr == 'frommembers')
    if not (len(t.body) == 1 and is_frommembers(t.body[0])):
        raise Unrecognised('the objects attempt is not a frommembers(...) call', func=func, node=t.body[0] if t.body else t)
    R.check(ok, 'LOOKUP', func, t.body[0], 'the query is first read as a set of objects', f'self._Objects.frommembers({p_items})', src(t.body[0]))
    hs = t.handlers
    R.check(len(hs) == 1 and hs[0].type is not None and src(hs[0].type) == 'KeyError', 'LOOKUP', func, hs[0] if hs else t,
            'only an unknown object name (KeyError) falls back to properties', 'except KeyError:', src(hs[0].type) if hs and hs[0].type else 'bare except')
    # handler: properties attempt + doubleprime
    ok = False
    found = ''
    if hs:
        hb = hs[0].body
        found = src(hb)
        assigns = [s for s in hb if isinstance(s, ast.Assign)]
        if len(assigns) == 2 and len(hb) == 2:
            a0, a1 = assigns
            c = a0.value
            qp = a0.targets[0].id if isinstance(a0.targets[0], ast.Name) else None
            ok0 = (isinstance(c, ast.Call) and chain(c.func) == ['self', '_Properties', 'frommembers'] and name_is(c.args[0], p_items))
            ok1 = (isinstance(a1.value, ast.Call) and chain(a1.value.func) == [qp, 'doubleprime'] and not a1.value.args
                   and isinstance(a1.targets[0], ast.Tuple) and S.sort(a1.targets[0]) == ('P', 'O'))
            ok = ok0 and ok1
    if hs and not any(is_frommembers(s_) for s_ in hs[0].body):
        raise Unrecognised('the properties attempt is not a frommembers(...) call', func=func, node=hs[0])
    R.check(ok, 'LOOKUP', func, hs[0] if hs else t, 'property query: (intent, extent) = doubleprime of exactly the query',
            'intent = self._Properties.frommembers(items); intent, extent = intent.doubleprime()', found[:140])
    ok = False
    if len(t.orelse) == 1 and isinstance(t.orelse[0], ast.Assign):
        a = t.orelse[0]
        ok = (isinstance(a.value, ast.Call) and chain(a.value.func) == [qo, 'doubleprime'] and not a.value.args
              and isinstance(a.targets[0], ast.Tuple) and S.sort(a.targets[0]) == ('O', 'P'))
    R.check(ok, 'LOOKUP', func, t.orelse[0] if t.orelse else t, 'object query: (extent, intent) = doubleprime of exactly the query',
            'extent, intent = extent.doubleprime()', src(t.orelse)[:100])
    # returns
    rets = sorted((n for n in walk(func.body) if isinstance(n, ast.Return)), key=lambda n: n.lineno)
    raw_rets = [r for r in rets if S.sort(r.value) == ('O', 'P')]
    lab_rets = [r for r in rets if S.sort(r.value) == ('labelsO', 'labelsP')]
    R.check(len(raw_rets) == 1 and len(lab_rets) == 1 and len(rets) == 2, 'LOOKUP', func, rets[0] if rets else func.node,
            'both result forms are (extent, intent) in that order', 'return extent, intent / return extent.members(), intent.members()',
            '; '.join(f'{src(r.value)}: {S.sort(r.value)}' for r in rets))
    if len(raw_rets) == 1 and len(lab_rets) == 1:
        a, b = raw_rets[0].value.elts
        la, lb = lab_rets[0].value.elts
        same = (src(la) == f'{src(a)}.members()' and src(lb) == f'{src(b)}.members()')
        R.check(same, 'LOOKUP', func, lab_rets[0], 'raw and label forms derive from the same values', f'{src(a)}.members(), {src(b)}.members()',
                src(lab_rets[0].value))
        # raw form under the raw flag
        guard = [s for s in func.body if isinstance(s, ast.If) and raw_rets[0] in s.body]
        R.check(len(guard) == 1 and name_is(guard[0].test, p_raw), 'LOOKUP', func, raw_rets[0], 'raw form returned iff raw', f'if {p_raw}: return extent, intent')
    # intension / extension
    for name, cls, flip in (('intension', '_Objects', 'P'), ('extension', '_Properties', 'O')):
        f = model.func(f'contexts.PrimeMixin.{name}')
        Sf = Sorter(f)
        env = Env(f)
        rets = sorted((n for n in walk(f.body) if isinstance(n, ast.Return)), key=lambda n: n.lineno)
        vals = [env.expand(r.value) for r in rets]
        want = f'self.{cls}.frommembers({f.params[1]}).prime()'
        raws = [v for v in vals if src(v) == want]
        labs = [v for v in vals if src(v) == want + '.members()']
        matches = len(raws) == 1 and len(labs) == 1 and len(vals) == 2
        me = f.params[0]
        via_lookup = [n for n in walk(f.body) if (isinstance(n, ast.Subscript) and name_is(n.value, me))
                      or (isinstance(n, ast.Call) and chain(n.func) == [me, '__getitem__'])]
        slot = f'{name}: derivation of exactly the given collection, raw and label forms from the same value'
        if matches:
            R.ok('DERIVATION-API', f, f.node, slot, '; '.join(src(v) for v in vals))
        elif via_lookup:
            # a recognised wrong route: the concept lookup tries the labels as objects first and as properties second, closes
            # them and treats the empty key specially - none of which a single derivation does
            R.bad('DERIVATION-API', f, via_lookup[0], slot, f'{want} [.members()]', f'routed through the concept lookup: {src(via_lookup[0])[:60]}',
                  extra={'consequence': 'labels of the other kind are accepted, the empty collection and one-shot iterables behave differently'})
        else:
            R.unknown('DERIVATION-API', f, f.node, slot, 'computed differently: ' + '; '.join(src(v) for v in vals)[:160])
        guard = [s for s in f.body if isinstance(s, ast.If) and any(isinstance(b, ast.Return) for b in s.body)]
        ok = len(guard) == 1 and name_is(guard[0].test, f.params[2]) and src(env.expand(guard[0].body[0].value)) == want
        if matches:
            # the two forms were recognised: which of them the flag selects is a decided slot
            R.check(ok, 'DERIVATION-API', f, f.node, f'{name}: raw form returned iff raw', f'if raw: return <bit set>',
                    src(guard[0].test) if guard else 'no branch on the flag', strict=True)
        d = f.defaults().get(f.params[2])
        R.check(const(d, 'x') is False, 'API-DEFAULT', f, d or f.node, f'{name}: raw default False', 'False', src(d))


def lattice_rules(model, R):
    f = model.func('lattices.Data._make_mapping')
    r = [n.value for n in walk(f.body) if isinstance(n, ast.Return)]
    ok = False
    if len(r) == 1 and isinstance(r[0], ast.DictComp) and len(r[0].generators) == 1:
        g = r[0].generators[0]
        v = g.target.id if isinstance(g.target, ast.Name) else None
        ok = (chain(r[0].key) == [v, '_extent'] and name_is(r[0].value, v) and name_is(g.iter, f.params[-1]) and not g.ifs)
    R.check(ok, 'MAPPING', f, f.node, 'every member is keyed by its own extent', '{c._extent: c for c in concepts}', src(r[0]) if r else '')
    # _init stores the mapping of exactly the member list
    init = model.func('lattices.Data._init')
    inst = init.params[0]
    stores = {}
    for s in stmts(init.body):
        if isinstance(s, ast.Assign) and chain(s.targets[0]) and chain(s.targets[0])[0] == inst and len(chain(s.targets[0])) == 2:
            stores.setdefault(chain(s.targets[0])[1], []).append(s.value)
    p_ctx, p_con, p_map = init.params[1], init.params[2], init.params[3]
    R.check([src(v) for v in stores.get('_concepts', [])] == [p_con] and [src(v) for v in stores.get('_context', [])] == [p_ctx]
            and [src(v) for v in stores.get('_mapping', [])] == [p_map], 'MAPPING', init, init.node,
            '_init stores context, member list and mapping as given', f'_context={p_ctx}, _concepts={p_con}, _mapping={p_map}', str({k: [src(x) for x in v] for k, v in stores.items()}))
    dflt = [s for s in init.body if isinstance(s, ast.If) and src(s.test) == f'{p_map} is None']
    ok = False
    if dflt:
        a = dflt[0].body[0]
        ok = (isinstance(a, ast.Assign) and name_is(a.targets[0], p_map) and isinstance(a.value, ast.Call)
              and (chain(a.value.func) or [''])[-1] == '_make_mapping' and len(a.value.args) == 1
              and (chain(a.value.args[0]) == [inst, '_concepts'] or name_is(a.value.args[0], p_con)))
    R.check(ok, 'MAPPING', init, dflt[0] if dflt else init.node, 'a missing mapping is built from the same member list',
            f'if {p_map} is None: {p_map} = _make_mapping({inst}._concepts)')
    # __call__
    f = model.func('lattices.CollectionMixin.__call__')
    env = Env(f)
    S = Sorter(f)
    r = [env.expand(n.value) for n in walk(f.body) if isinstance(n, ast.Return)]
    ok = False
    if len(r) == 1 and isinstance(r[0], ast.Subscript) and chain(r[0].value) == ['self', '_mapping']:
        k = r[0].slice
        ok = (isinstance(k, ast.Call) and chain(k.func) == ['self', '_context', 'extension'] and name_is(k.args[0], f.params[1])
              and S.sort(k) == 'O')
    via_getitem = [n for n in walk(f.body) if isinstance(n, ast.Call) and chain(n.func) == ['self', '_context', '__getitem__']
                   and n.args and name_is(n.args[0], f.params[1])]
    if via_getitem and not ok:
        R.bad('MAPPING', f, via_getitem[0], 'lattice(properties): the member whose extent is the derivation of the properties',
              'self._mapping[self._context.extension(properties, raw=True)]', src(via_getitem[0]),
              extra={'consequence': 'Context.__getitem__ reads a collection as objects first: the empty property set (and any name clash) is closed as an '
                                    'object set - lattice(()) returns the bottom concept instead of the top'})
    else:
        R.check(ok, 'MAPPING', f, f.node, 'lattice(properties): the member whose extent is the derivation of the properties',
                'self._mapping[self._context.extension(properties, raw=True)]', src(r[0]) if r else '')
    # __getitem__ : read as a case analysis (path condition -> returned value), so early returns, if/elif/else and inverted tests are one thing
    f = model.func('lattices.CollectionMixin.__getitem__')
    S = Sorter(f)
    key = f.params[1]
    from ..astutil import context_of
    env = Env(f)
    cases = []
    for ret in sorted((n for n in walk(f.body) if isinstance(n, ast.Return) and n.value is not None), key=lambda n: n.lineno):
        ctx = context_of(f.body, ret) or []
        is_int = truthy = None
        order = []
        types_seen = None
        for c in ctx:
            if c[0] not in ('if', 'guard'):
                continue
            t0, neg0 = strip_not(c[1])
            if isinstance(t0, ast.Call) and name_is(t0.func, 'isinstance') and len(t0.args) == 2 and name_is(t0.args[0], key):
                types_seen = ({(chain(e) or ['?'])[-1] for e in (t0.args[1].elts if isinstance(t0.args[1], ast.Tuple) else [t0.args[1]])}, neg0, c)
                is_int = (c[2] != neg0)
                order.append('int')
            elif name_is(t0, key):
                truthy = (c[2] != neg0)
                order.append('key')
        cases.append((ret, is_int, truthy, order, types_seen))
    wrong_types = [(c[4][2], c[4]) for c in cases if c[4] is not None and not c[4][0] <= {'int', 'slice', 'Integral'}]
    int_case = [c for c in cases if isinstance(c[0].value, ast.Subscript) and chain(c[0].value.value) == ['self', '_concepts'] and name_is(c[0].value.slice, key)]
    top_case = [c for c in cases if chain(env.expand(c[0].value)) == ['self', 'supremum']]
    map_case = [c for c in cases if isinstance(env.expand(c[0].value), ast.Subscript) and chain(env.expand(c[0].value).value) == ['self', '_mapping']]
    if wrong_types:
        cnode, (types, neg0, _) = wrong_types[0]
        R.bad('MAPPING', f, cnode[1], 'lattice[i]: positions are told from label collections by being integers', f'isinstance({key}, (int, slice))',
              f'isinstance({key}, ({", ".join(sorted(types))}))' + (' negated' if neg0 else ''),
              extra={'consequence': 'a label collection of another type than the ones listed (set, frozenset, dict keys, generator) is used as a list index: TypeError'})
    else:
        ok = len(int_case) == 1 and int_case[0][1] is True
        R.check(ok, 'MAPPING', f, int_case[0][0] if int_case else f.node, 'lattice[i]: the i-th member of the iteration order',
                'if isinstance(key, (int, slice)): return self._concepts[key]', 'no such case' if not int_case else f'reached with isinstance(...) {int_case[0][1]}')
    if len(top_case) == 1 and top_case[0][2] is False:
        R.ok('MAPPING', f, top_case[0][0], 'lattice[()]: the top concept')
        # 0 is falsy: the integer dispatch must already have been decided on the path to the falsy-key case
        R.decided(top_case[0][1] is False and top_case[0][3].index('int') < top_case[0][3].index('key') if 'int' in top_case[0][3] else False,
                  'MAPPING', f, top_case[0][0], 'integer keys are dispatched before the falsy-key test (0 is falsy)', 'isinstance(key, (int, slice)) branch first',
                  'the "not key" test is reached by integer keys: lattice[0] returns the top concept')
    elif len(top_case) == 1 and top_case[0][2] is True:
        R.bad('MAPPING', f, top_case[0][0], 'lattice[()]: the top concept', 'if not key: return self.supremum', 'the top concept is returned for non-empty keys')
    else:
        R.unknown('MAPPING', f, f.node, 'lattice[()]: the top concept', f'{len(top_case)} cases returning self.supremum under a test of the key')
    ok = False
    last = map_case[0][0] if len(map_case) == 1 else f.body[-1]
    if len(map_case) == 1 and map_case[0][1] is not True and map_case[0][2] is not False:
        k = env.expand(map_case[0][0].value).slice
        ks = S.sort(k)
        if ks == 'P':
            R.bad('SORT', f, last, 'mapping key is an object set', 'extent', f'{src(k)}: property set')
        call = [s for s in stmts(f.body) if isinstance(s, ast.Assign) and isinstance(s.value, ast.Call) and chain(s.value.func) == ['self', '_context', '__getitem__']]
        ok = (ks == 'O' and len(call) == 1 and name_is(call[0].value.args[0], key)
              and any(k2.arg == 'raw' and const(k2.value) is True for k2 in call[0].value.keywords))
        if not call:
            e = env.expand(k)
            ok = ks == 'O' or (isinstance(e, ast.Subscript) and const(e.slice) == 0)
    R.check(ok, 'MAPPING', f, last, 'lattice[items]: the member whose extent is the closure of the query',
            'extent, intent = self._context.__getitem__(key, raw=True); return self._mapping[extent]', src(last))
    f = model.func('lattices.CollectionMixin.__iter__')
    R.returns(f, 'iter(self._concepts)', 'MAPPING', 'iteration is over the member list')
    f = model.func('lattices.CollectionMixin.__len__')
    R.returns(f, 'len(self._concepts)', 'MAPPING', 'len is that of the member list')


def run(model, R):
    R.floor('LOOKUP', 7)
    R.floor('MAPPING', 8)
    R.guard('LOOKUP', None, 'Context.__getitem__', getitem_rules, model, R)
    R.guard('MAPPING', None, 'Lattice lookups', lattice_rules, model, R)
    # the pair is only the closure pair if doubleprime is wired to this context's own table (shared with C01)
    from . import c01
    R.guard('WIRING', None, 'Relation.__new__', c01.relation_new, model, R)
    R.guard('WIRING', None, '_pair_with closures', c01.closure_rules, model, R)
    # a lattice loaded from an unordered serialisation is only the documented structure if the loaders forward raw (C06's rule)
    from . import c06 as _c06
    R.guard('ORDER', None, 'raw flag', _c06.raw_is_forwarded, model, R)
    return __doc__.strip()
