"""C12: agreement between the writer and the reader of every text format, registry and parameters.
Decides: registry exhaustiveness (every concrete Format has a dumper; table, cxt, csv and
python-literal have a loader; suffixes are distinct lower-case literals and inference and lookup
lower-case their key; load() passes frmat=None through to inference); symbol-table agreement
(Cxt.values is the inverse of Cxt.symbols; csv VALUES the inverse of SYMBOLS under str with
disjoint symbol sets for auto-detection; dumper and loader index the table by the same flag; the
table/wiki dumpers' true cell is a non-blank non-delimiter constant and the false cell blank, which
is what the loader's bool(cell.strip()) reads); cxt count lines and label blocks written and read in
the same order; the caller's encoding/dialect is overwritten only under "is None", reaches
open()/csv and both directions use the class newline; FIMI rows / concept .dat rows / literal
context rows list exactly the positions of the true cells resp. of the component selected by the
flag; API defaults of the convenience loaders.  Round-trip equality for every label alphabet,
csv quoting, encodings and third-party readability are runtime questions and not decided.
"""

import ast
import re

from ..astutil import Env, chain, src, walk, const, stmts, strip_not, is_none_test, canon_comp
from ..model import Unrecognised
from .c13 import name_is

LOADABLE = {'Table', 'Cxt', 'Csv', 'PythonLiteral'}


def concrete_formats(model):
    base = model.cls('formats.base.Format')
    out = []
    for mod in model.modules.values():
        if not mod.name.startswith('formats'):
            continue
        for c in mod.classes.values():
            if c is not base and base in model.mro(c):
                if not (c.aliases.get('__abstract__') is not None and const(c.aliases['__abstract__']) is True):
                    out.append(c)
    return sorted(out, key=lambda c: c.key)


def resolve_static(model, cls, name):
    """Method ``name`` of a format class: a def in the body, or ``name = staticmethod(func)`` -> module function."""
    for c in model.mro(cls):
        if c.key == 'formats.base.Format':
            return None
        if name in c.methods:
            return c.methods[name]
        v = c.aliases.get(name)
        if isinstance(v, ast.Call) and name_is(v.func, 'staticmethod') and v.args and isinstance(v.args[0], ast.Name):
            return c.module.funcs.get(v.args[0].id)
    return None


def registry(model, R):
    fmts = concrete_formats(model)
    R.check(len(fmts) >= 6, 'REGISTRY', 'formats', 'concepts/formats', 'concrete formats found', '>= 6 (table, cxt, csv, fimi, python-literal, wiki-table)',
            str([c.name for c in fmts]))
    suffixes = {}
    for c in fmts:
        d = resolve_static(model, c, 'dumpf')
        R.check(d is not None, 'REGISTRY', c.key, c.node, f'{c.name}: has a dumper', 'dumpf defined', 'inherits the abstract dumpf (NotImplementedError)')
        if c.name in LOADABLE:
            l = resolve_static(model, c, 'loadf')
            R.check(l is not None, 'REGISTRY', c.key, c.node, f'{c.name}: has a loader', 'loadf defined', 'inherits the abstract loadf (NotImplementedError)')
        sfx = c.aliases.get('suffix')
        if sfx is not None:
            v = const(sfx)
            ok = isinstance(v, str) and v.startswith('.') and v == v.lower()
            R.check(ok, 'REGISTRY', c.key, sfx, f'{c.name}: suffix is a lower-case literal', "'.xyz'", src(sfx))
            if v in suffixes:
                R.bad('REGISTRY', c.key, sfx, f'suffix {v} registered once', 'distinct suffixes', f'{suffixes[v]} and {c.name}')
            suffixes[v] = c.name
    want = {'.txt': 'Table', '.cxt': 'Cxt', '.csv': 'Csv', '.dat': 'Fimi', '.py': 'PythonLiteral'}
    R.check(suffixes == want, 'REGISTRY', 'formats', 'concepts/formats', 'suffix table', str(want), str(suffixes))
    meta_init = model.func('formats.base.FormatMeta.__init__')
    regs = {}
    for s in stmts(meta_init.body):
        if isinstance(s, ast.Assign) and isinstance(s.targets[0], ast.Subscript):
            regs[src(s.targets[0])] = src(s.value)
    R.check(regs.get('self.by_suffix[self.suffix]') == 'self.name' and regs.get('self._map[self.name]') == 'self', 'REGISTRY', meta_init, meta_init.node,
            'classes registered by suffix -> name and name -> class', 'by_suffix[self.suffix] = self.name; _map[self.name] = self', str(regs))
    nm = [s for s in stmts(meta_init.body) if isinstance(s, ast.Assign) and src(s.targets[0]) == 'self.name']
    R.check(bool(nm) and src(nm[0].value) == "tools.snakify(name, sep='-')", 'REGISTRY', meta_init, nm[0] if nm else meta_init.node,
            'default format name is the hyphenated class name', "tools.snakify(name, sep='-')", src(nm[0].value) if nm else '')
    gi = model.func('formats.base.FormatMeta.__getitem__')
    R.returns(gi, f'self._map[{gi.params[1]}.lower()]', 'REGISTRY', 'format lookup lower-cases the name')
    inf = model.func('formats.base.FormatMeta.infer_format')
    r = [src(n.value) for n in walk(inf.body) if isinstance(n, ast.Return)]
    sp = [s for s in inf.body if isinstance(s, ast.Assign) and 'splitext' in src(s.value)]
    split = f'os.path.splitext({inf.params[1]})'
    sfx = None       # the local that holds the second component of splitext(filename)
    if sp and isinstance(sp[0].targets[0], ast.Tuple) and len(sp[0].targets[0].elts) == 2 and src(sp[0].value) == split:
        sfx = src(sp[0].targets[0].elts[1])
    elif sp and isinstance(sp[0].targets[0], ast.Name) and src(sp[0].value) in (f'{split}[1]', f'{split}[-1]'):
        sfx = sp[0].targets[0].id
    ok = sfx is not None and r == [f'self.by_suffix[{sfx}.lower()]']
    keys = [n.slice for n in walk(inf.body) if isinstance(n, ast.Subscript) and src(n.value).endswith('by_suffix')]
    raw = [k for k in keys if isinstance(k, ast.Name) and sp and any(isinstance(t, ast.Name) and t.id == k.id for t in ast.walk(sp[0].targets[0]))
           and not any(isinstance(a, ast.Assign) and any(isinstance(t, ast.Name) and t.id == k.id for t in a.targets) for a in inf.body if a is not sp[0])]
    R.decided(not raw, 'REGISTRY', inf, raw[0] if raw else inf.node, 'the suffix is case-normalised before the table lookup',
              'by_suffix[suffix.lower()]', f'by_suffix[{src(raw[0])}] with the suffix exactly as os.path.splitext returned it' if raw else '',
              extra={'consequence': 'a finite table keyed by spelled-out suffixes cannot match every mixed-case spelling (.Csv, .cSv, ...)'})
    if raw:
        return
    R.check(ok, 'REGISTRY', inf, inf.node, 'inference looks the lower-cased file suffix up', '_, suffix = os.path.splitext(filename); self.by_suffix[suffix.lower()]', str(r))
    raises = [s for s in walk(inf.body) if isinstance(s, ast.Raise)]
    R.check(all('ValueError' in src(x.exc) for x in raises) and raises, 'REGISTRY', inf, inf.node, 'unknown suffix raises ValueError', 'raise ValueError(...)')
    # load() -> fromfile(frmat=None) -> inference
    ld = model.func('__init__.load')
    R.returns(ld, f'Context.fromfile({ld.params[0]}, {ld.params[2]}, {ld.params[1]})', 'REGISTRY', 'load() passes frmat and encoding on')
    R.check(const(ld.defaults().get(ld.params[2]), 'x') is None, 'API-DEFAULT', ld, ld.node, 'load(frmat) default None (= infer from the suffix)', 'None',
            src(ld.defaults().get(ld.params[2])))
    ff = model.func('contexts.Data.fromfile')
    g = [s for s in ff.body if isinstance(s, ast.If) and is_none_test(s.test) == (ff.params[2], True)]
    ok = bool(g) and src(g[0].body[0]) == f'{ff.params[2]} = formats.Format.infer_format({ff.params[1]})'
    R.check(ok, 'REGISTRY', ff, g[0] if g else ff.node, 'fromfile infers the format iff none is given', 'if frmat is None: frmat = formats.Format.infer_format(filename)')
    calls = [n for n in walk(ff.body) if isinstance(n, ast.Call) and isinstance(n.func, ast.Attribute) and n.func.attr == 'load']
    ok = len(calls) == 1 and src(calls[0].args[0]) == ff.params[1] and any(k.arg == 'encoding' and name_is(k.value, ff.params[3]) for k in calls[0].keywords)
    R.check(ok, 'PARAMS', ff, calls[0] if calls else ff.node, 'fromfile hands the caller\'s encoding to the format', 'frmat.load(filename, encoding=encoding, **kwargs)')
    tf = model.func('contexts.ExportableMixin.tofile')
    calls = [n for n in walk(tf.body) if isinstance(n, ast.Call) and isinstance(n.func, ast.Attribute) and n.func.attr == 'dump']
    ok = (len(calls) == 1 and [src(a) for a in calls[0].args] == [tf.params[1], 'self.objects', 'self.properties', 'self.bools']
          and any(k.arg == 'encoding' and name_is(k.value, tf.params[3]) for k in calls[0].keywords))
    R.check(ok, 'PARAMS', tf, calls[0] if calls else tf.node, 'tofile dumps the triple with the caller\'s encoding',
            'frmat.dump(filename, self.objects, self.properties, self.bools, encoding=encoding, **kwargs)')
    fs = model.func('contexts.Data.fromstring')
    calls = [n for n in walk(fs.body) if isinstance(n, ast.Call) and isinstance(n.func, ast.Attribute) and n.func.attr == 'loads']
    R.check(len(calls) == 1 and src(calls[0].args[0]) == fs.params[1], 'PARAMS', fs, fs.node, 'fromstring parses the given source', 'frmat.loads(source, **kwargs)')
    for f, last in ((fs, 'args'), (ff, 'args')):
        last = [n for n in f.body if isinstance(n, ast.Return)]
        v = last[-1].value if last else None
        if isinstance(v, ast.Call) and len(v.args) == 3 and all(isinstance(a, ast.Attribute) for a in v.args) \
                and len({src(a.value) for a in v.args}) == 1 and name_is(v.func, f.params[0]):
            R.decided([a.attr for a in v.args] == ['objects', 'properties', 'bools'], 'PARAMS', f, last[-1],
                      f'{f.name}: context built from the parsed triple', 'cls(args.objects, args.properties, args.bools)', src(v))
        else:
            R.unknown('PARAMS', f, last[-1] if last else f.node, f'{f.name}: context built from the parsed triple', src(v)[:100])
    # defaults
    for key, param, want in (('contexts.Data.fromstring', 'frmat', 'table'), ('contexts.Data.fromfile', 'frmat', 'cxt'), ('contexts.ExportableMixin.tofile', 'frmat', 'cxt'),
                             ('contexts.FormattingMixin.tostring', 'frmat', 'table'), ('definitions.Triple.fromfile', 'frmat', 'cxt'),
                             ('__init__.make_context', 'frmat', 'table')):
        f = model.func(key)
        d = f.defaults().get(param)
        R.check(const(d) == want, 'API-DEFAULT', f, d or f.node, f'{f.name}({param}) default', repr(want), src(d))
    for key, want in (('__init__.load_cxt', "Context.fromfile(filename, 'cxt', encoding)"),
                      ('__init__.load_csv', "Context.fromfile(filename, 'csv', encoding, dialect=dialect)"),
                      ('__init__.make_context', 'Context.fromstring(source, frmat)')):
        f = model.func(key)
        R.returns(f, want, 'PARAMS', f'{f.name} routes to the named format with the caller\'s arguments')
    df = model.func('definitions.Triple.fromfile')
    calls = [n for n in walk(df.body) if isinstance(n, ast.Call) and isinstance(n.func, ast.Attribute) and n.func.attr == 'load']
    ok = len(calls) == 1 and [src(a) for a in calls[0].args[:2]] == [df.params[1], df.params[3]]
    R.check(ok, 'PARAMS', df, calls[0] if calls else df.node, 'Definition.fromfile hands filename and encoding to the format', 'frmat.load(filename, encoding, **kwargs)')


def param_clobber(model, R):
    R.floor('PARAM-CLOBBER', 4)
    for key, param, dflt in (('formats.base.Format.load', 'encoding', 'cls.encoding'), ('formats.base.Format.dump', 'encoding', 'cls.encoding'),
                             ('formats.csv_context.Csv.loadf', 'dialect', 'cls.dialect'), ('formats.csv_context.Csv.dumpf', 'dialect', 'cls.dialect')):
        f = model.func(key)
        assigns = [s for s in stmts(f.body) if isinstance(s, ast.Assign) and any(name_is(t, param) for t in s.targets)]
        parents = {}
        for n in ast.walk(f.node):
            for c in ast.iter_child_nodes(n):
                parents[c] = n
        ok = True
        found = 'never reassigned'
        for a in assigns:
            par = parents.get(a)
            found = src(par)[:80] if par is not None else src(a)
            good = (isinstance(par, ast.If) and a in par.body and is_none_test(par.test) == (param, True) and src(a.value) == dflt)
            ok = ok and good
        # recognised: a single assignment of the class default under an If on "<param> is None" in some polarity
        recognised = (len(assigns) == 1 and isinstance(parents.get(assigns[0]), ast.If) and is_none_test(parents[assigns[0]].test) is not None
                      and is_none_test(parents[assigns[0]].test)[0] == param)
        if ok and len(assigns) == 1:
            R.ok('PARAM-CLOBBER', f, assigns[0], f'{f.name}: the caller\'s {param} is replaced by the class default only when it is None')
        elif recognised or not assigns:
            R.bad('PARAM-CLOBBER', f, assigns[0] if assigns else f.node, f'{f.name}: the caller\'s {param} is replaced by the class default only when it is None',
                  f'if {param} is None: {param} = {dflt}', found,
                  extra={'consequence': f'an explicitly given {param} would be ignored (and None passed on when none is given)'})
        else:
            R.unknown('PARAM-CLOBBER', f, assigns[0], f'{f.name}: handling of {param}', found)
        # reaches the consumer
        if param == 'encoding':
            opens = [n for n in walk(f.body) if isinstance(n, ast.Call) and name_is(n.func, 'open')]
            # builtin signature: open(file, mode='r', buffering=-1, encoding=None, errors=None, newline=None, closefd=True, opener=None)
            OPEN = ('file', 'mode', 'buffering', 'encoding', 'errors', 'newline', 'closefd', 'opener')
            oa = {}
            if len(opens) == 1 and not any(isinstance(a_, ast.Starred) for a_ in opens[0].args):
                oa = dict(zip(OPEN, opens[0].args))
                oa.update({k.arg: k.value for k in opens[0].keywords if k.arg})
            ok = len(opens) == 1 and 'encoding' in oa and name_is(oa['encoding'], param)
            nl = len(opens) == 1 and 'newline' in oa and src(oa['newline']) == 'cls.newline'
            R.check(ok, 'PARAMS', f, opens[0] if opens else f.node, f'{f.name}: file opened with that encoding', 'open(filename, ..., encoding=encoding, ...)',
                    f'encoding={src(oa.get("encoding"))}' if opens else 'no open()', strict=True if len(opens) == 1 else None)
            R.decided(nl, 'PARAMS', f, opens[0] if opens else f.node, f'{f.name}: file opened with the class newline (same in both directions)',
                      'newline=cls.newline', src(opens[0]) if opens else 'no open()')
            if f.name == 'dump':
                R.check(bool(opens) and const(oa.get('mode')) == 'w', 'PARAMS', f, opens[0] if opens else f.node, 'dump opens for writing', "'w'")
        else:
            target = 'reader' if f.name == 'loadf' else 'write_csv_file'
            calls = [n for n in walk(f.body) if isinstance(n, ast.Call) and (chain(n.func) or [''])[-1] == target]
            ok = len(calls) == 1 and any(k.arg == 'dialect' and name_is(k.value, param) for k in calls[0].keywords)
            # csv.reader(file, dialect=...) / write_csv_file(file, rows, header, dialect, encoding): one call found and no dialect in it
            # (neither keyword nor ** nor the positional slot) means the default dialect is used whatever the caller asked for
            dropped = (len(calls) == 1 and not any(k.arg in ('dialect', None) for k in calls[0].keywords)
                       and len(calls[0].args) <= (1 if target == 'reader' else 3) and not any(isinstance(a_, ast.Starred) for a_ in calls[0].args))
            R.check(ok, 'PARAMS', f, calls[0] if calls else f.node, f'{f.name}: csv {target} receives that dialect', f'{target}(..., dialect=dialect)',
                    (src(calls[0])[:100] + ' passes no dialect') if dropped else None, strict=True if dropped else None,
                    extra={'consequence': 'the text is written/read with the default dialect: a reader using the dialect the caller asked for gets other cells'} if dropped else None)
    # dumps / loads go through the same dumpf / loadf with the class newline
    ds = model.func('formats.base.Format.dumps')
    sio = [n for n in walk(ds.body) if isinstance(n, ast.Call) and (chain(n.func) or [''])[-1] == 'StringIO']
    R.check(len(sio) == 1 and any(k.arg == 'newline' and src(k.value) == 'cls.newline' for k in sio[0].keywords), 'PARAMS', ds, ds.node,
            'dumps writes through the class newline', 'io.StringIO(newline=cls.newline)')
    for key, meth in (('formats.base.Format.dump', 'dumpf'), ('formats.base.Format.dumps', 'dumpf')):
        f = model.func(key)
        calls = [n for n in walk(f.body) if isinstance(n, ast.Call) and chain(n.func) == ['cls', meth]]
        ok = len(calls) == 1 and [src(a) for a in calls[0].args[1:4]] == ['objects', 'properties', 'bools'] \
            and any(k.arg == '_serialized' and name_is(k.value, '_serialized') for k in calls[0].keywords)
        R.check(ok, 'PARAMS', f, calls[0] if calls else f.node, f'{f.name}: the triple and the serialized dict reach the dumper unchanged',
                'cls.dumpf(f, objects, properties, bools, _serialized=_serialized, **kwargs)')
    wf = model.func('tools.write_csv_file')
    calls = [n for n in walk(wf.body) if isinstance(n, ast.Call) and (chain(n.func) or [''])[-1] == 'writer']
    R.check(len(calls) == 1 and any(k.arg == 'dialect' and name_is(k.value, 'dialect') for k in calls[0].keywords), 'PARAMS', wf, wf.node,
            'write_csv_file passes its dialect to csv.writer', 'csv.writer(file, dialect=dialect)')


def _dict_literal(node):
    if isinstance(node, ast.Dict):
        return {const(k): (_dict_literal(v) if isinstance(v, ast.Dict) else const(v)) for k, v in zip(node.keys, node.values)}
    return None


def symbol_tables(model, R):
    R.floor('SYMBOLS', 8)
    # ---- cxt
    cm = model.module('formats.cxt')
    sym = _dict_literal(cm.assigns.get('SYMBOLS'))
    ok = isinstance(sym, dict) and set(sym) == {False, True} and all(isinstance(v, str) and len(v) == 1 and v.strip() for v in sym.values()) \
        and sym[False] != sym[True]
    R.check(ok, 'SYMBOLS', 'formats.cxt.SYMBOLS', cm.assigns.get('SYMBOLS') or cm.tree, 'cxt cell symbols: two distinct non-blank characters', "{False: '.', True: 'X'}", str(sym))
    cx = model.cls('formats.cxt.Cxt')
    R.check(src(cx.aliases.get('symbols')) == 'SYMBOLS', 'SYMBOLS', cx.key, cx.node, 'Cxt.symbols is the module table', 'SYMBOLS', src(cx.aliases.get('symbols')))
    v = cx.aliases.get('values')
    ok = (isinstance(v, ast.DictComp) and isinstance(v.generators[0].target, ast.Tuple) and src(v.generators[0].iter) == 'symbols.items()'
          and [src(v.key), src(v.value)] == [src(v.generators[0].target.elts[1]), src(v.generators[0].target.elts[0])] and not v.generators[0].ifs)
    R.check(ok, 'SYMBOLS', cx.key, v or cx.node, 'Cxt.values is the inverse of Cxt.symbols', '{s: b for b, s in symbols.items()}', src(v))
    lo = model.func('formats.cxt.Cxt.loadf')
    du = model.func('formats.cxt.Cxt.dumpf')
    uses_values = any(src(n) == 'cls.values.__getitem__' for n in walk(lo.body))
    uses_symbols = any(isinstance(n, ast.keyword) and n.arg == 'symbols' and src(n.value) == 'cls.symbols' for n in ast.walk(du.node))
    R.check(uses_values and uses_symbols, 'SYMBOLS', lo, lo.node, 'cxt loader decodes with values, dumper encodes with symbols', 'cls.values / cls.symbols')
    it = model.func('formats.cxt.iter_cxt_lines')
    ys = sorted((n for n in walk(it.body) if isinstance(n, (ast.Yield, ast.YieldFrom))), key=lambda n: n.lineno)
    p_obj, p_prop, p_bools = it.params[:3]

    def token(y):
        v = y.value
        if isinstance(y, ast.YieldFrom):
            return f'labels({v.id})' if isinstance(v, ast.Name) else '?'
        if isinstance(v, ast.Constant):
            return repr(v.value)
        lens = [n.args[0].id for n in ast.walk(v) if isinstance(n, ast.Call) and name_is(n.func, 'len') and n.args and isinstance(n.args[0], ast.Name)]
        names = {n.id for n in ast.walk(v) if isinstance(n, ast.Name)} - {'len', 'str', 'format'}
        if len(lens) == 1 and names == {lens[0]}:
            return f'count({lens[0]})'
        return '?'
    head = [y for y in ys if not any(isinstance(p_, ast.For) and any(n is y for n in ast.walk(p_)) for p_ in it.body)]
    seq = [token(y) for y in head]
    want = ["'B'", "''", f'count({p_obj})', f'count({p_prop})', "''", f'labels({p_obj})', f'labels({p_prop})']
    if '?' in seq:
        R.unknown('LAYOUT', it, it.node, 'cxt layout', f'unclassified header line in {seq}')
    else:
        R.decided(seq == want, 'LAYOUT', it, it.node, 'cxt layout: B, blank, #objects, #properties, blank, object labels, property labels, then rows',
                str(want), str(seq))
    rows = [s for s in it.body if isinstance(s, ast.For)]
    ok = False
    if rows:
        lp = rows[-1]
        y = [n for n in walk(lp.body) if isinstance(n, ast.Yield)]
        if len(y) == 1 and isinstance(y[0].value, ast.Call) and isinstance(y[0].value.func, ast.Attribute) and y[0].value.func.attr == 'join' \
                and const(y[0].value.func.value) == '' and isinstance(y[0].value.args[0], (ast.GeneratorExp, ast.ListComp)):
            g = y[0].value.args[0]
            ok = (name_is(lp.iter, p_bools) and src(g.generators[0].iter) == src(lp.target) and not g.generators[0].ifs
                  and isinstance(g.elt, ast.Subscript) and name_is(g.elt.value, it.params[3] if len(it.params) > 3 else 'symbols')
                  and src(g.elt.slice) == src(g.generators[0].target))
    R.soft(ok, 'LAYOUT', it, rows[-1] if rows else it.node, 'cxt rows: one line per row, one symbol per cell in column order', "''.join(symbols[value] for value in row)")
    env = Env(lo)
    st = {s.targets[0].id if isinstance(s.targets[0], ast.Name) else src(s.targets[0]): s.value for s in lo.body if isinstance(s, ast.Assign)}
    cnt = [v for k, v in st.items() if isinstance(v, ast.Call) and name_is(v.func, 'map') and v.args and name_is(v.args[0], 'int')]
    cnt_t = [k for k, v in st.items() if isinstance(v, ast.Call) and name_is(v.func, 'map') and v.args and name_is(v.args[0], 'int')]
    m = re.match(r'\((\w+), (\w+)\)$', cnt_t[0]) if cnt_t else None
    if not m or 'objects' not in st or 'properties' not in st:
        R.unknown('LAYOUT', lo, lo.node, 'cxt reader: counts and label slices', str({k: src(v) for k, v in st.items()})[:200])
    else:
        a, b_ = m.group(1), m.group(2)
        so, sp_ = src(st['objects']), src(st['properties'])
        good = so == f'lines[:{a}]' and sp_ in (f'lines[{a}:{a} + {b_}]', f'lines[{a}:{b_} + {a}]')
        recognised = re.match(r'lines\[.*\]$', so) and re.match(r'lines\[.*\]$', sp_)
        if good or not recognised:
            R.same(good, 'LAYOUT', lo, lo.node, 'cxt reader: counts read as (#objects, #properties), labels sliced in that order',
                   f'objects = lines[:{a}]; properties = lines[{a}:{a} + {b_}]', f'objects = {so}; properties = {sp_}')
        else:
            R.bad('LAYOUT', lo, lo.node, 'cxt reader: counts read as (#objects, #properties), labels sliced in that order',
                  f'objects = lines[:{a}]; properties = lines[{a}:{a} + {b_}] (the writer emits #objects first)', f'objects = {so}; properties = {sp_}')
    b = st.get('bools')
    ok = isinstance(b, ast.ListComp) and re.match(r'lines\[\w+ \+ \w+:\]$', src(b.generators[0].iter)) and 'cls.values' in src(b.elt)
    R.soft(bool(ok), 'LAYOUT', lo, b or lo.node, 'cxt reader: remaining lines are the rows, one cell per character', 'for l in lines[y + x:]', src(b))
    r = [src(n.value) for n in walk(lo.body) if isinstance(n, ast.Return)]
    R.soft(r == ['ContextArgs(objects, properties, bools)'], 'LAYOUT', lo, lo.node, 'cxt reader returns (objects, properties, bools)', 'ContextArgs(objects, properties, bools)', str(r))
    # ---- csv
    sm = model.module('formats.csv_context')
    sym = _dict_literal(sm.assigns.get('SYMBOLS'))
    ok = isinstance(sym, dict) and set(sym) == {False, True} and all(isinstance(t, dict) and set(t) == {False, True} for t in sym.values())
    if ok:
        strs = {k: {b: str(v) for b, v in t.items()} for k, t in sym.items()}
        distinct = all(t[False] != t[True] for t in strs.values())
        disjoint = not (set(strs[False].values()) & set(strs[True].values()))
        R.check(distinct, 'SYMBOLS', 'formats.csv_context.SYMBOLS', sm.assigns['SYMBOLS'], 'csv: true and false cells differ in each table', 'distinct symbols', str(strs))
        R.check(disjoint, 'SYMBOLS', 'formats.csv_context.SYMBOLS', sm.assigns['SYMBOLS'], 'csv: the two tables share no symbol (auto-detection is unambiguous)',
                'disjoint symbol sets', str(strs))
        R.check(strs[False] == {False: '', True: 'X'} and strs[True] == {False: '0', True: '1'}, 'SYMBOLS', 'formats.csv_context.SYMBOLS', sm.assigns['SYMBOLS'],
                'csv documented cells: X/blank and 1/0', "{False: {False: '', True: 'X'}, True: {False: 0, True: 1}}", str(sym))
    else:
        R.unknown('SYMBOLS', 'formats.csv_context.SYMBOLS', sm.tree, 'csv symbol tables', src(sm.assigns.get('SYMBOLS')))
    v = sm.assigns.get('VALUES')
    ok = False
    if isinstance(v, ast.DictComp) and isinstance(v.value, ast.DictComp):
        outer, inner = v.generators[0], v.value.generators[0]
        ok = (src(outer.iter) == 'SYMBOLS.items()' and isinstance(outer.target, ast.Tuple) and src(v.key) == src(outer.target.elts[0])
              and src(inner.iter) == f'{src(outer.target.elts[1])}.items()' and isinstance(inner.target, ast.Tuple)
              and src(v.value.key) == f'str({src(inner.target.elts[1])})' and src(v.value.value) == src(inner.target.elts[0]))
    R.check(ok, 'SYMBOLS', 'formats.csv_context.VALUES', v or sm.tree, 'csv VALUES is the inverse of SYMBOLS under str, per table',
            '{as_int: {str(s): v for v, s in symbols.items()} for as_int, symbols in SYMBOLS.items()}', src(v))
    cs = model.cls('formats.csv_context.Csv')
    R.check(src(cs.aliases.get('symbols')) == 'SYMBOLS' and src(cs.aliases.get('values')) == 'VALUES', 'SYMBOLS', cs.key, cs.node, 'Csv.symbols/values are the module tables',
            'symbols = SYMBOLS; values = VALUES')
    lo = model.func('formats.csv_context.Csv.loadf')
    du = model.func('formats.csv_context.Csv.dumpf')
    gv = [s for s in lo.body if isinstance(s, ast.Assign) and src(s.value) == 'cls.values[bools_as_int].__getitem__']
    sv = [s for s in du.body if isinstance(s, ast.Assign) and src(s.value) == 'cls.symbols[bools_as_int].__getitem__']
    R.check(bool(gv) and bool(sv), 'SYMBOLS', lo, lo.node, 'csv loader and dumper index their tables by the same flag', 'cls.values[bools_as_int] / cls.symbols[bools_as_int]')
    hd = [s for s in du.body if isinstance(s, ast.Assign) and name_is(s.targets[0], 'header')]
    R.soft(bool(hd) and src(hd[0].value) == '[object_header] + list(properties)', 'LAYOUT', du, hd[0] if hd else du.node, 'csv header: corner cell then the property labels',
            '[object_header] + list(properties)')
    rw = [s for s in du.body if isinstance(s, ast.Assign) and name_is(s.targets[0], 'rows')]
    R.soft(bool(rw) and src(rw[0].value) == '([o] + list(map(symbool, bs)) for o, bs in zip(objects, bools))', 'LAYOUT', du, rw[0] if rw else du.node,
            'csv rows: object label then one cell per property', '([o] + list(map(symbool, bs)) for o, bs in zip(objects, bools))', src(rw[0].value) if rw else '')
    hdr = [s for s in lo.body if isinstance(s, ast.Assign) and src(s.value) == 'next(reader)' and isinstance(s.targets[0], ast.Tuple)]
    ok = bool(hdr) and isinstance(hdr[0].targets[0].elts[1], ast.Starred) and src(hdr[0].targets[0].elts[1].value) == 'properties'
    R.soft(ok, 'LAYOUT', lo, hdr[0] if hdr else lo.node, 'csv reader: first row = corner cell then the property labels', 'object_header, *properties = next(reader)')
    loops = [s for s in lo.body if isinstance(s, ast.For) and src(s.iter) == 'rows']
    ok = bool(loops) and src(loops[0].target) == '(obj, *symbols)' and 'objects.append(obj)' in src(loops[0]) and 'bools.append(tuple(map(get_value, symbols)))' in src(loops[0])
    R.soft(ok, 'LAYOUT', lo, loops[0] if loops else lo.node, 'csv reader: each row = object label then the cells', 'for obj, *symbols in rows')
    # auto-detection keeps the sniffed first row
    chainrows = [s for s in walk(lo.body) if isinstance(s, ast.Assign) and name_is(s.targets[0], 'rows') and 'chain' in src(s.value)]
    R.soft(bool(chainrows) and src(chainrows[0].value) == 'itertools.chain([first_row], reader)', 'LAYOUT', lo, chainrows[0] if chainrows else lo.node,
            'csv reader: the row used for symbol detection is still loaded', 'rows = itertools.chain([first_row], reader)')
    # ---- table / wiki
    td = model.func('formats.table.dump_file')
    tl = model.func('formats.table.load_file')
    cells = [n for n in walk(td.body) if isinstance(n, ast.IfExp) and isinstance(const(n.body), str) and isinstance(const(n.orelse), str)]
    ok = False
    if len(cells) == 1:
        t, f_ = const(cells[0].body), const(cells[0].orelse)
        ok = bool(t.strip()) and '|' not in t and '#' not in t and not f_.strip() and name_is(cells[0].test, 'b')
    R.check(ok, 'SYMBOLS', td, cells[0] if cells else td.node, 'table: true cell is a non-blank non-delimiter constant, false cell is blank', "'X' if b else ''",
            src(cells[0]) if cells else '')
    ok = any(src(n) == 'bool(f.strip())' for n in walk(tl.body))
    R.check(ok, 'SYMBOLS', tl, tl.node, 'table reader: a cell is true iff it is not blank', 'bool(f.strip())')
    lines = [s for s in tl.body if isinstance(s, ast.Assign) and name_is(s.targets[0], 'lines')]
    ok = len(lines) == 2 and src(lines[0].value) == "(line.partition('#')[0].strip() for line in file)" and src(lines[1].value) == 'list(filter(None, lines))'
    R.soft(ok, 'LAYOUT', tl, lines[0] if lines else tl.node, 'table reader: comments cut at #, blank lines dropped', "line.partition('#')[0].strip(); filter(None, lines)")
    pr = [s for s in tl.body if isinstance(s, ast.Assign) and name_is(s.targets[0], 'properties')]
    R.soft(bool(pr) and src(pr[0].value) == "[p.strip() for p in lines[0].strip('|').split('|')]", 'LAYOUT', tl, pr[0] if pr else tl.node,
            'table reader: header cells between the bars are the property labels', "[p.strip() for p in lines[0].strip('|').split('|')]", src(pr[0].value) if pr else '')
    tb = [s for s in tl.body if isinstance(s, ast.Assign) and name_is(s.targets[0], 'table')]
    ok = bool(tb) and "objflags.partition('|')[::2] for objflags in lines[1:]" in src(tb[0].value) and "obj.strip()" in src(tb[0].value) \
        and "flags.strip('|').split('|')" in src(tb[0].value)
    R.soft(ok, 'LAYOUT', tl, tb[0] if tb else tl.node, 'table reader: row = label before the first bar, cells between the remaining bars',
            "obj, flags = objflags.partition('|')[::2]; flags.strip('|').split('|')")
    wr = sorted((n for n in walk(td.body) if isinstance(n, ast.Call) and name_is(n.func, 'write')), key=lambda n: n.lineno)
    ok = len(wr) == 2 and src(wr[0].args[0]) == "tmpl % (('',) + tuple(properties))" and src(wr[1].args[0]).startswith('tmpl % ((o,) + tuple(')
    R.soft(ok, 'LAYOUT', td, td.node, 'table writer: header row with empty corner, then label + cells per object', "tmpl % (('',) + tuple(properties)); tmpl % ((o,) + cells)")
    tm = [s for s in td.body if isinstance(s, ast.Assign) and name_is(s.targets[0], 'tmpl')]
    ok = bool(tm) and src(tm[0].value) == "' ' * indent + '|'.join((f'%-{w:d}s' for w in wd)) + '|'"
    R.soft(ok, 'LAYOUT', td, tm[0] if tm else td.node, 'table writer: cells joined and terminated by bars, after the indent', "' ' * indent + '|'.join(...) + '|'", src(tm[0].value) if tm else '')
    wk = model.func('formats.wiki_table.dump_file')
    cells = [n for n in walk(wk.body) if isinstance(n, ast.IfExp) and isinstance(const(n.body), str) and isinstance(const(n.orelse), str)]
    ok = len(cells) == 1 and const(cells[0].body).strip() and not const(cells[0].orelse).strip() and name_is(cells[0].test, 'b')
    if cells:
        R.check(bool(ok), 'SYMBOLS', wk, cells[0], 'wiki-table: true cell non-blank, false cell blank', "'X' if b else ''", src(cells[0]))
    else:
        # wiki-table has no reader in the package; without the conditional-constant idiom the cell texts are not decided
        R.soft(False, 'LAYOUT', wk, wk.node, 'wiki-table: true cell non-blank, false cell blank', "'X' if b else ''", 'cell texts computed differently')
    seq = [src(n.args[0]) for n in sorted((n for n in walk(wk.body) if isinstance(n, ast.Call) and name_is(n.func, 'write')), key=lambda n: n.lineno)]
    want = ["'{| class=\"featuresystem\"'", "'!'", "'!{}'.format('!!'.join(properties))", "'|-'", "f'!{o}'", "'|{}'.format('||'.join(bcells))", "'|}'"]
    R.soft(seq == want, 'LAYOUT', wk, wk.node, 'wiki-table layout: header cells with !!, one |- row per object with || cells', str(want), str(seq))


def csv_rows_conserved(model, R):
    """Every data row the csv reader yields reaches the row loop: on each path through ``Csv.loadf`` the rows read ahead
    with ``next(reader)`` (after the header) are exactly the ones put back in front of the reader
    (``itertools.chain([row, ...], reader)``), and nothing when none was read."""
    lo = model.func('formats.csv_context.Csv.loadf')
    readers = [s.targets[0].id for s in lo.body if isinstance(s, ast.Assign) and isinstance(s.targets[0], ast.Name)
               and isinstance(s.value, ast.Call) and (chain(s.value.func) or [''])[-1] == 'reader']
    if len(readers) != 1:
        R.unknown('ROWS', lo, lo.node, 'csv loader: reader object', f'{len(readers)} csv.reader(...) bindings')
        return
    rd = readers[0]
    results = []        # (path description, consumed names, rows expression or None)

    def is_next(v):
        return isinstance(v, ast.Call) and name_is(v.func, 'next') and v.args and name_is(v.args[0], rd)

    def run(block, st, conds):
        """st = dict(header=bool, ahead=[names], rows=expr)"""
        for k, stmt in enumerate(block):
            rest = block[k + 1:]
            if isinstance(stmt, ast.Assign) and is_next(stmt.value):
                if not st['header']:
                    st = dict(st, header=True)
                elif isinstance(stmt.targets[0], ast.Name):
                    st = dict(st, ahead=st['ahead'] + [stmt.targets[0].id])
                else:
                    st = dict(st, ahead=st['ahead'] + ['<' + src(stmt.targets[0]) + '>'])
                continue
            if any(is_next(n) for n in ast.walk(stmt)) and not isinstance(stmt, (ast.If, ast.Try, ast.For, ast.While)):
                st = dict(st, ahead=st['ahead'] + ['<discarded ' + src(stmt)[:30] + '>'])
                continue
            if isinstance(stmt, ast.Assign) and len(stmt.targets) == 1 and name_is(stmt.targets[0], 'rows'):
                st = dict(st, rows=stmt.value)
                continue
            if isinstance(stmt, ast.If):
                ok1 = run(list(stmt.body) + rest, st, conds + [src(stmt.test)])
                ok2 = run(list(stmt.orelse) + rest, st, conds + ['not (' + src(stmt.test) + ')'])
                return ok1 and ok2
            if isinstance(stmt, (ast.Return, ast.Raise)):
                if isinstance(stmt, ast.Return):
                    results.append((conds, st, stmt))
                return True
            if isinstance(stmt, ast.For) and st['rows'] is not None and (name_is(stmt.iter, 'rows')):
                results.append((conds, st, stmt))
                return True
            if isinstance(stmt, (ast.For, ast.While, ast.Try, ast.With)) and any(is_next(n) for n in ast.walk(stmt)):
                return False
            # statements of a loop / try that do not touch the reader: their inner raise/else structure does not change the rows
        results.append((conds, st, None))
        return True

    if not run(list(lo.body), dict(header=False, ahead=[], rows=None), []):
        R.unknown('ROWS', lo, lo.node, 'csv loader: rows read ahead', 'next(reader) inside a loop / try')
        return
    seen = 0
    for conds, st, at in results:
        if at is None or not isinstance(at, ast.For):
            continue
        seen += 1
        rows = st['rows']
        where = ' and '.join(conds) or 'always'
        if st['ahead']:
            ok = (isinstance(rows, ast.Call) and (chain(rows.func) or [''])[-1] == 'chain' and len(rows.args) == 2
                  and isinstance(rows.args[0], (ast.List, ast.Tuple)) and [src(e) for e in rows.args[0].elts] == st['ahead'] and name_is(rows.args[1], rd))
            want = f'itertools.chain([{", ".join(st["ahead"])}], {rd})'
        else:
            ok = name_is(rows, rd)
            want = rd
        R.decided(ok, 'ROWS', lo, at, f'csv loader: every data row reaches the row loop (path: {where[:80]})', f'rows = {want}',
                  f'rows = {src(rows)} after reading ahead {st["ahead"] or "nothing"}',
                  extra={'consequence': 'a row consumed by next(reader) and not chained back is lost: the first object of the file disappears'} if not ok else None)
    if not seen:
        R.unknown('ROWS', lo, lo.node, 'csv loader: row loop', 'no "for ... in rows" reached')


def label_fidelity(model, R):
    """Labels pass through the csv loader and the python-literal writer untouched (these two formats promise to represent
    any printable text): the csv loader returns exactly the cells the reader produced, the literal writer emits each
    label once through repr() on one line."""
    lo = model.func('formats.csv_context.Csv.loadf')
    rets = [n for n in walk(lo.body) if isinstance(n, ast.Return) and n.value is not None]
    R.same(len(rets) == 1 and src(rets[0].value) == 'ContextArgs(objects, properties, bools)', 'FIDELITY', lo, rets[0] if rets else lo.node,
           'csv loader returns the collected labels and cells as they were read', 'ContextArgs(objects, properties, bools)',
           src(rets[0].value) if rets else 'no return')
    touched = [n for n in walk(lo.body) if isinstance(n, ast.Call) and isinstance(n.func, ast.Attribute)
               and n.func.attr in ('strip', 'lstrip', 'rstrip', 'lower', 'upper', 'title', 'replace', 'split', 'splitlines', 'casefold', 'translate')]
    R.decided(not touched, 'FIDELITY', lo, touched[0] if touched else lo.node, 'csv loader does not normalise label text', 'labels stored as read',
              src(touched[0]) if touched else '')
    for key in ('formats.base.Format.loads', 'formats.base.Format.load'):
        fl = model.func(key)
        touched = [n for n in walk(fl.body) if isinstance(n, ast.Call) and isinstance(n.func, ast.Attribute)
                   and n.func.attr in ('strip', 'lstrip', 'rstrip', 'lower', 'upper', 'replace', 'splitlines', 'expandtabs', 'casefold', 'translate')]
        R.decided(not touched, 'FIDELITY', fl, touched[0] if touched else fl.node, f'{fl.name}: the text reaches the format reader as given', 'no normalisation of the source',
                  src(touched[0]) if touched else '', extra={'consequence': 'leading/trailing blanks, tabs or line breaks are data in the csv dialects (an empty corner '
                                                                           'cell, trailing blank cells): stripping them changes the parsed table'} if touched else None)
    tl = model.func('formats.table.load_file')
    lines = [s_ for s_ in tl.body if isinstance(s_, ast.Assign) and name_is(s_.targets[0], 'lines')]
    R.same(len(lines) == 2 and src(lines[0].value) == "(line.partition('#')[0].strip() for line in file)" and src(lines[1].value) == 'list(filter(None, lines))',
           'FIDELITY', tl, lines[-1] if lines else tl.node, 'table reader: only comments and blank lines are dropped (every other line is a table row)',
           "line.partition('#')[0].strip(); list(filter(None, lines))", '; '.join(src(x.value)[:70] for x in lines))
    literal_labels(model, R)


def literal_labels(model, R):
    """python-literal writer: every label goes through repr() (the inverse of the reader's ast.literal_eval), the whole
    list on one line."""
    df = model.func('formats.python_literal.dump_file')
    it = df.nested.get('iterlines')
    if it is None:
        R.unknown('FIDELITY', df, df.node, 'python-literal writer: label lines', 'nested iterlines not found')
        return
    lines = [n for n in walk(it.body) if isinstance(n, ast.Assign) and len(n.targets) == 1 and src(n.targets[0]) == 'line']
    if len(lines) != 1:
        R.unknown('FIDELITY', it, it.node, 'python-literal writer: label line', f'{len(lines)} assignments to line')
    else:
        R.expr(lines[0].value, "', '.join(map(repr, doc[key]))", 'FIDELITY', it, 'python-literal writer: labels quoted by repr()',
               consequence='a label the quoting function does not escape exactly as repr() does (backslash, quote, control character) '
                           'is read back as a different string or makes the file unloadable')
    R.same("[f'{indent * 2}{line},']" in src(it.node), 'FIDELITY', it, it.node,
           'python-literal writer: the label list on one line (a Python literal cannot be re-wrapped at blanks)',
           "yield from itersection(key, [f'{indent * 2}{line},'])", 'label line emitted differently')


def index_exports(model, R):
    R.floor('INDEX-EXPORT', 5)
    f = model.func('formats.fimi.iter_fimi_rows')
    ys = [n for n in walk(f.body) if isinstance(n, ast.Yield)]
    ok = False
    if len(ys) == 1 and isinstance(ys[0].value, ast.ListComp):
        lc = ys[0].value
        g = lc.generators[0]
        ok = (isinstance(g.iter, ast.Call) and name_is(g.iter.func, 'enumerate') and isinstance(g.target, ast.Tuple) and len(g.ifs) == 1
              and src(lc.elt) == src(g.target.elts[0]) and src(g.ifs[0]) == src(g.target.elts[1]) and len(g.iter.args) == 1)
    loop = [s for s in f.body if isinstance(s, ast.For)]
    ok = ok and bool(loop) and src(loop[0].iter) == f.params[0] and src(ys[0].value.generators[0].iter.args[0]) == src(loop[0].target)
    R.check(ok, 'INDEX-EXPORT', f, f.node, 'FIMI rows: positions of exactly the true cells of each row', '[i for i, value in enumerate(row) if value]',
            src(ys[0].value) if ys else '')
    # one line per object: the yield inside the row loop is unconditional
    if loop and len(ys) == 1:
        direct = any(isinstance(s, ast.Expr) and s.value is ys[0] for s in loop[0].body)
        guarded = [s for s in loop[0].body if isinstance(s, ast.If) and any(n is ys[0] for n in walk(s.body + s.orelse))]
        if direct:
            R.ok('INDEX-EXPORT', f, ys[0], 'FIMI rows: one row per object, also for an object without properties')
        elif guarded:
            R.bad('INDEX-EXPORT', f, guarded[0], 'FIMI rows: one row per object, also for an object without properties', 'an unconditional yield per row',
                  f'yield guarded by {src(guarded[0].test)}', extra={'consequence': 'a skipped row shifts every later line to the wrong object'})
        else:
            R.unknown('INDEX-EXPORT', f, f.node, 'FIMI rows: one row per object', 'yield not directly in the row loop')
    d = model.func('formats.fimi.dump_file')
    ok = any(src(n) == 'iter_fimi_rows(bools)' for n in walk(d.body)) and any(
        isinstance(n, ast.Call) and (chain(n.func) or [''])[-1] == 'write_csv_file' and any(k.arg == 'dialect' and src(k.value) == 'FimiDialect' for k in n.keywords)
        for n in walk(d.body))
    R.check(ok, 'INDEX-EXPORT', d, d.node, 'FIMI dump writes those rows space-separated', 'tools.write_csv_file(file, iter_fimi_rows(bools), dialect=FimiDialect)')
    fd = model.cls('formats.fimi.FimiDialect')
    R.check(const(fd.aliases.get('delimiter')) == ' ' and const(fd.aliases.get('lineterminator')) == '\n', 'INDEX-EXPORT', fd.key, fd.node,
            'FIMI dialect: space-delimited, newline-terminated', "delimiter=' ', lineterminator='\\n'")
    w = model.func('formats.fimi.write_concepts_dat')
    env = Env(w)
    rows = env.single('rows')
    ok = False
    if isinstance(rows, ast.IfExp) and name_is(rows.test, 'extents'):
        def comp(g, idx):
            return (isinstance(g, ast.GeneratorExp) and isinstance(g.generators[0].target, ast.Tuple) and len(g.generators[0].target.elts) == 2
                    and src(g.generators[0].iter) == w.params[1] and not g.generators[0].ifs
                    and src(g.elt) == f'list({src(g.generators[0].target.elts[idx])}.iter_set())')
        ok = comp(rows.body, 0) and comp(rows.orelse, 1)
    R.check(ok, 'INDEX-EXPORT', w, rows or w.node, 'concept .dat rows: members of the extent under the flag, of the intent otherwise',
            '(list(extent.iter_set()) for extent, _ in ...) if extents else (list(intent.iter_set()) for _, intent in ...)', src(rows)[:160] if rows else '')
    R.check(const(w.defaults().get('extents'), 'x') is False, 'API-DEFAULT', w, w.node, 'write_concepts_dat(extents) default False (intents)', 'False')
    cl = model.func('_common.ConceptList.tofile')
    ok = any(src(n) == 'formats.write_concepts_dat(filename, self, **kwargs)' for n in walk(cl.body))
    R.check(ok, 'INDEX-EXPORT', cl, cl.node, 'ConceptList.tofile writes its own concepts', 'formats.write_concepts_dat(filename, self, **kwargs)')
    rd = model.func('formats.fimi.read_concepts_dat')
    ok = any(src(n) == 'tuple(map(int, values))' for n in walk(rd.body))
    R.check(ok, 'INDEX-EXPORT', rd, rd.node, 'read_concepts_dat: one integer tuple per line', 'tuple(map(int, values))')
    # python-literal context rows
    pd = model.func('formats.python_literal.dump_file')
    want_rows = canon_comp(ast.parse('[tuple((i for i, b in enumerate(row) if b)) for row in bools]', mode='eval').body)
    ok = any(isinstance(n, ast.ListComp) and canon_comp(n) == want_rows for n in walk(pd.body))
    R.check(ok, 'INDEX-EXPORT', pd, pd.node, 'python-literal context rows: positions of exactly the true cells', '[tuple(i for i, b in enumerate(row) if b) for row in bools]')
    pl = model.func('formats.python_literal.load_file')
    text = src(pl.node)
    ok = ("[[False for _ in args['properties']] for _ in args['objects']]" in text and "for row, true_indexes in zip(bools, args['context']):" in text
          and 'row[i] = True' in text)
    R.same(ok, 'INDEX-EXPORT', pl, pl.node, 'python-literal reader: all cells false, listed positions true, row by row',
            "bools = [[False ...]]; for row, true_indexes in zip(bools, args['context']): row[i] = True")


def run(model, R):
    R.floor('REGISTRY', 15)
    R.floor('LAYOUT', 2)
    R.guard('REGISTRY', None, 'registry', registry, model, R)
    R.guard('PARAM-CLOBBER', None, 'parameters', param_clobber, model, R)
    R.guard('SYMBOLS', None, 'symbol tables', symbol_tables, model, R)
    R.guard('INDEX-EXPORT', None, 'index exports', index_exports, model, R)
    R.guard('FIDELITY', None, 'label fidelity', label_fidelity, model, R)
    R.guard('ROWS', None, 'csv rows', csv_rows_conserved, model, R)
    return __doc__.strip()
