"""C16: relations() classifies each pair of contingent properties once and correctly.
Decides: the pattern tables in the docstrings of junctors.Unary/Binary (decoded from the AST
constants the way RelationMeta parses them) cover exactly the feasible patterns - computed, not
listed: all subsets of {TT,TF,FT,FF} in which each column takes both values; the non-empty subsets
of {T,F} - and bind each to the kind the statement names; ranks are distinct integers in the
documented order; RelationMeta.__call__ dispatches on frozenset(pairs) and rewrites Replication to
Implication with the operands swapped; Relations.__init__ pairs the contingent items with
combinations(.., 2) in item order, zips the two columns in the same left/right order, adds unary
entries only on request and sorts by rank alone; Context.relations passes the property columns;
printing an empty list is defined (no max()/min() over a possibly empty iterable without default).
"""

import ast
import itertools

from ..astutil import Env, chain, src, walk, const, stmts
from ..model import Unrecognised
from .c13 import name_is

KIND_SPEC = {
    frozenset({'TT', 'FF'}): 'equivalent',
    frozenset({'TF', 'FT'}): 'complement',
    frozenset({'TF', 'FT', 'FF'}): 'incompatible',
    frozenset({'TT', 'FT', 'FF'}): 'implication',
    frozenset({'TT', 'TF', 'FF'}): 'replication',
    frozenset({'TT', 'TF', 'FT'}): 'subcontrary',
    frozenset({'TT', 'TF', 'FT', 'FF'}): 'orthogonal',
}
UNARY_SPEC = {frozenset({'T', 'F'}): 'contingency', frozenset({'F'}): 'contradiction', frozenset({'T'}): 'tautology'}
RANK_ORDER = ['contradiction', 'tautology', 'contingency',
              'equivalent', 'complement', 'incompatible', 'implication', 'replication', 'subcontrary', 'orthogonal']


def feasible_binary():
    cells = ['TT', 'TF', 'FT', 'FF']
    out = set()
    for r in range(1, 5):
        for sub in itertools.combinations(cells, r):
            lefts = {c[0] for c in sub}
            rights = {c[1] for c in sub}
            if lefts == {'T', 'F'} and rights == {'T', 'F'}:
                out.add(frozenset(sub))
    return out


def decode(doc):
    """Parse the table exactly as RelationMeta.__init__ does."""
    table = doc.strip().partition('\n\n')[2].strip().splitlines()
    header = [h.strip() for h in table[0].strip().strip('|').split('|')]
    rows = []
    for l in table[1:]:
        obj, _, props = l.strip().strip('|').partition('|')
        parts = obj.split()
        if len(parts) != 3:
            raise Unrecognised(f'table row does not have "name symbol order": {l!r}')
        name, symbol, order = parts
        flags = [bool(p.strip()) for p in props.split('|')]
        if len(flags) != len(header):
            raise Unrecognised(f'table row has {len(flags)} cells for {len(header)} columns: {l!r}')
        rows.append((name, symbol, int(order), frozenset(h for h, f in zip(header, flags) if f)))
    return header, rows


def tables(model, R):
    mod = model.module('junctors')
    R.floor('TABLE', 10)
    all_ranks = {}
    for clsname, spec, feasible, header_want in (
            ('Unary', UNARY_SPEC, set(UNARY_SPEC), ['T', 'F']),
            ('Binary', KIND_SPEC, feasible_binary(), ['TT', 'TF', 'FT', 'FF'])):
        cls = mod.classes.get(clsname)
        if cls is None or not cls.docstring:
            R.unknown('TABLE', f'junctors.{clsname}', mod.tree, 'docstring table', 'class or docstring missing')
            continue
        try:
            header, rows = decode(cls.docstring)
        except (Unrecognised, ValueError, IndexError) as e:
            R.unknown('TABLE', f'junctors.{clsname}', cls.node, 'docstring table', f'cannot decode: {e}')
            continue
        fn = f'junctors.{clsname}.__doc__'
        R.check(sorted(header) == sorted(header_want) and len(set(header)) == len(header), 'TABLE', fn, cls.node,
                f'{clsname}: column headers', str(header_want), str(header))
        patterns = {}
        for name, symbol, order, pat in rows:
            kind = name.lower()
            want = spec.get(pat)
            R.decided(want == kind, 'TABLE', fn, cls.node, f'{clsname} row {name}: pattern {sorted(pat)}',
                    f'kind {want!r} for the combinations {sorted(pat)}' if want else 'a feasible pattern',
                    f'{kind!r} bound to {sorted(pat)}')
            if pat in patterns:
                R.bad('TABLE', fn, cls.node, f'{clsname}: pattern {sorted(pat)} bound once', 'one row per pattern',
                      f'{patterns[pat]} and {name}')
            patterns[pat] = name
            if order in all_ranks:
                R.bad('TABLE', fn, cls.node, f'rank {order} used once', 'distinct ranks', f'{all_ranks[order]} and {kind}')
            all_ranks[order] = kind
        missing = feasible - set(patterns)
        extra = set(patterns) - feasible
        R.decided(not missing and not extra, 'TABLE', fn, cls.node, f'{clsname}: exhaustive over the feasible patterns',
                f'{len(feasible)} patterns', f'missing {[sorted(m) for m in missing]}, infeasible {[sorted(m) for m in extra]}')
    got = [all_ranks[k] for k in sorted(all_ranks)]
    R.check(got == RANK_ORDER, 'TABLE', 'junctors', mod.tree, 'ranks in the documented order', ' < '.join(RANK_ORDER), ' < '.join(got))


def meta_rules(model, R):
    init = model.func('junctors.RelationMeta.__init__')
    call = model.func('junctors.RelationMeta.__call__')
    # --- parser slots
    env = Env(init)
    sym = None
    for s in stmts(init.body):
        if isinstance(s, ast.Assign) and isinstance(s.value, ast.Dict) and len(s.value.keys) == 2:
            try:
                sym = {const(k): const(v) for k, v in zip(s.value.keys, s.value.values)}
            except Exception:
                pass
    R.check(sym == {'T': True, 'F': False}, 'DISPATCH', init, init.node, "symbols 'T'/'F' decode to True/False", "{'T': True, 'F': False}", str(sym))
    pats = [n for n in walk(init.body) if isinstance(n, ast.Call) and name_is(n.func, 'frozenset')]
    ok = False
    if len(pats) == 1 and isinstance(pats[0].args[0], ast.GeneratorExp):
        g = pats[0].args[0]
        gen = g.generators[0]
        ok = (isinstance(gen.target, ast.Tuple) and len(gen.target.elts) == 2 and name_is(g.elt, gen.target.elts[0].id)
              and len(gen.ifs) == 1 and name_is(gen.ifs[0], gen.target.elts[1].id)
              and isinstance(gen.iter, ast.Call) and name_is(gen.iter.func, 'zip'))
    R.check(ok, 'DISPATCH', init, pats[0] if pats else init.node, 'pattern = the column headers whose cell is marked',
            'frozenset(p for p, f in zip(properties, flags) if f)', src(pats[0]) if pats else 'none')
    ns = [n for n in walk(init.body) if isinstance(n, ast.Dict) and any(const(k) == 'order' for k in n.keys)]
    ok = False
    if ns:
        d = {const(k): v for k, v in zip(ns[0].keys, ns[0].values)}
        ok = (isinstance(d.get('order'), ast.Call) and name_is(d['order'].func, 'int')
              and isinstance(d.get('kind'), ast.Call) and isinstance(d['kind'].func, ast.Attribute) and d['kind'].func.attr == 'lower'
              and 'pattern' in d)
    R.check(ok, 'DISPATCH', init, ns[0] if ns else init.node, 'class namespace: order=int(order), kind=name.lower(), pattern',
            "{'order': int(order), 'kind': name.lower(), 'pattern': pattern, ...}", src(ns[0]) if ns else 'none')
    reg = [s for s in stmts(init.body) if isinstance(s, ast.Assign) and any(
        isinstance(t, ast.Subscript) and chain(t.value) and chain(t.value)[-1].endswith('__map') for t in s.targets)]
    ok = bool(reg) and any(isinstance(t, ast.Subscript) and name_is(t.slice, 'pattern') for t in reg[0].targets) and name_is(reg[0].value, 'cls')
    R.check(ok, 'DISPATCH', init, reg[0] if reg else init.node, 'each generated class registered under its pattern', 'self.__map[pattern] = cls')
    # --- __call__
    p_left, p_right, p_pairs = call.params[1:4]
    lookups = [n for n in walk(call.body) if isinstance(n, ast.Subscript) and chain(n.value) and chain(n.value)[-1].endswith('__map')]
    ok = (len(lookups) == 1 and isinstance(lookups[0].slice, ast.Call) and name_is(lookups[0].slice.func, 'frozenset')
          and name_is(lookups[0].slice.args[0], p_pairs))
    R.check(ok, 'DISPATCH', call, lookups[0] if lookups else call.node, 'dispatch on the set of occurring combinations',
            f'self.__map[frozenset({p_pairs})]', src(lookups[0]) if lookups else 'none')
    # Replication -> Implication with swap
    found = None
    for s in stmts(call.body):
        if isinstance(s, ast.If):
            tests = [(s.test, s.body)]
            cur = s
            while len(cur.orelse) == 1 and isinstance(cur.orelse[0], ast.If):
                cur = cur.orelse[0]
                tests.append((cur.test, cur.body))
            for t, body in tests:
                if (isinstance(t, ast.Compare) and len(t.ops) == 1 and isinstance(t.ops[0], (ast.Is, ast.Eq))
                        and name_is(t.comparators[0], 'Replication')):
                    found = body
    if found is None:
        R.bad('ORIENTATION', call, call.node, 'replication rewritten as implication', 'elif self is Replication: self = Implication; swap operands',
              'no Replication branch: a wider-to-narrower pair is reported as replication')
    else:
        to_impl = any(isinstance(s, ast.Assign) and name_is(s.value, 'Implication') and name_is(s.targets[0], call.params[0]) for s in found)
        swap = any(isinstance(s, ast.Assign) and isinstance(s.targets[0], ast.Tuple) and isinstance(s.value, ast.Tuple)
                   and [src(e) for e in s.targets[0].elts] == [p_left, p_right] and [src(e) for e in s.value.elts] == [p_right, p_left]
                   for s in found)
        R.check(to_impl, 'ORIENTATION', call, found[0], 'replication becomes implication', 'self = Implication', src(found))
        R.check(swap, 'ORIENTATION', call, found[0], 'operands swapped (narrower -> wider)', f'{p_left}, {p_right} = {p_right}, {p_left}', src(found))
    rets = [n for n in walk(call.body) if isinstance(n, ast.Return)]
    ok = (len(rets) == 1 and isinstance(rets[0].value, ast.Call) and [src(a) for a in rets[0].value.args] == [p_left, p_right])
    R.check(ok, 'ORIENTATION', call, rets[0] if rets else call.node, 'instance built from (left, right) in that order',
            f'super().__call__({p_left}, {p_right})', src(rets[0].value) if rets else 'none')
    # Unary/Binary constructors store what they are given
    for clsname, fields in (('Unary', ['left', 'bools']), ('Binary', ['left', 'right'])):
        f = model.func(f'junctors.{clsname}.__init__')
        stores = {}
        for s in stmts(f.body):
            if isinstance(s, ast.Assign) and chain(s.targets[0]) and chain(s.targets[0])[0] == f.params[0]:
                stores[chain(s.targets[0])[1]] = src(s.value)
        R.check(stores == dict(zip(fields, f.params[1:])), 'ORIENTATION', f, f.node, f'{clsname} stores its operands',
                str(dict(zip(fields, f.params[1:]))), str(stores))


def relations_init(model, R):
    func = model.func('junctors.Relations.__init__')
    env = Env(func)
    p_items, p_bools, p_flag = func.params[1:4]
    # unary = [Relation(i, None, bools) for i, bools in zip(items, booleans)]
    un = env.single('unary')
    ok = False
    if isinstance(un, ast.ListComp) and len(un.generators) == 1:
        g = un.generators[0]
        ok = (isinstance(g.iter, ast.Call) and name_is(g.iter.func, 'zip') and [src(a) for a in g.iter.args] == [p_items, p_bools]
              and isinstance(g.target, ast.Tuple) and isinstance(un.elt, ast.Call) and name_is(un.elt.func, 'Relation')
              and len(un.elt.args) == 3 and src(un.elt.args[0]) == src(g.target.elts[0]) and src(un.elt.args[2]) == src(g.target.elts[1])
              and not g.ifs)
    R.check(ok, 'PAIRING', func, un or func.node, 'one unary entry per item, item aligned with its column',
            f'[Relation(i, None, bools) for i, bools in zip({p_items}, {p_bools})]', src(un))
    # combinations(<contingent (left, bools) in item order>, 2)
    combos = [n for n in walk(func.body) if isinstance(n, ast.Call) and (chain(n.func) or [''])[-1] == 'combinations']
    if len(combos) != 1:
        R.unknown('PAIRING', func, func.node, 'unordered pairs of contingent items', f'{len(combos)} combinations() calls')
        return
    c = combos[0]
    R.check(len(c.args) == 2 and const(c.args[1]) == 2, 'PAIRING', func, c, 'each unordered pair once', 'combinations(..., 2)', src(c)[:80])
    srcgen = c.args[0]
    if isinstance(srcgen, ast.Name) and env.single(srcgen.id) is not None:
        srcgen = env.single(srcgen.id)
    ok = False
    filt_cls = None
    recognised_gen = False
    if isinstance(srcgen, (ast.GeneratorExp, ast.ListComp)) and len(srcgen.generators) == 1:
        g = srcgen.generators[0]
        recognised_gen = True
        it = env.expand(g.iter, alias_only=True)
        in_order = name_is(g.iter, 'unary')
        if len(g.ifs) == 1:
            t = g.ifs[0]
            if isinstance(t, ast.Compare) and isinstance(t.ops[0], (ast.Is, ast.Eq)):
                filt_cls = src(t.comparators[0])
            elif isinstance(t, ast.Call) and name_is(t.func, 'isinstance'):
                filt_cls = src(t.args[1])
        elt_ok = (isinstance(srcgen.elt, ast.Tuple) and len(srcgen.elt.elts) == 2
                  and chain(srcgen.elt.elts[0]) == [src(g.target), 'left'] and chain(srcgen.elt.elts[1]) == [src(g.target), 'bools'])
        ok = in_order and elt_ok
    R.check(ok, 'PAIRING', func, c, 'pairs drawn from the unary entries in item order, carrying (item, column)',
            '((u.left, u.bools) for u in unary if ...)', src(srcgen)[:100])
    if not recognised_gen:
        R.unknown('PAIRING', func, c, 'only contingent items are paired', f'source of the pairs: {src(srcgen)[:80]}')
    elif filt_cls is None and not srcgen.generators[0].ifs:
        R.bad('PAIRING', func, c, 'only contingent items are paired', 'u.__class__ is Contingency', 'no filter: tautologies and contradictions are paired, too')
    elif filt_cls is None:
        R.unknown('PAIRING', func, c, 'only contingent items are paired', src(srcgen.generators[0].ifs[0]))
    else:
        R.decided(filt_cls == 'Contingency', 'PAIRING', func, c, 'only contingent items are paired', 'u.__class__ is Contingency', f'filter class {filt_cls}')
    # binary = (Relation(l, r, zip(lbools, rbools)) for (l, lbools), (r, rbools) in combos)
    bins = [n for n in walk(func.body) if isinstance(n, (ast.GeneratorExp, ast.ListComp)) and isinstance(n.elt, ast.Call)
            and name_is(n.elt.func, 'Relation') and len(n.elt.args) == 3 and isinstance(n.elt.args[2], ast.Call)]
    if len(bins) != 1:
        R.unknown('PAIRING', func, func.node, 'binary entries', f'{len(bins)} candidate generators')
    else:
        b = bins[0]
        g = b.generators[0]
        ok = False
        if (isinstance(g.target, ast.Tuple) and len(g.target.elts) == 2 and all(isinstance(e, ast.Tuple) and len(e.elts) == 2 for e in g.target.elts)):
            (l, lb), (r, rb) = [[src(x) for x in e.elts] for e in g.target.elts]
            a = b.elt.args
            z = a[2]
            ok = (src(a[0]) == l and src(a[1]) == r and name_is(z.func, 'zip') and [src(x) for x in z.args] == [lb, rb] and not g.ifs)
            src_ok = src(env.expand(g.iter, alias_only=True)) in ('combos', src(c))
            ok = ok and (src(env.expand(g.iter)) == src(env.expand(c)) or src(g.iter) == src(c))
        R.check(ok, 'PAIRING', func, b, 'columns zipped in the same left/right order as the items',
                'Relation(l, r, zip(lbools, rbools)) for (l, lbools), (r, rbools) in combos', src(b)[:120])
    # members: unary only with include_unary
    mem = env.single('members')
    ok = False
    if isinstance(mem, ast.IfExp) and name_is(mem.test, p_flag):
        with_u = mem.body
        without = mem.orelse
        ok = (isinstance(with_u, ast.Call) and (chain(with_u.func) or [''])[-1] == 'chain'
              and sorted(src(a) for a in with_u.args) == ['binary', 'unary'] and name_is(without, 'binary'))
    R.check(ok, 'PAIRING', func, mem or func.node, 'unary entries only with include_unary', 'chain(unary, binary) if include_unary else binary', src(mem))
    d = func.defaults().get(p_flag)
    R.check(const(d, 'x') is False, 'API-DEFAULT', func, d or func.node, 'include_unary default', 'False', src(d))
    # sort by rank alone (stable)
    sorts = [n for n in walk(func.body) if isinstance(n, ast.Call) and isinstance(n.func, ast.Attribute) and n.func.attr == 'sort']
    ok = False
    if len(sorts) == 1 and not sorts[0].args:
        kws = {k.arg: k.value for k in sorts[0].keywords}
        key = kws.get('key')
        if set(kws) == {'key'}:
            if isinstance(key, ast.Lambda) and chain(key.body) == [key.args.args[0].arg, 'order']:
                ok = True
            elif isinstance(key, ast.Call) and (chain(key.func) or [''])[-1] == 'attrgetter' and [const(a) for a in key.args] == ['order']:
                ok = True
    R.check(ok, 'PAIRING', func, sorts[0] if sorts else func.node, 'sorted by the kind rank alone (stable in item order)',
            'self.sort(key=lambda r: r.order)', src(sorts[0]) if sorts else 'no sort')
    # Context.relations passes the property columns
    f = model.func('contexts.Context.relations')
    rets = [n for n in walk(f.body) if isinstance(n, ast.Return)]
    ok = False
    if len(rets) == 1 and isinstance(rets[0].value, ast.Call) and (chain(rets[0].value.func) or [''])[-1] == 'Relations':
        a = rets[0].value.args
        ok = (len(a) == 3 and chain(a[0]) == ['self', 'properties'] and isinstance(a[1], ast.Call)
              and chain(a[1].func) == ['self', '_extents', 'bools'] and name_is(a[2], f.params[1]))
    R.check(ok, 'PAIRING', f, rets[0] if rets else f.node, 'properties passed with their column vectors',
            'junctors.Relations(self.properties, self._extents.bools(), include_unary)', src(rets[0].value) if rets else '')
    d = f.defaults().get(f.params[1])
    R.check(const(d, 'x') is False, 'API-DEFAULT', f, d or f.node, 'relations(include_unary) default', 'False', src(d))


def empty_reduce(model, R, modules=('junctors',)):
    """max()/min() of a possibly-empty iterable without default=, outside try/except ValueError."""
    n = 0
    for modname in modules:
        mod = model.module(modname)
        for func in mod.funcs.values():
            parents = {}
            for x in ast.walk(func.node):
                for c in ast.iter_child_nodes(x):
                    parents[c] = x
            for node in walk(func.body):
                if (isinstance(node, ast.Call) and isinstance(node.func, ast.Name) and node.func.id in ('max', 'min')
                        and len(node.args) == 1):
                    n += 1
                    has_default = any(k.arg == 'default' for k in node.keywords)
                    guarded = False
                    cur = node
                    while cur in parents:
                        par = parents[cur]
                        if isinstance(par, ast.Try) and cur in par.body and any(
                                h.type is None or 'ValueError' in src(h.type) or 'Exception' in src(h.type) for h in par.handlers):
                            guarded = True
                        cur = par
                    arg = node.args[0]
                    nonempty_literal = isinstance(arg, (ast.List, ast.Tuple, ast.Set)) and arg.elts
                    R.check(has_default or guarded or bool(nonempty_literal), 'EMPTY-REDUCE', func, node,
                            f'{node.func.id}() over a possibly empty iterable has default=',
                            'default=... (printing a result with nothing to list is defined)', src(node)[:90])
    str_f = model.func('junctors.Relations.__str__')
    r = [src(x.value) for x in walk(str_f.body) if isinstance(x, ast.Return)]
    R.check(len(r) == 1 and r[0].startswith('self.tostring('), 'EMPTY-REDUCE', str_f, str_f.node, '__str__ delegates to tostring', 'self.tostring(...)', str(r))
    R.floor('EMPTY-REDUCE', 2)


MUTATORS = ('append', 'extend', 'insert', 'remove', 'pop', 'clear', 'sort', 'reverse', '__setitem__', '__delitem__', '__iadd__', '__imul__')


def render_is_readonly(model, R):
    """Printing the result leaves it unchanged: ``tostring`` / ``__str__`` / ``__repr__`` of the Relations list neither assign
    into ``self[...]`` nor call a list mutator on it (re-binding the *name* self to a filtered view is fine)."""
    cls = model.cls('junctors.Relations')
    n = 0
    for name in ('tostring', '__str__', '__repr__'):
        f = cls.methods.get(name)
        if f is None or not f.params:
            continue
        me = f.params[0]
        rebound_at = min([s.lineno for s in walk(f.body) if isinstance(s, ast.Assign) and any(name_is(t, me) for t in s.targets)] or [10 ** 9])
        for node in walk(f.body):
            hit = None
            if isinstance(node, (ast.Assign, ast.AugAssign, ast.Delete)):
                targets = node.targets if isinstance(node, (ast.Assign, ast.Delete)) else [node.target]
                for t in targets:
                    if isinstance(t, ast.Subscript) and name_is(t.value, me):
                        hit = t
                    if isinstance(node, ast.AugAssign) and name_is(t, me):
                        hit = t
            if isinstance(node, ast.Call) and isinstance(node.func, ast.Attribute) and name_is(node.func.value, me) and node.func.attr in MUTATORS:
                hit = node
            if hit is not None and getattr(hit, 'lineno', 0) <= rebound_at:
                n += 1
                R.bad('READ-ONLY', f, node, f'{name} does not modify the list it prints', 'no assignment into self[...] and no list mutator on self', src(node)[:80],
                      extra={'consequence': 'after printing (e.g. with exclude_orthogonal) entries are gone from the result itself'})
        R.ok('READ-ONLY', f, f.node, f'{name} does not modify the list it prints')


def run(model, R):
    R.guard('READ-ONLY', None, 'rendering', render_is_readonly, model, R)
    R.guard('TABLE', None, 'tables', tables, model, R)
    R.guard('DISPATCH', None, 'RelationMeta', meta_rules, model, R)
    R.guard('PAIRING', None, 'Relations.__init__', relations_init, model, R)
    R.guard('EMPTY-REDUCE', None, 'tostring', empty_reduce, model, R)
    return __doc__.strip()
