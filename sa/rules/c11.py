"""C11: writer/reader agreement of the structured persistence paths and flat pickle state.
Decides: Lattice._tolist emits (extent indexes, intent indexes, upper indexes, lower indexes) per
member in member order and _fromlist unpacks four fields in that order into
Concept(lattice, extent, intent, upper, lower), decoding index sets with 1 << i into the class of
the right sort, and finishes through _init *with* re-annotation; todict writes the keys fromdict
requires and the optional 'lattice' key fromdict reads, with the documented values; the lazy-cache
key probed by todict and set by fromdict is the name of the lazy property; python-literal dump and
load use the same keys and hand the whole dict on, fromstring/fromfile route a serialized dict to
fromdict and tostring/tofile pass todict(ignore_lattice=None); tojson/fromjson pass their flags on;
pickle: Context.__getstate__ order = __setstate__ order and __setstate__ derives the same
attributes as __init__; Relation.__reduce__ matches __new__'s parameters; Vectors.__reduce__
= (relation, (index,)) with Relation.__call__ = tuple.__getitem__; Lattice.__getstate__ and
__setstate__ agree and the state holds no linked Concept objects (PICKLE-DEPTH: default pickling
of self-referential members recurses along neighbour chains).  Value-level round trips, stored
permutations beyond C06's raw path and the cross-process registry are runtime questions and not
decided.
"""

import ast

from ..astutil import kwarg, Env, chain, src, walk, const, stmts, strip_not, reaching_value, is_none_test
from ..model import Unrecognised
from .c13 import name_is


def tolist_fromlist(model, R):
    tl = model.func('lattices.Data._tolist')
    r = [n.value for n in walk(tl.body) if isinstance(n, ast.Return)]
    fields = None
    if len(r) == 1 and isinstance(r[0], ast.ListComp) and len(r[0].generators) == 1 and isinstance(r[0].elt, ast.Tuple):
        g = r[0].generators[0]
        cv = g.target.id if isinstance(g.target, ast.Name) else None
        R.check(chain(g.iter) == ['self', '_concepts'] and not g.ifs, 'AGREEMENT', tl, r[0], '_tolist: one record per member in member order',
                'for c in self._concepts', src(g.iter))
        fields = []
        for e in r[0].elt.elts:
            inner = e.args[0] if isinstance(e, ast.Call) and name_is(e.func, 'tuple') and e.args else e
            if isinstance(inner, ast.Call) and isinstance(inner.func, ast.Attribute) and inner.func.attr == 'iter_set':
                fields.append(('bits', chain(inner.func.value)[-1] if chain(inner.func.value) else '?'))
            elif isinstance(inner, ast.GeneratorExp) and len(inner.generators) == 1 and chain(inner.elt) and chain(inner.elt)[-1] == 'index':
                fields.append(('index', chain(inner.generators[0].iter)[-1] if chain(inner.generators[0].iter) else '?'))
            else:
                fields.append(('?', src(e)))
    want = [('bits', '_extent'), ('bits', '_intent'), ('index', 'upper_neighbors'), ('index', 'lower_neighbors')]
    R.check(fields == want, 'AGREEMENT', tl, tl.node, '_tolist record = (extent bits, intent bits, upper indexes, lower indexes)', str(want), str(fields))
    fl = model.func('lattices.Data._fromlist')
    env = Env(fl)
    lc = None
    for s in fl.body:
        if isinstance(s, ast.Assign) and isinstance(s.value, ast.ListComp) and isinstance(s.value.elt, ast.Call) and name_is(s.value.elt.func, 'Concept'):
            lc = s.value
    if lc is None:
        raise Unrecognised('_fromlist: Concept(...) comprehension', func=fl, node=fl.node)
    g = lc.generators[0]
    p_lat = fl.params[2]
    R.check(name_is(g.iter, p_lat) and not g.ifs and isinstance(g.target, ast.Tuple) and len(g.target.elts) == 4, 'AGREEMENT', fl, lc,
            '_fromlist: one member per stored record of four fields, unfiltered', f'for ex, in_, up, lo in {p_lat}', src(g.target) + ' in ' + src(g.iter))
    if isinstance(g.target, ast.Tuple) and len(g.target.elts) == 4:
        names = [t.id for t in g.target.elts]
        args = lc.elt.args
        if len(args) == 5:
            def decoded(a):
                a = env.expand(a)
                if isinstance(a, ast.Call) and len(a.args) == 1:
                    cls = chain(a.func)
                    inner = a.args[0]
                    ok = False
                    var = None
                    if isinstance(inner, ast.Call) and name_is(inner.func, 'sum') and isinstance(inner.args[0], ast.GeneratorExp):
                        ge = inner.args[0]
                        e = ge.elt
                        ok = (isinstance(e, ast.BinOp) and isinstance(e.op, ast.LShift) and const(e.left) == 1
                              and name_is(e.right, src(ge.generators[0].target)) and not ge.generators[0].ifs)
                        var = src(ge.generators[0].iter)
                    return ('.'.join(cls[-2:]) if cls else '?', var, ok)
                return ('?', src(a), False)
            d_ext, d_int = decoded(args[1]), decoded(args[2])
            R.check(d_ext == ('_Objects.fromint', names[0], True), 'AGREEMENT', fl, args[1],
                    '_fromlist: field 0 decoded (1 << i) into the object-set class', f'context._Objects.fromint(sum(1 << e for e in {names[0]}))', str(d_ext))
            R.check(d_int == ('_Properties.fromint', names[1], True), 'AGREEMENT', fl, args[2],
                    '_fromlist: field 1 decoded (1 << i) into the property-set class', f'context._Properties.fromint(sum(1 << i for i in {names[1]}))', str(d_int))
            R.check([src(a) for a in args[3:]] == names[2:], 'AGREEMENT', fl, lc.elt, '_fromlist: fields 2, 3 are the upper and lower index lists',
                    f'Concept(inst, ..., {names[2]}, {names[3]})', src(lc.elt)[-40:])
        else:
            R.unknown('AGREEMENT', fl, lc.elt, '_fromlist: Concept arity', src(lc.elt))
    pair = model.func('lattice_members.Pair.__init__')
    R.check(pair.params[1:] == ['lattice', 'extent', 'intent', 'upper', 'lower'], 'AGREEMENT', pair, pair.node,
            'Concept parameter order (lattice, extent, intent, upper, lower)', "['lattice', 'extent', 'intent', 'upper', 'lower']", str(pair.params[1:]))
    # ends in _init without unpickle
    calls = [n for n in walk(fl.body) if isinstance(n, ast.Call) and (chain(n.func) or [''])[-1] == '_init']
    ok = (len(calls) == 1 and not any(k.arg == 'unpickle' and const(k.value) is True for k in calls[0].keywords) and len(calls[0].args) <= 4)
    R.check(ok, 'AGREEMENT', fl, calls[0] if calls else fl.node, '_fromlist: completes through _init with ranks, atoms and labels recomputed',
            'cls._init(inst, context, concepts)', src(calls[0]) if calls else 'no _init call')
    init = model.func('lattices.Data._init')
    un = [s for s in init.body if isinstance(s, ast.If) and name_is(s.test, 'unpickle')]
    d = init.defaults().get('unpickle')
    if un:
        R.check(const(d, 'x') is False, 'API-DEFAULT', init, d or init.node, '_init(unpickle) default False (full initialisation)', 'False', src(d))


def dict_keys(model, R):
    td = model.func('contexts.ExportableMixin.todict')
    res = None
    for s in td.body:
        if isinstance(s, ast.Assign) and isinstance(s.value, ast.Dict):
            res = s
    if res is None:
        raise Unrecognised('todict: result dict', func=td, node=td.node)
    written = {const(k): src(v) for k, v in zip(res.value.keys, res.value.values)}
    want = {'objects': 'self.objects', 'properties': 'self.properties', 'context': 'self._intents.index_sets()'}
    R.check(written == want, 'AGREEMENT', td, res, 'todict: documented keys and values', str(want), str(written))
    lat = [s for s in walk(td.body) if isinstance(s, ast.Assign) and isinstance(s.targets[0], ast.Subscript) and const(s.targets[0].slice) == 'lattice']
    R.check(len(lat) == 1 and src(lat[0].value) == 'self.lattice._tolist()', 'AGREEMENT', td, lat[0] if lat else td.node,
            "todict: 'lattice' = the index-based member list of this context's lattice", "result['lattice'] = self.lattice._tolist()",
            src(lat[0]) if lat else 'not written')
    fd = model.func('contexts.Data.fromdict')
    req = None
    for s in fd.body:
        if isinstance(s, ast.Assign) and isinstance(s.value, ast.Tuple) and all(isinstance(const(e), str) for e in s.value.elts):
            req = [const(e) for e in s.value.elts]
    R.check(req is not None and set(req) <= set(written), 'AGREEMENT', fd, fd.node, 'fromdict requires only keys todict writes', str(sorted(written)), str(req))
    reads = set()
    for n in walk(fd.body):
        if isinstance(n, ast.Subscript) and name_is(n.value, fd.params[1]) and isinstance(const(n.slice), str):
            reads.add(const(n.slice))
        if isinstance(n, ast.Call) and chain(n.func) == [fd.params[1], 'get'] and n.args:
            reads.add(const(n.args[0]))
    R.check(reads == {'lattice'}, 'AGREEMENT', fd, fd.node, "fromdict reads the optional key todict writes ('lattice')", "{'lattice'}", str(sorted(reads)))
    # ignore_lattice tri-state
    probe = [n for n in walk(td.body) if isinstance(n, ast.Compare) and isinstance(n.ops[0], (ast.In, ast.NotIn)) and src(n.comparators[0]) == 'self.__dict__']
    key = const(probe[0].left) if probe else None
    lm = model.cls('contexts.LatticeMixin')
    lazy = [m for m in lm.methods.values() if any((chain(d) or [''])[-1] == 'lazyproperty' for d in m.node.decorator_list)]
    lazy_names = [m.name for m in lazy]
    R.check(key == 'lattice' and 'lattice' in lazy_names, 'CACHE-KEY', td, probe[0] if probe else td.node,
            'todict probes the cache under the name of the lazy property', "'lattice' not in self.__dict__ with @lazyproperty def lattice", f'{key!r} vs {lazy_names}')
    asserts = [n for n in walk(fd.body) if isinstance(n, ast.Compare) and isinstance(n.ops[0], (ast.In, ast.NotIn)) and src(n.comparators[0]).endswith('.__dict__')]
    att = [s for s in stmts(fd.body) if isinstance(s, ast.Assign) and chain(s.targets[0]) and len(chain(s.targets[0])) == 2 and chain(s.targets[0])[1] in lazy_names]
    R.check(len(att) == 1 and (not asserts or const(asserts[0].left) == 'lattice'), 'CACHE-KEY', fd, att[0] if att else fd.node,
            'fromdict stores the loaded lattice under the name of the lazy property', 'inst.lattice = Lattice._fromlist(...)', src(att[0])[:80] if att else 'no store')
    if att:
        v = att[0].value
        inst = chain(att[0].targets[0])[0]
        ok = (isinstance(v, ast.Call) and (chain(v.func) or [''])[-2:] == ['Lattice', '_fromlist'] and [src(a) for a in v.args] == [inst, 'lattice', fd.params[4]])
        R.check(ok, 'AGREEMENT', fd, att[0], 'fromdict rebuilds the lattice from the stored list for the new context, honouring raw',
                f'lattices.Lattice._fromlist({inst}, lattice, {fd.params[4]})', src(v))
        from ..astutil import context_of
        # the tests of the enclosing ifs (the preceding raise-guards are validation, judged by the GUARD rules)
        pc_ = [(c_[1], c_[2]) for c_ in (context_of(fd.body, att[0]) or []) if c_[0] == 'if']
        guard = []
        if pc_:
            # the conjunction of every test on the way to the assignment (nested ifs and guard clauses alike)
            conj = [t_ if pol_ else ast.UnaryOp(op=ast.Not(), operand=t_) for t_, pol_ in pc_]
            whole = conj[0] if len(conj) == 1 else ast.BoolOp(op=ast.And(), values=conj)
            guard = [type('G', (), {'test': whole, 'lineno': getattr(pc_[0][0], 'lineno', att[0].lineno), '_fields': ()})()]
        ok = False
        decided_guard = False
        if guard:
            from .. import guards as _guards
            import itertools as _it

            def atomizer(n_):
                if name_is(n_, fd.params[2]):
                    return ('Ignore', True)
                nt = is_none_test(n_)
                if nt and nt[0] == 'lattice':
                    return ('NoLattice', nt[1])
                return None
            try:
                fm = _guards.compile_formula(guard[0].test, atomizer)
                ok = all(fm(dict(zip(('Ignore', 'NoLattice'), bits))) == (not bits[0] and not bits[1]) for bits in _it.product((False, True), repeat=2))
                decided_guard = True
            except Unrecognised:
                ok = False
        R.check(ok, 'AGREEMENT', fd, guard[0] if guard else att[0], 'stored lattice used iff present and not ignored', f'if not {fd.params[2]} and lattice is not None:',
                src(guard[0].test) if guard else 'unguarded', strict=True if (decided_guard or not guard) else None)
    lp = model.cls('tools.lazyproperty')
    g = lp.methods.get('__get__')
    ok = False
    if g:
        for s in stmts(g.body):
            if isinstance(s, ast.Assign):
                for t in s.targets:
                    if isinstance(t, ast.Subscript) and src(t.value).endswith('.__dict__') and src(t.slice) == 'self.__name__':
                        ok = True
    R.check(ok, 'CACHE-KEY', g or 'tools.lazyproperty.__get__', g.node if g else lp.node, 'lazyproperty caches under the wrapped function\'s name',
            'instance.__dict__[self.__name__] = self.fget(instance)')
    # ignore_lattice=None means "only if already computed"
    from ..astutil import path_condition
    from .. import guards
    flag = td.params[1]
    pc = path_condition(td.body, lat[0]) if lat else None
    if pc is None:
        R.unknown('AGREEMENT', td, td.node, 'todict: lattice omitted iff ignored, or None-mode and not yet computed', 'cannot derive when the lattice is written')
    else:
        def atomizer(n):
            if name_is(n, flag):
                return ('Truthy(flag)', True)
            nt = is_none_test(n)
            if nt and nt[0] == flag:
                return ('IsNone(flag)', nt[1])
            if (isinstance(n, ast.Compare) and len(n.ops) == 1 and isinstance(n.ops[0], (ast.In, ast.NotIn)) and const(n.left) == 'lattice'
                    and src(n.comparators[0]) == f'{td.params[0]}.__dict__'):
                return ('Cached', isinstance(n.ops[0], ast.In))
            return None
        try:
            parts = [(guards.compile_formula(t, atomizer), pol) for t, pol in pc]
            atoms = ['Truthy(flag)', 'IsNone(flag)', 'Cached']
            written = guards.Formula(lambda e: all(bool(f(e)) == pol for f, pol in parts), atoms, ' and '.join(('' if pol else 'not ') + f'({f.text})' for f, pol in parts))
            diff = guards.equivalent(written, lambda e: (not e['Truthy(flag)']) and not (e['IsNone(flag)'] and not e['Cached']), atoms,
                                     constraint=lambda e: not (e['IsNone(flag)'] and e['Truthy(flag)']))
            R.decided(diff is None, 'AGREEMENT', td, lat[0], 'todict: lattice omitted iff ignored, or None-mode and not yet computed',
                      "written iff not ignore_lattice and not (ignore_lattice is None and 'lattice' not in self.__dict__)", written.text or 'always',
                      extra={'differs_at': diff} if diff else None)
        except Unrecognised as e:
            R.unknown('AGREEMENT', td, e.node or td.node, 'todict: condition for writing the lattice', e.what)


def literal_and_json(model, R):
    df = model.func('formats.python_literal.dump_file')
    lf = model.func('formats.python_literal.load_file')
    wk = set()
    for n in walk(df.body):
        if isinstance(n, ast.Dict):
            wk |= {const(k) for k in n.keys if isinstance(const(k), str)}
    # every key the writer can emit as a section: string constants of the function (incl. its nested generators) among the four key names
    keys_iter = {const(n) for n in ast.walk(df.node) if isinstance(n, ast.Constant) and const(n) in ('objects', 'properties', 'context', 'lattice')}
    R.decided(wk == {'objects', 'properties', 'context'} and keys_iter == {'objects', 'properties', 'context', 'lattice'}, 'AGREEMENT', df, df.node,
              'python-literal writer: keys objects/properties/context and optional lattice', "{'objects','properties','context'} + 'lattice'",
              f'{sorted(wk)} / sections {sorted(keys_iter)}')
    rk = set()
    for n in walk(lf.body):
        if isinstance(n, ast.Subscript) and name_is(n.value, 'args') and isinstance(const(n.slice), str):
            rk.add(const(n.slice))
    R.check(rk == {'objects', 'properties', 'context'}, 'AGREEMENT', lf, lf.node, 'python-literal reader: reads the keys the writer writes',
            "{'objects','properties','context'}", str(sorted(rk)))
    r = [n.value for n in walk(lf.body) if isinstance(n, ast.Return)]
    ok = (len(r) == 1 and isinstance(r[0], ast.Call) and name_is(r[0].func, 'SerializedArgs')
          and any(k.arg == 'serialized' and name_is(k.value, 'args') for k in r[0].keywords))
    R.check(ok, 'AGREEMENT', lf, r[0] if r else lf.node, 'python-literal reader hands the whole dict on as serialized', 'SerializedArgs(..., serialized=args)',
            src(r[0]) if r else '')
    # context cells: row[i] = True for i in true_indexes (index-based like todict's index_sets)
    for key in ('contexts.Data.fromstring', 'contexts.Data.fromfile'):
        f = model.func(key)
        ifs = [s for s in f.body if isinstance(s, ast.If) and 'serialized' in src(s.test)]
        verdict = None
        if ifs:
            t = ifs[0].test
            ret = ifs[0].body[0] if ifs[0].body else None
            nt = is_none_test(t)
            if nt and nt[0].endswith('.serialized') and isinstance(ret, ast.Return) and isinstance(ret.value, ast.Call) and len(ifs[0].body) == 1:
                holder = nt[0][:-len('.serialized')]
                routed = (chain(ret.value.func) == [f.params[0], 'fromdict'] and len(ret.value.args) == 1 and src(ret.value.args[0]) == f'{holder}.serialized')
                verdict = routed and nt[1] is False
        if verdict is None:
            R.unknown('AGREEMENT', f, ifs[0] if ifs else f.node, f'{f.name}: a serialized dict is routed through fromdict',
                      src(ifs[0])[:100] if ifs else 'no test of .serialized in this function')
        else:
            R.decided(verdict, 'AGREEMENT', f, ifs[0], f'{f.name}: a serialized dict is routed through fromdict',
                      'if args.serialized is not None: return cls.fromdict(args.serialized)', src(ifs[0])[:100])
    for key in ('contexts.FormattingMixin.tostring', 'contexts.ExportableMixin.tofile'):
        f = model.func(key)
        ifs = [s for s in f.body if isinstance(s, ast.If) and 'PythonLiteral' in src(s.test)]
        ok = False
        if ifs:
            a = ifs[0].body[0]
            ok = (isinstance(a, ast.Assign) and src(a.targets[0]) == "kwargs['_serialized']" and src(a.value) in ('self.todict(ignore_lattice=None)', 'self.todict(None)')
                  and src(ifs[0].test) == 'frmat is formats.PythonLiteral')
        R.check(ok, 'AGREEMENT', f, ifs[0] if ifs else f.node, f'{f.name}: python-literal output carries todict (lattice only if already computed)',
                "kwargs['_serialized'] = self.todict(ignore_lattice=None)", src(ifs[0])[:120] if ifs else 'not passed')
    tj = model.func('contexts.ExportableMixin.tojson')
    env = Env(tj)
    calls = [n for n in walk(tj.body) if isinstance(n, ast.Call) and (chain(n.func) or [''])[-1] == 'dump_json']
    ok = False
    if len(calls) == 1:
        c = calls[0]
        # dump_json(obj, path_or_fileobj, *, encoding, mode, **kwargs): arguments bound by that signature, however they are spelled
        cb = model.bind(tj, c) or {}
        kws = {k: src(v) for k, v in cb.items()}
        a0 = env.expand(cb['obj']) if 'obj' in cb else None
        b0 = (model.bind(tj, a0) or {}) if isinstance(a0, ast.Call) and chain(a0.func) == ['self', 'todict'] else None
        ok = (b0 is not None and {k: src(v) for k, v in b0.items()} == {'ignore_lattice': tj.params[5]} and kws.get('path_or_fileobj') == tj.params[1]
              and kws.get('encoding') == 'encoding' and kws.get('indent') == 'indent' and kws.get('sort_keys') == 'sort_keys')
    R.check(ok, 'AGREEMENT', tj, calls[0] if calls else tj.node, 'tojson dumps todict with the caller\'s flags',
            'tools.dump_json(self.todict(ignore_lattice=ignore_lattice), path_or_fileobj, encoding=..., indent=..., sort_keys=...)', src(calls[0])[:160] if calls else '')
    fj = model.func('contexts.Data.fromjson')
    env = Env(fj)
    r = [env.expand(n.value) for n in walk(fj.body) if isinstance(n, ast.Return)]
    ok = False
    if len(r) == 1 and isinstance(r[0], ast.Call) and chain(r[0].func) == [fj.params[0], 'fromdict']:
        bound = model.bind(fj, r[0]) or {}
        kws = {k: src(v) for k, v in bound.items() if k != 'd'}
        a0 = r[0].args[0]
        ok = (isinstance(a0, ast.Call) and (chain(a0.func) or [''])[-1] == 'load_json' and src(a0.args[0]) == fj.params[1]
              and kws == {'ignore_lattice': 'ignore_lattice', 'require_lattice': 'require_lattice', 'raw': 'raw'})
    R.check(ok, 'AGREEMENT', fj, r[0] if r else fj.node, 'fromjson loads through fromdict with the caller\'s flags',
            'cls.fromdict(tools.load_json(...), ignore_lattice=..., require_lattice=..., raw=raw)', src(r[0])[:160] if r else '')
    # (raw=True only adds a re-sort of the stored order: its default is behaviour-neutral and not pinned)
    for f, flags in ((fj, ('ignore_lattice', 'require_lattice')), (model.func('contexts.Data.fromdict'), ('ignore_lattice', 'require_lattice')),
                     (td_func(model), ('ignore_lattice',)), (tj, ('ignore_lattice',))):
        d = f.defaults()
        for fl in flags:
            R.check(const(d.get(fl), 'x') is False, 'API-DEFAULT', f, d.get(fl) or f.node, f'{f.name}({fl}) default False', 'False', src(d.get(fl)))


def td_func(model):
    return model.func('contexts.ExportableMixin.todict')


def pickle_rules(model, R):
    gs = model.func('contexts.Data.__getstate__')
    ss = model.func('contexts.Data.__setstate__')
    init = model.func('contexts.Data.__init__')
    r = [n.value for n in walk(gs.body) if isinstance(n, ast.Return)]
    state = [chain(e)[-1] for e in r[0].elts] if len(r) == 1 and isinstance(r[0], ast.Tuple) and all(chain(e) for e in r[0].elts) else None
    unp = [s for s in ss.body if isinstance(s, ast.Assign) and name_is(s.value, ss.params[1]) and isinstance(s.targets[0], ast.Tuple)]
    got = [chain(t)[-1] for t in unp[0].targets[0].elts] if unp else None
    R.check(state is not None and state == got, 'PICKLE', ss, unp[0] if unp else ss.node, 'Context: __setstate__ unpacks in the order __getstate__ packs',
            str(state), str(got))

    def derived(f):
        out = {}
        for s in f.body:
            if isinstance(s, ast.Assign) and len(s.targets) == 1 and chain(s.targets[0]) and chain(s.targets[0])[0] == f.params[0] \
                    and len(chain(s.targets[0])) == 2 and chain(s.value):
                out[chain(s.targets[0])[1]] = src(s.value)
        return out
    R.check(derived(init) == derived(ss) and len(derived(ss)) == 2, 'PICKLE', ss, ss.node, 'Context: __setstate__ derives the same attributes as __init__',
            str(derived(init)), str(derived(ss)))
    inits = [s for s in init.body if isinstance(s, ast.Assign) and isinstance(s.targets[0], ast.Tuple) and isinstance(s.value, ast.Call)
             and (chain(s.value.func) or [''])[-1] == 'Relation']
    if inits:
        order = [chain(t)[-1] for t in inits[0].targets[0].elts]
        R.check(order == state, 'PICKLE', gs, gs.node, 'Context: pickled pair has the order of the Relation built in __init__', str(order), str(state))
    # Relation.__reduce__ vs __new__
    new = model.func('matrices.Relation.__new__')
    red = model.func('matrices.Relation.__reduce__')
    r = [n.value for n in walk(red.body) if isinstance(n, ast.Return)]
    ok = False
    found = ''
    if len(r) == 1 and isinstance(r[0], ast.Tuple) and len(r[0].elts) == 2 and isinstance(r[0].elts[1], ast.Tuple):
        ctor, args = r[0].elts
        a = [src(x) for x in args.elts]
        found = str(a)
        want = ['X.__name__', 'Y.__name__', 'X._members', 'Y._members', 'self[0].bools()', '(X._id, Y._id)']
        ok = src(ctor) == 'self.__class__' and a == want and len(new.params) - 1 == len(want)
    R.check(ok, 'PICKLE', red, red.node, 'Relation.__reduce__ arguments match __new__(xname, yname, xmembers, ymembers, xbools, _ids)',
            "(self.__class__, (X.__name__, Y.__name__, X._members, Y._members, self[0].bools(), (X._id, Y._id)))", found)
    xy = [s for s in red.body if isinstance(s, ast.Assign) and isinstance(s.targets[0], ast.Tuple)]
    ok = bool(xy) and [src(t) for t in xy[0].targets[0].elts] == ['X', 'Y'] and src(xy[0].value) == '(v.BitSet for v in self)'
    R.check(ok, 'PICKLE', red, xy[0] if xy else red.node, 'Relation.__reduce__: X, Y are the classes of the first and second family', 'X, Y = (v.BitSet for v in self)')
    R.check(new.params[1:] == ['xname', 'yname', 'xmembers', 'ymembers', 'xbools', '_ids'], 'PICKLE', new, new.node, 'Relation.__new__ parameter order',
            "['xname', 'yname', 'xmembers', 'ymembers', 'xbools', '_ids']", str(new.params[1:]))
    ids = [s for s in stmts(new.body) if isinstance(s, ast.Assign) and isinstance(s.targets[0], ast.Tuple)
           and (name_is(s.value, '_ids') or (isinstance(s.value, ast.IfExp) and name_is(s.value.body, '_ids')))]
    okids = bool(ids) and [src(t) for t in ids[0].targets[0].elts] == ['xid', 'yid']
    uses = {s.targets[0].id: src(s.value.args[2]) for s in stmts(new.body) if isinstance(s, ast.Assign) and isinstance(s.targets[0], ast.Name)
            and s.targets[0].id in ('X', 'Y') and isinstance(s.value, ast.Call) and (chain(s.value.func) or [''])[-2:] == ['meta', 'bitset'] and len(s.value.args) > 2}
    consistent = okids and uses == {'X': 'xid', 'Y': 'yid'}
    swapped_both = (bool(ids) and [src(t) for t in ids[0].targets[0].elts] == ['yid', 'xid'] and uses == {'X': 'xid', 'Y': 'yid'})
    # ids only name the registry entry: swapping both unpack and use is equivalent; swapping one is benign too (ids are cache keys)
    R.check(bool(ids), 'PICKLE', new, ids[0] if ids else new.node, 'Relation.__new__: unpickle path unpacks the two class ids', 'xid, yid = _ids')
    # bitsets.meta.bitset(name, members, id_, base, list_, tuple_)  [axiom A9: positional signature of bitsets 0.8.4]
    for s in stmts(new.body):
        if (isinstance(s, ast.Assign) and isinstance(s.targets[0], ast.Name) and s.targets[0].id in ('X', 'Y') and isinstance(s.value, ast.Call)
                and (chain(s.value.func) or [''])[-2:] == ['meta', 'bitset'] and not s.value.keywords and len(s.value.args) == 6):
            tail = [src(a) for a in s.value.args[3:]]
            R.decided(tail == ['Vector', 'None', 'Vectors'], 'PICKLE', new, s, f'Relation.__new__: {s.targets[0].id} rebuilt with the same base and series classes as a fresh relation',
                      'bitsets.meta.bitset(name, members, id, Vector, None, Vectors)', ', '.join(tail),
                      extra={'consequence': 'in a process where the class is not yet registered the bit-set class is rebuilt with the wrong list/tuple series: unpickling fails or yields vectors without the derivation closures'})
    vr = model.func('matrices.Vectors.__reduce__')
    R.returns(vr, '(self.relation, (self.relation_index,))', 'PICKLE', 'Vectors pickle as relation(index)')
    rel = model.cls('matrices.Relation')
    R.check(src(rel.aliases.get('__call__')) == 'tuple.__getitem__', 'PICKLE', 'matrices.Relation.__call__', rel.node, 'relation(index) is item access',
            'tuple.__getitem__', src(rel.aliases.get('__call__')))
    # Lattice
    lg = model.func('lattices.Data.__getstate__')
    ls = model.func('lattices.Data.__setstate__')
    r = [n.value for n in walk(lg.body) if isinstance(n, ast.Return)]
    elts = r[0].elts if len(r) == 1 and isinstance(r[0], ast.Tuple) else []
    linked = [e for e in elts if chain(e) and chain(e)[-1] in ('_concepts', '_mapping', 'atoms', 'infimum', 'supremum')]
    R.check(bool(elts) and not linked, 'PICKLE-DEPTH', lg, r[0] if r else lg.node, 'Lattice state holds no linked Concept objects',
            '(self._context, self._tolist())',
            src(r[0]) if r else '', extra={'consequence': 'Concept objects reference each other through neighbour tuples and have no flat reducer: pickle recurses '
                                                              'along neighbour chains and raises RecursionError for lattices of a few hundred concepts'},
            strict=True if linked else None)
    ok_state = [src(e) for e in elts] == ['self._context', 'self._tolist()']
    unp = [s for s in ls.body if isinstance(s, ast.Assign) and name_is(s.value, ls.params[1]) and isinstance(s.targets[0], ast.Tuple)]
    ok = False
    found = src(ls.body)[:160]
    if ok_state and unp and len(unp[0].targets[0].elts) == 2:
        a, b = (t.id for t in unp[0].targets[0].elts)
        calls = [n for n in walk(ls.body) if isinstance(n, ast.Call) and (chain(n.func) or [''])[-1] == '_fromlist']
        if len(calls) == 1:
            c = calls[0]
            inst = kwarg(c, 'inst', 3)
            flag = kwarg(c, 'unordered', 2)
            ok = [src(x) for x in c.args[:2]] == [a, b] and inst is not None and src(inst) == ls.params[0] and (flag is None or const(flag, 'x') is False)
    if not ok_state and elts and not linked:
        R.unknown('PICKLE', lg, lg.node, 'Lattice pickle state', src(r[0]))
    elif ok_state:
        R.check(ok, 'PICKLE', ls, ls.node, 'Lattice: __setstate__ rebuilds this instance from (context, stored list) in stored order',
                'context, lattice = state; self._fromlist(context, lattice, False, self)', found)
        fl = model.func('lattices.Data._fromlist')
        guard = [s for s in fl.body if isinstance(s, ast.If) and src(s.test) == 'inst is None']
        okg = bool(guard) and src(guard[0].body[0]) == f'inst = object.__new__({fl.params[0]})' and const(fl.defaults().get('inst'), 'x') is None
        R.check(okg, 'PICKLE', fl, guard[0] if guard else fl.node, '_fromlist fills the given instance, or a new one', 'if inst is None: inst = object.__new__(cls)')
    # Concept pickles by reference to its lattice (so that it stays a member of the unpickled lattice)
    pair = model.cls('lattice_members.Pair')
    cr = pair.methods.get('__reduce__')
    if cr is not None:
        R.returns(cr, '(operator.getitem, (self.lattice, self.index))', 'PICKLE', 'Concept pickles as lattice[index]')
    else:
        R.note('lattice_members.Pair has no __reduce__: a Concept pickled on its own is not a root of the PICKLE-DEPTH rule')


def run(model, R):
    R.floor('AGREEMENT', 20)
    R.floor('PICKLE', 8)
    R.floor('PICKLE-DEPTH', 1)
    from . import c06, c12, c19
    R.guard('AGREEMENT', None, '_tolist/_fromlist', tolist_fromlist, model, R)
    R.guard('AGREEMENT', None, 'todict/fromdict', dict_keys, model, R)
    R.guard('AGREEMENT', None, 'literal/json', literal_and_json, model, R)
    R.guard('FIDELITY', None, 'python-literal labels', c12.literal_labels, model, R)
    R.guard('PICKLE', None, 'pickle', pickle_rules, model, R)
    # reloading depends on: the raw/ordered paths of _fromlist (C06's obligations) and fromdict accepting every valid document (C19's)
    from .common import flag_clobber
    R.guard('ORDER', None, '_fromlist paths', c06.fromlist_rules, model, R)
    R.guard('GUARD', None, 'fromdict validation', c19.fromdict_rules, model, R)
    flag_clobber(R, model.func('lattices.Data._fromlist'), ['unordered'])
    flag_clobber(R, model.func('contexts.Data.fromdict'), ['ignore_lattice', 'require_lattice', 'raw'])
    flag_clobber(R, model.func('contexts.Data.fromjson'), ['ignore_lattice', 'require_lattice', 'raw'])
    from .common import no_unpickle_shortcut
    R.guard('AGREEMENT', None, '_init call sites', no_unpickle_shortcut, model, R, 'AGREEMENT')
    # file round trips with a matching encoding: load/dump honour the encoding they are given (C12's parameter rules)
    R.guard('PARAM-CLOBBER', None, 'parameters', c12.param_clobber, model, R)
    return __doc__.strip()
