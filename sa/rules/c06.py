"""C06: canonical order - shortlex generation order, index/dindex ranks, bottom first, top last.
Decides: every push in lindig.lattice is keyed by the shortlex key of the very extent it queues;
Lattice.__init__ assigns index by enumerate over the generation order with no reordering in
between and sorts upper neighbours by shortlex, lower neighbours by longlex; _shortlex/_longlex read
the concept's extent and call the like-named key; _init assigns dindex by enumerating the members
sorted by longlex (no reverse); infimum/supremum/atoms are the first member, the last member and the
first member's upper neighbours; _fromlist's unordered path builds its index map from the stored
order before sorting by shortlex, assigns index after it and re-sorts both neighbour tuples, its
ordered path assigns in stored order; only the constructing functions write
index/dindex/upper_neighbors/lower_neighbors/atoms.  That shortlex()/longlex() realise the
positional orders is an axiom about bitsets.
"""

import ast

from ..astutil import Env, chain, src, walk, const, stmts
from ..model import Unrecognised
from . import lindig_tpl
from .c13 import name_is


def init_rules(model, R):
    f = model.func('lattices.Data._init')
    inst = f.params[0]
    env = Env(f)
    loops = [s for s in f.body if isinstance(s, ast.For) and isinstance(s.target, ast.Tuple)]
    dl = [l for l in loops if any(isinstance(n, ast.Attribute) and n.attr == 'dindex' and isinstance(n.ctx, ast.Store) for n in ast.walk(l))]
    if len(dl) != 1:
        R.unknown('ORDER', f, f.node, 'dindex loop', f'{len(dl)} loops')
    else:
        l = dl[0]
        it = l.iter
        ok = False
        found = src(it)
        parsed = False
        if isinstance(it, ast.Call) and name_is(it.func, 'enumerate') and len(it.args) == 1 and not it.keywords:
            s = it.args[0]
            if isinstance(s, ast.Call) and name_is(s.func, 'sorted') and len(s.args) == 1:
                kws = {k.arg: k.value for k in s.keywords}
                key = kws.get('key')
                kname = (chain(env.expand(key)) or [''])[-1] if key is not None else None
                kexp = env.expand(key) if key is not None else None
                if (isinstance(kexp, ast.Lambda) and len(kexp.args.args) == 1 and isinstance(kexp.body, ast.Call) and not kexp.body.args
                        and isinstance(kexp.body.func, ast.Attribute) and isinstance(kexp.body.func.value, ast.Attribute)
                        and name_is(kexp.body.func.value.value, kexp.args.args[0].arg)):
                    # lambda c: c._extent.longlex()  is the key function _longlex written in place
                    side, meth = kexp.body.func.value.attr, kexp.body.func.attr
                    kname = '_longlex' if (side, meth) == ('_extent', 'longlex') else f'lambda: {side}.{meth}()'
                elif kname == '':
                    kname = None
                ok = (chain(s.args[0]) == [inst, '_concepts'] and kname == '_longlex' and 'reverse' not in kws and set(kws) == {'key'})
                if 'reverse' in kws or kname != '_longlex':
                    found = f'key={kname}, reverse={src(kws.get("reverse"))}'
                # sorted(<all members>, key=<a key function of this class>[, reverse=...]) is the recognised construct: its slots decide
                parsed = (chain(s.args[0]) == [inst, '_concepts'] and kname is not None and (kname in ('_longlex', '_shortlex') or kname.startswith('lambda: '))
                          and set(kws) <= {'key', 'reverse'})
        R.check(ok, 'ORDER', f, l, 'dindex = position in long-lexicographic order of all members',
                f'for dindex, c in enumerate(sorted({inst}._concepts, key={inst}._longlex))', found,
                extra={'note': 'reversed shortlex is a different order than longlex (ties within one size are ordered the same way)'},
                strict=True if parsed else False)
        dv, cv = (t.id for t in l.target.elts)
        a = [s for s in l.body if isinstance(s, ast.Assign) and chain(s.targets[0]) == [cv, 'dindex']]
        R.check(len(a) == 1 and name_is(a[0].value, dv), 'ORDER', f, a[0] if a else l, 'dindex assigned from the enumeration', f'{cv}.dindex = {dv}')
    lat = model.cls('lattices.Lattice')
    for name, want in (('infimum', 'self._concepts[0]'), ('supremum', 'self._concepts[-1]'), ('atoms', 'self.infimum.upper_neighbors')):
        m = lat.methods.get(name)
        if m is None:
            R.unknown('ORDER', f'lattices.Lattice.{name}', lat.node, f'lattice.{name}', 'missing')
        else:
            R.returns(m, want, 'ORDER', f'lattice.{name}')
    # class patching: atoms / supremum / infimum in that order so that a one/two-element lattice ends up right
    patches = []
    for s in stmts(f.body):
        if isinstance(s, ast.Assign) and chain(s.targets[0]) and chain(s.targets[0])[-1] == '__class__':
            patches.append((src(s.targets[0]), src(s.value), s))
    class_patches(R, f, inst, patches)


def class_patches(R, f, inst, patches=None, rule='ORDER'):
    """Atom / Supremum / Infimum classes are assigned so that the bottom of a one-element lattice ends up an Infimum."""
    if patches is None:
        patches = []
        for s in stmts(f.body):
            if isinstance(s, ast.Assign) and chain(s.targets[0]) and chain(s.targets[0])[-1] == '__class__':
                patches.append((src(s.targets[0]), src(s.value), s))
    got = {v: t for t, v, _ in patches}
    R.check(got.get('Supremum') == f'{inst}.supremum.__class__' and got.get('Infimum') == f'{inst}.infimum.__class__' and 'Atom' in got,
            rule, f, patches[0][2] if patches else f.node, 'extremal members get their classes',
            'atoms -> Atom, supremum -> Supremum, infimum -> Infimum', str(got))
    if len(patches) == 3:
        order = [v for _, v, _ in sorted(patches, key=lambda p: p[2].lineno)]
        R.check(order.index('Infimum') == 2, rule, f, patches[0][2], 'Infimum is patched last (one-element lattice: bottom wins)', 'Atom, Supremum, Infimum',
                ', '.join(order), strict=True if set(order) == {'Atom', 'Supremum', 'Infimum'} else None,
                extra={'consequence': 'in a lattice with a single concept the later assignment wins: the only concept is not an Infimum, '
                                      'its minimal()/attributes() and bottom-specific behaviour are those of another class'})


def fromlist_rules(model, R):
    f = model.func('lattices.Data._fromlist')
    p_un = f.params[3]
    env = Env(f)
    branch = [s for s in f.body if isinstance(s, ast.If) and name_is(s.test, p_un)]
    if len(branch) != 1:
        R.unknown('ORDER', f, f.node, '_fromlist: unordered/ordered branch', f'{len(branch)} branches on {p_un}')
        return
    br = branch[0]
    un, ordd = br.body, br.orelse
    # member list name
    cons = None
    for s in f.body:
        if isinstance(s, ast.Assign) and isinstance(s.value, ast.ListComp) and isinstance(s.value.elt, ast.Call) and name_is(s.value.elt.func, 'Concept'):
            cons = s.targets[0].id
    if cons is None:
        R.unknown('ORDER', f, f.node, '_fromlist: member list', 'not found')
        return
    # --- unordered path
    def is_index_map(v):
        # dict(enumerate(concepts))  /  {i: c for i, c in enumerate(concepts)}  /  list(concepts) / concepts[:] (positions as indexes)
        if isinstance(v, ast.Call) and name_is(v.func, 'dict') and v.args and isinstance(v.args[0], ast.Call) and name_is(v.args[0].func, 'enumerate'):
            return name_is(v.args[0].args[0], cons)
        if isinstance(v, ast.DictComp) and len(v.generators) == 1 and not v.generators[0].ifs:
            g = v.generators[0]
            return (isinstance(g.iter, ast.Call) and name_is(g.iter.func, 'enumerate') and name_is(g.iter.args[0], cons)
                    and isinstance(g.target, ast.Tuple) and [src(v.key), src(v.value)] == [src(t) for t in g.target.elts])
        if isinstance(v, ast.Call) and isinstance(v.func, ast.Name) and v.func.id in ('list', 'tuple') and v.args and name_is(v.args[0], cons):
            return True
        return isinstance(v, ast.Subscript) and isinstance(v.slice, ast.Slice) and name_is(v.value, cons)
    idxmap = [s for s in un if isinstance(s, ast.Assign) and isinstance(s.targets[0], ast.Name) and is_index_map(s.value)]
    sorts = [s for s in un if isinstance(s, ast.Expr) and isinstance(s.value, ast.Call) and chain(s.value.func) == [cons, 'sort']]
    loops = [s for s in un if isinstance(s, ast.For)]
    if len(idxmap) == 1 and len(sorts) == 1:
        R.decided(idxmap[0].lineno < sorts[0].lineno, 'ORDER', f, sorts[0], '_fromlist(raw): stored positions are captured before the members are sorted',
                  f'index_map = dict(enumerate({cons})) before {cons}.sort(key=shortlex)', f'map at line {idxmap[0].lineno}, sort at line {sorts[0].lineno}')
    elif len(sorts) == 1 and not idxmap:
        uses_cons = any(isinstance(n, ast.Subscript) and name_is(n.value, cons) for s_ in un for n in ast.walk(s_))
        if uses_cons:
            R.bad('ORDER', f, sorts[0], '_fromlist(raw): stored positions are captured before the members are sorted',
                  f'index_map = dict(enumerate({cons})) before {cons}.sort(key=shortlex)', 'stored indexes are resolved against the already re-sorted list')
        else:
            R.unknown('ORDER', f, sorts[0], '_fromlist(raw): position map', src(un)[:120])
    else:
        R.unknown('ORDER', f, br, '_fromlist(raw): position map and sort', src(un)[:120])
    if sorts:
        kws = {k.arg: k.value for k in sorts[0].value.keywords}
        benv = Env(un)
        key = kws.get('key')
        key = benv.expand(key) if key is not None else None
        kname = (chain(key) or [''])[-1] if key is not None else None
        R.check(kname == '_shortlex' and set(kws) == {'key'}, 'ORDER', f, sorts[0], '_fromlist(raw): members sorted by shortlex',
                f'{cons}.sort(key=inst._shortlex)', f'key={src(key)}' + (f' reverse={src(kws["reverse"])}' if 'reverse' in kws else ''))
    for path, body, raw in (('raw', un, True), ('ordered', ordd, False)):
        loops = [s for s in body if isinstance(s, ast.For)]
        if len(loops) != 1:
            R.unknown('ORDER', f, br, f'_fromlist({path}): indexing loop', f'{len(loops)} loops')
            continue
        l = loops[0]
        it = l.iter
        ok = (isinstance(it, ast.Call) and name_is(it.func, 'enumerate') and len(it.args) == 1 and name_is(it.args[0], cons)
              and isinstance(l.target, ast.Tuple) and len(l.target.elts) == 2)
        R.check(ok, 'ORDER', f, l, f'_fromlist({path}): index = position in the {"sorted" if raw else "stored"} member list',
                f'for index, c in enumerate({cons})', src(it))
        if not ok:
            continue
        if raw and sorts:
            R.check(l.lineno > sorts[0].lineno, 'ORDER', f, l, '_fromlist(raw): index assigned after sorting', 'loop after sort')
        iv, cv = (t.id for t in l.target.elts)
        a = [s for s in l.body if isinstance(s, ast.Assign) and chain(s.targets[0]) == [cv, 'index']]
        R.check(len(a) == 1 and name_is(a[0].value, iv), 'ORDER', f, a[0] if a else l, f'_fromlist({path}): index assigned from the enumeration', f'{cv}.index = {iv}')
        lenv = Env(l.body, params=[iv, cv])
        benv = Env(body)
        for attr, keyname in (('upper_neighbors', '_shortlex'), ('lower_neighbors', '_longlex')):
            a = [s for s in l.body if isinstance(s, ast.Assign) and chain(s.targets[0]) == [cv, attr]]
            if len(a) != 1:
                R.unknown('ORDER', f, l, f'_fromlist({path}): {attr}', f'{len(a)} assignments')
                continue
            v = lenv.expand(a[0].value)
            inner = v.args[0] if isinstance(v, ast.Call) and name_is(v.func, 'tuple') and v.args else v
            sortcall = inner if isinstance(inner, ast.Call) and name_is(inner.func, 'sorted') else None
            gen = sortcall.args[0] if sortcall is not None else inner
            src_map = idxmap[0].targets[0].id if (raw and idxmap) else cons
            ok = (isinstance(gen, (ast.GeneratorExp, ast.ListComp)) and len(gen.generators) == 1 and not gen.generators[0].ifs
                  and chain(gen.generators[0].iter) == [cv, attr] and isinstance(gen.elt, ast.Subscript)
                  and name_is(gen.elt.value, src_map) and name_is(gen.elt.slice, src(gen.generators[0].target)))
            if raw and not idxmap:
                R.unknown('ORDER', f, a[0], f'_fromlist({path}): {attr} resolved through the stored positions', src(gen)[:100])
            else:
                R.check(ok, 'ORDER', f, a[0], f'_fromlist({path}): {attr} resolved through the stored positions, all of them',
                        f'({src_map}[i] for i in {cv}.{attr})', src(gen)[:100])
            if raw:
                if sortcall is None:
                    R.bad('ORDER', f, a[0], f'_fromlist(raw): {attr} re-sorted', f'sorted(..., key={keyname})', 'not sorted')
                else:
                    kws = {k.arg: k.value for k in sortcall.keywords}
                    key = kws.get('key')
                    key = benv.expand(key) if key is not None else None
                    kname = (chain(key) or [''])[-1] if key is not None else None
                    R.check(kname == keyname and set(kws) == {'key'}, 'ORDER', f, a[0], f'_fromlist(raw): {attr} sorted by {keyname[1:]}',
                            f'sorted(..., key={keyname})', f'key={src(key)}')


def setstate_passes_state(model, R):
    """The ordered (trusting) path of _fromlist is only sound for lists produced by _tolist: __setstate__ must hand over the
    unpickled component itself, and __getstate__ must be _tolist's output."""
    ls = model.func('lattices.Data.__setstate__')
    lg = model.func('lattices.Data.__getstate__')
    calls = [n for n in walk(ls.body) if isinstance(n, ast.Call) and (chain(n.func) or [''])[-1] == '_fromlist']
    if len(calls) != 1 or len(calls[0].args) < 2:
        R.unknown('ORDER', ls, ls.node, '__setstate__ rebuilds through _fromlist', f'{len(calls)} _fromlist calls')
        return
    c = calls[0]
    raw = c.args[2] if len(c.args) > 2 else next((k.value for k in c.keywords if k.arg == 'unordered'), None)
    if raw is not None and const(raw, 'x') is True:
        R.ok('ORDER', ls, c, '__setstate__ re-sorts the stored lists (unordered=True)')
        return
    arg = c.args[1]
    unp = [s_ for s_ in ls.body if isinstance(s_, ast.Assign) and name_is(s_.value, ls.params[1]) and isinstance(s_.targets[0], ast.Tuple)]
    names = [t.id for t in unp[0].targets[0].elts if isinstance(t, ast.Name)] if unp else []
    rebound = [s_ for s_ in stmts(ls.body) if isinstance(s_, (ast.Assign, ast.AugAssign)) and s_ not in unp
               and isinstance(arg, ast.Name) and arg.id in [n.id for t in (s_.targets if isinstance(s_, ast.Assign) else [s_.target]) for n in ast.walk(t) if isinstance(n, ast.Name)]]
    if isinstance(arg, ast.Name) and arg.id in names and not rebound:
        r = [n.value for n in walk(lg.body) if isinstance(n, ast.Return)]
        pos = names.index(arg.id)
        comp = r[0].elts[pos] if len(r) == 1 and isinstance(r[0], ast.Tuple) and len(r[0].elts) > pos else None
        R.same(comp is not None and src(comp) == 'self._tolist()', 'ORDER', lg, lg.node,
               'the pickled list is _tolist() itself (canonical order of members and of both neighbour lists)', 'self._tolist()', src(comp))
    else:
        R.unknown('ORDER', ls, c, '__setstate__ hands the unpickled list unchanged to the order-trusting path of _fromlist',
                  f'{src(arg)} is rebuilt before the call' if rebound else src(arg))


def who_may_write(model, R):
    allowed = {
        'index': {'lattices.Data.__init__', 'lattices.Data._fromlist'},
        'dindex': {'lattices.Data._init'},
        'atoms': {'lattices.Data._init'},
        'upper_neighbors': {'lattice_members.Pair.__init__', 'lattices.Data.__init__', 'lattices.Data._fromlist'},
        'lower_neighbors': {'lattice_members.Pair.__init__', 'lattices.Data.__init__', 'lattices.Data._fromlist'},
        '_extent': {'lattice_members.Pair.__init__'}, '_intent': {'lattice_members.Pair.__init__'},
        '_concepts': {'lattices.Data._init'}, '_mapping': {'lattices.Data._init'},
    }
    n = 0
    for fn in model.all_funcs():
        for node in walk(fn.body):
            if isinstance(node, ast.Attribute) and isinstance(node.ctx, (ast.Store, ast.Del)) and node.attr in allowed:
                n += 1
                if fn.key not in allowed[node.attr]:
                    R.bad('WHO-MAY-WRITE', fn, node, f'.{node.attr} written only while constructing',
                          ' / '.join(sorted(allowed[node.attr])), f'{fn.key} writes {src(node)}')
            if (isinstance(node, ast.Call) and isinstance(node.func, ast.Attribute) and node.func.attr in ('sort', 'reverse', 'append', 'insert', 'pop', 'remove', 'extend', 'clear')
                    and isinstance(node.func.value, ast.Attribute) and node.func.value.attr == '_concepts'):
                R.bad('WHO-MAY-WRITE', fn, node, 'member list never mutated in place', 'no in-place mutation of _concepts', src(node))
    R.ok('WHO-MAY-WRITE', 'package', 'concepts/', f'{n} write sites of rank/link attributes, all in constructing functions')


def raw_is_forwarded(model, R):
    """The loaders that promise to sort an unordered serialisation (``raw=True``) hand their flag down to _fromlist."""
    fj = model.func('contexts.Data.fromjson')
    fd = model.func('contexts.Data.fromdict')
    for f, callee, param in ((fj, 'fromdict', 'raw'), (fd, '_fromlist', 'unordered')):
        if 'raw' not in f.params:
            R.unknown('ORDER', f, f.node, f'{f.name}: raw parameter', 'no parameter raw')
            continue
        calls = [n for n in walk(f.body) if isinstance(n, ast.Call) and (chain(n.func) or [''])[-1] == callee]
        if len(calls) != 1:
            R.unknown('ORDER', f, f.node, f'{f.name}: call of {callee}', f'{len(calls)} calls')
            continue
        bound = model.bind(f, calls[0])
        if bound is None:
            R.unknown('ORDER', f, calls[0], f'{f.name}: call of {callee}', 'callee not resolved')
            continue
        v = bound.get(param)
        R.decided(v is not None and name_is(v, 'raw'), 'ORDER', f, calls[0], f'{f.name}: raw is handed to {callee}({param}=...)', f'{param}=raw',
                  f'{param}={src(v)}' if v is not None else f'{param} not passed (default: the stored order is trusted)',
                  extra={'consequence': 'an unordered serialisation loaded with raw=True is not sorted: iteration order, indexes and neighbour tuples are those of the file'})


def run(model, R):
    R.floor('ORDER', 22)
    R.guard('ORDER', None, 'lindig.lattice', lindig_tpl.lattice_template, model, R, {'order': 'ORDER'})
    R.guard('ORDER', None, 'Lattice.__init__', lindig_tpl.init_template, model, R, {'order': 'ORDER'})
    R.guard('ORDER', None, '_init', init_rules, model, R)
    R.guard('ORDER', None, '_fromlist', fromlist_rules, model, R)
    R.guard('WHO-MAY-WRITE', None, 'package', who_may_write, model, R)
    from .common import flag_clobber
    flag_clobber(R, model.func('lattices.Data._fromlist'), ['unordered'])
    R.guard('ORDER', None, '__setstate__', setstate_passes_state, model, R)
    from .common import no_unpickle_shortcut
    R.guard('ORDER', None, '_init call sites', no_unpickle_shortcut, model, R, 'ORDER')
    R.guard('ORDER', None, 'raw flag', raw_is_forwarded, model, R)
    # positions are observable through lattice[i] and iteration (C02's lookup rules are a dependency)
    from . import c02 as _c02
    R.guard('MAPPING', None, 'Lattice lookups', _c02.lattice_rules, model, R)
    return __doc__.strip()
