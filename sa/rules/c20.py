"""C20: the Graphviz export draws exactly the labelled Hasse diagram.
Decides, on visualize.lattice: the loop ranges over all concepts of the lattice; each iteration
declares exactly one node, unconditionally, named from concept.index; every edge call site is
either a label carrier (a self-loop name -> name, guarded by the presence of that very label, with
headlabel built by the object callback from concept.objects resp. taillabel by the property
callback from concept.properties) or the cover edges, which are emitted in exactly one orientation
family (to every lower neighbour, or mirrored to every upper neighbour - never both, never
filtered); edges are undirected (dir=none); Lattice.graphviz forwards both callbacks unchanged.
DOT text production inside the graphviz package is outside /repo.
"""

import ast

from ..astutil import Env, chain, src, walk, const, stmts, strip_not
from ..model import Unrecognised
from .c13 import name_is


def resolve_lambda(mod, node):
    """``SORTKEYS[0]`` / ``NAME_GETTERS[0]`` -> the lambda stored in the module-level list."""
    if isinstance(node, ast.Subscript) and isinstance(node.value, ast.Name) and isinstance(const(node.slice), int):
        lst = mod.assigns.get(node.value.id)
        if isinstance(lst, (ast.List, ast.Tuple)) and len(lst.elts) > const(node.slice):
            return lst.elts[const(node.slice)]
    if isinstance(node, ast.Name) and node.id in mod.assigns:
        return mod.assigns[node.id]
    return node


def run(model, R):
    func = model.func('visualize.lattice')
    mod = func.module
    env = Env(func)
    p_lattice = func.params[0]
    R.floor('DRAWING', 9)
    # the Digraph object
    dots = [s for s in func.body if isinstance(s, ast.Assign) and isinstance(s.value, ast.Call)
            and (chain(s.value.func) or [''])[-1] in ('Digraph', 'Graph')]
    if len(dots) != 1 or not isinstance(dots[0].targets[0], ast.Name):
        raise Unrecognised('graph object construction', func=func, node=func.node)
    dot = dots[0].targets[0].id
    ctor = dots[0].value
    kws = {k.arg: k.value for k in ctor.keywords}
    undirected = (chain(ctor.func) or [''])[-1] == 'Graph'
    ea = kws.get('edge_attr')
    if isinstance(ea, ast.Dict):
        d = {const(k): const(v) for k, v in zip(ea.keys, ea.values)}
        undirected = undirected or d.get('dir') == 'none'
    R.check(undirected, 'DRAWING', func, ctor, 'edges undirected', "edge_attr dir='none'", src(ea)[:80] if ea else 'no edge_attr')
    # the loop over the concepts
    loops = [s for s in func.body if isinstance(s, ast.For)]
    loops = [l for l in loops if any(isinstance(n, ast.Call) and chain(n.func) and chain(n.func)[0] == dot for n in walk(l.body))]
    if len(loops) != 1:
        raise Unrecognised(f'{len(loops)} drawing loops', func=func, node=func.node)
    loop = loops[0]
    it = env.expand(loop.iter)
    all_concepts = chain(it) == [p_lattice, '_concepts'] or name_is(it, p_lattice) or (
        isinstance(it, ast.Call) and name_is(it.func, 'iter') and name_is(it.args[0], p_lattice))
    R.check(all_concepts and isinstance(loop.target, ast.Name), 'DRAWING', func, loop, 'loop over every concept of the lattice',
            f'for concept in {p_lattice}._concepts', src(loop.iter))
    if not isinstance(loop.target, ast.Name):
        return
    cv = loop.target.id
    lenv = Env(loop.body, params=[cv])
    name_getter = None
    # node name: a local bound once in the loop to f(concept) where f derives from concept.index
    name_var = None
    for s in loop.body:
        if isinstance(s, ast.Assign) and isinstance(s.targets[0], ast.Name) and isinstance(s.value, ast.Call) \
                and len(s.value.args) == 1 and name_is(s.value.args[0], cv):
            g = resolve_lambda(mod, env.expand(s.value.func))
            if isinstance(g, ast.Lambda):
                name_var, name_getter = s.targets[0].id, s.value.func
                arg = g.args.args[0].arg
                uses_index = any(chain(n) == [arg, 'index'] for n in ast.walk(g.body))
                only_index = all(chain(n) in ([arg, 'index'], None) or not isinstance(n, ast.Attribute) for n in ast.walk(g.body))
                R.check(uses_index and only_index, 'DRAWING', func, s, 'node name derived from concept.index (injective)',
                        "lambda c: f'c{c.index:d}'", src(g))
                break
    if name_var is None:
        raise Unrecognised('node name binding inside the loop', func=func, node=loop)

    def is_name_of(node, var):
        """node denotes the drawing name of concept variable ``var``."""
        if var == cv and name_is(node, name_var):
            return True
        return (isinstance(node, ast.Call) and src(node.func) == src(name_getter) and len(node.args) == 1 and name_is(node.args[0], var))

    # node declarations
    node_calls = [n for n in walk(loop.body) if isinstance(n, ast.Call) and chain(n.func) == [dot, 'node']]
    top_node = [s for s in loop.body if isinstance(s, ast.Expr) and s.value in node_calls]
    R.check(len(node_calls) == 1 and len(top_node) == 1 and node_calls[0].args and is_name_of(node_calls[0].args[0], cv),
            'DRAWING', func, node_calls[0] if node_calls else loop, 'exactly one unconditional node per concept',
            f'{dot}.node({name_var}) once per iteration', '; '.join(src(n) for n in node_calls) or 'no node call')
    outside = [n for n in walk(func.body) if isinstance(n, ast.Call) and chain(n.func) in ([dot, 'node'], [dot, 'edge'], [dot, 'edges'])
               and not any(n is m for m in walk(loop.body))]
    R.check(not outside, 'DRAWING', func, outside[0] if outside else func.node, 'no nodes/edges drawn outside the loop', 'none',
            '; '.join(src(n) for n in outside))
    # edges
    edge_calls = [n for n in walk(loop.body) if isinstance(n, ast.Call) and chain(n.func) in ([dot, 'edge'], [dot, 'edges'])]
    parents = {}
    for n in ast.walk(loop):
        for c in ast.iter_child_nodes(n):
            parents[c] = n

    def guard_of(call):
        """attribute of the concept whose truthiness guards the call (innermost If)."""
        cur = call
        while cur in parents and cur is not loop:
            par = parents[cur]
            if isinstance(par, ast.If) and any(cur is s or any(cur is x for x in ast.walk(s)) for s in par.body):
                t, neg = strip_not(par.test)
                c = chain(t)
                if c and c[0] == cv and len(c) == 2 and not neg:
                    return c[1]
                return src(par.test)
            cur = par
        return None

    # every drawing statement runs for every concept: no continue/break/return guard clause may precede it in the loop body
    from ..astutil import path_condition
    for call in node_calls + edge_calls:
        stmt_ = call
        while stmt_ in parents and not isinstance(stmt_, ast.stmt):
            stmt_ = parents[stmt_]
        pc = path_condition(loop.body, stmt_)
        if pc is None:
            continue
        own = guard_of(call)
        extra = [(t, pol) for t, pol in pc if not (chain(strip_not(t)[0]) == [cv, own] and pol != strip_not(t)[1])]
        # "if <the collection the edges are generated from>:" is vacuous - an empty collection draws nothing either way
        iterated = set()
        for a_ in call.args:
            if isinstance(a_, (ast.GeneratorExp, ast.ListComp)) and len(a_.generators) == 1 and isinstance(a_.generators[0].iter, ast.Name):
                iterated.add(a_.generators[0].iter.id)
        extra = [(t, pol) for t, pol in extra if not (pol and isinstance(t, ast.Name) and t.id in iterated)]
        kind_ = chain(call.func)[1]
        R.decided(not extra, 'DRAWING', func, call, f'{kind_} statement is reached for every concept (apart from its own label test)',
                  'no other condition / early continue before it', ' and '.join(('' if pol else 'not ') + src(t) for t, pol in extra),
                  extra={'consequence': 'concepts that fail the extra condition lose this node / label / edges'} if extra else None)
    label_seen = {}
    cover_families = []
    for call in edge_calls:
        kind = chain(call.func)[1]
        if kind == 'edge' and len(call.args) >= 2 and is_name_of(call.args[0], cv) and is_name_of(call.args[1], cv):
            # label carrier
            kws = {k.arg: k.value for k in call.keywords}
            labels = [k for k in ('headlabel', 'taillabel', 'label', 'xlabel') if k in kws]
            if len(labels) != 1:
                R.unknown('DRAWING', func, call, 'self-loop edge', f'label keywords {labels}')
                continue
            lab = labels[0]
            value = kws[lab]
            want = {'headlabel': ('objects', 'make_object_label'), 'taillabel': ('properties', 'make_property_label')}.get(lab)
            if want is None:
                R.unknown('DRAWING', func, call, 'self-loop edge', f'label keyword {lab}')
                continue
            attr, cb = want
            ok_val = (isinstance(value, ast.Call) and name_is(value.func, cb) and len(value.args) == 1 and chain(value.args[0]) == [cv, attr])
            R.check(ok_val, 'DRAWING', func, call, f'{lab} text = {cb}(concept.{attr})', f'{cb}({cv}.{attr})', src(value))
            g = guard_of(call)
            R.check(g == attr, 'DRAWING', func, call, f'{lab} attached iff the concept carries {attr}', f'if {cv}.{attr}:',
                    f'guard {g}')
            label_seen[lab] = label_seen.get(lab, 0) + 1
        elif kind == 'edge' and len(call.args) >= 2:
            # single cover edge inside a loop over neighbours
            fam = _edge_family(call.args[0], call.args[1], call, parents, loop, cv, is_name_of, None, lenv)
            cover_families.append((call, fam, guard_of(call)))
        elif kind == 'edges' and len(call.args) == 1:
            gen = call.args[0]
            gen = lenv.expand(gen) if isinstance(gen, ast.Name) else gen
            if not isinstance(gen, (ast.GeneratorExp, ast.ListComp)) or len(gen.generators) != 1 or not isinstance(gen.elt, ast.Tuple) \
                    or len(gen.elt.elts) != 2:
                R.unknown('DRAWING', func, call, 'cover edges', f'edges() argument {src(call.args[0])[:60]}')
                continue
            g = gen.generators[0]
            fam = _edge_family(gen.elt.elts[0], gen.elt.elts[1], call, parents, loop, cv, is_name_of, g, lenv)
            cover_families.append((call, fam, guard_of(call)))
        else:
            R.unknown('DRAWING', func, call, 'edge call', src(call)[:80])
    for lab, attr in (('headlabel', 'objects'), ('taillabel', 'properties')):
        R.check(label_seen.get(lab, 0) == 1, 'DRAWING', func, loop, f'one {lab} carrier per concept', 'exactly one', str(label_seen.get(lab, 0)))
    fams = [f for _, f, _ in cover_families]
    if not cover_families:
        from .common import absent
        absent(model, R, 'DRAWING', func, loop, 'cover edges', 'one edge per covering pair (to each lower neighbour)', 'no cover edges are drawn')
    for call, fam, g in cover_families:
        if fam is None:
            R.unknown('DRAWING', func, call, 'cover edges', 'endpoints not recognised')
            continue
        if fam[0] == 'bad':
            R.bad('DRAWING', func, call, 'cover edges', 'edges (concept, neighbour) for every lower neighbour', fam[1])
            continue
        R.check(g is None, 'DRAWING', func, call, 'cover edges unconditional', 'not guarded', f'guarded by {g}')
    good = [f for f in fams if f and f[0] in ('lower', 'upper')]
    resolved = not any(f is None for f in fams)     # an unresolved edge statement was reported above as not judged
    if resolved:
        R.check(len(good) == 1, 'DRAWING', func, loop, 'exactly one orientation family of cover edges',
                'edges to lower_neighbors only (or mirrored to upper_neighbors only)', f'{[f[0] for f in good]}: every cover would be drawn '
                + ('twice' if len(good) > 1 else 'never'))
    if len(good) == 1 and resolved:
        R.check(good[0][0] == 'lower', 'DRAWING', func, loop, 'drawn from a concept to each of its lower neighbours',
                'lower_neighbors', good[0][0] + '_neighbors')
    # the wrapper forwards the callbacks
    g = model.func('lattices.VisualizableMixin.graphviz')
    calls = [n for n in walk(g.body) if isinstance(n, ast.Call) and chain(n.func) and chain(n.func)[-1] == 'lattice']
    ok = False
    if len(calls) == 1:
        kws = model.bind(g, calls[0]) or {k.arg: k.value for k in calls[0].keywords}
        first = kws.get(func.params[0]) if func.params[0] in kws else (calls[0].args[0] if calls[0].args else None)
        ok = (name_is(kws.get('make_object_label'), 'make_object_label') and name_is(kws.get('make_property_label'), 'make_property_label')
              and name_is(first, g.params[0]))
    R.check(ok, 'DRAWING', g, calls[0] if calls else g.node, 'Lattice.graphviz forwards both label callbacks unchanged',
            'visualize.lattice(self, ..., make_object_label=make_object_label, make_property_label=make_property_label)',
            src(calls[0])[:160] if calls else 'no call')
    for fn in (g, func):
        d = fn.defaults()
        for p in ('make_object_label', 'make_property_label'):
            R.check(p in d and src(d[p]) == "' '.join", 'API-DEFAULT', fn, d.get(p) or fn.node, f'{p} default', "' '.join", src(d.get(p)))
    # "precisely when the concept carries objects/properties in the reduced labelling, from exactly those names": the labels
    # drawn are the ones Lattice._annotate computed (C10's labelling rules are a dependency)
    from . import c10
    R.guard('LABELLING', None, '_annotate', c10.annotate_rules, model, R)
    from .common import no_unpickle_shortcut
    R.guard('LABELLING', None, '_init call sites', no_unpickle_shortcut, model, R, 'LABELLING')
    return __doc__.strip()


def _edge_family(a, b, call, parents, loop, cv, is_name_of, gen, lenv=None):
    """('lower'|'upper', var) when (a, b) = (name(concept), name(c)) for c over concept.<x>_neighbors (either order)."""
    # find the neighbour variable and its iterable
    if gen is not None:
        if not isinstance(gen.target, ast.Name):
            return None
        var, it, ifs = gen.target.id, gen.iter, gen.ifs
    else:
        cur = call
        var = it = None
        ifs = []
        while cur in parents and cur is not loop:
            par = parents[cur]
            if isinstance(par, ast.For) and isinstance(par.target, ast.Name):
                var, it = par.target.id, par.iter
                break
            cur = par
        if var is None:
            return None
    # a local bound once in the loop body is replaced by its definition; order-only wrappers are stripped:
    # sorted(x, key=...), reversed(x), list(x), tuple(x)
    for _ in range(4):
        if isinstance(it, ast.Name) and lenv is not None and lenv.single(it.id) is not None:
            it = lenv.single(it.id)
        while isinstance(it, ast.Call) and isinstance(it.func, ast.Name) and it.func.id in ('sorted', 'reversed', 'list', 'tuple') and it.args:
            it = it.args[0]
    c = chain(it)
    if not (c and len(c) == 2 and c[0] == cv):
        return None
    if c[1] not in ('lower_neighbors', 'upper_neighbors'):
        return ('bad', f'neighbours range over {src(it)}')
    if ifs:
        return ('bad', f'neighbours filtered by {src(ifs[0])}: some covers are not drawn')
    ends_ok = (is_name_of(a, cv) and is_name_of(b, var)) or (is_name_of(a, var) and is_name_of(b, cv))
    if not ends_ok:
        return ('bad', f'endpoints ({src(a)}, {src(b)}) are not (this concept, the neighbour)')
    return (c[1].split('_')[0], var)
