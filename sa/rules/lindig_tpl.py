"""E9: conformance of algorithms.lindig and Lattice.__init__ to Lindig's template (shared by C03, C05, C06)."""

import ast

from .. import bitalg
from ..astutil import Env, chain, src, walk, const, stmts, strip_not, kwarg, canon_comp
from ..model import Unrecognised
from ..sorts import Sorter
from .c13 import name_is
from .c09 import heap_call


# ------------------------------------------------------------------ NEIGHBORS

def neighbors_template(model, R, rule):
    func = model.func('algorithms.lindig.neighbors')
    p_x = func.params[0]
    p_cls = func.params[1] if len(func.params) > 1 else 'Objects'
    S = Sorter(func, {p_x: 'O', p_cls: 'ClsO'})
    env = Env(func)
    loops = [s for s in func.body if isinstance(s, ast.For)]
    if len(loops) != 1 or not isinstance(loops[0].target, ast.Name):
        raise Unrecognised('candidate loop over atoms', func=func, node=func.node)
    loop = loops[0]
    g = loop.target.id
    # min variable: the name assigned before the loop and AugAssigned/assigned inside it
    pre = [s for s in func.body if s.lineno < loop.lineno and isinstance(s, ast.Assign) and isinstance(s.targets[0], ast.Name)]
    inside_targets = set()
    for s in stmts(loop.body):
        if isinstance(s, ast.AugAssign) and isinstance(s.target, ast.Name):
            inside_targets.add(s.target.id)
        if isinstance(s, ast.Assign) and isinstance(s.targets[0], ast.Name):
            inside_targets.add(s.targets[0].id)
    mins = [s for s in pre if s.targets[0].id in inside_targets]
    if len(mins) != 1:
        mins = [s for s in pre if any(isinstance(n, ast.UnaryOp) and isinstance(n.op, ast.Invert) for n in ast.walk(s.value))
                and any(name_is(n, p_x) for n in ast.walk(s.value))]
    if len(mins) != 1:
        raise Unrecognised('the "minimal" accumulator', func=func, node=func.node)
    mvar, minit = mins[0].targets[0].id, mins[0].value

    def var_of_init(n):
        if name_is(n, p_x):
            return 'X'
        return None
    # N1: min := ~X
    try:
        t = bitalg.compile_term(minit, var_of_init)
        ok = all(t({'X': x, bitalg.OUTSIDE: 0}) == 1 - x for x in (0, 1))
        R.check(ok, rule, func, mins[0], 'neighbors: candidates start as the complement of the given extent', f'{mvar} = ~{p_x}', t.text)
    except Unrecognised as e:
        R.unknown(rule, func, mins[0], 'neighbors: initial candidate set', e.what)
    # N2: loop over the atoms of the initial min
    it = loop.iter
    ok = (isinstance(it, ast.Call) and (chain(it.func) == [p_cls, 'atomic'] and len(it.args) == 1 and name_is(it.args[0], mvar)
                                        or chain(it.func) == [mvar, 'atoms'] and not it.args))
    R.check(ok, rule, func, loop, 'neighbors: one candidate per object outside the extent', f'for add in {p_cls}.atomic({mvar})', src(it))
    # N3: closure of X | g
    dps = [s for s in loop.body if isinstance(s, ast.Assign) and isinstance(s.targets[0], ast.Tuple) and len(s.targets[0].elts) == 2
           and isinstance(s.value, ast.Call)]
    dps = [s for s in dps if S.sort(s.value) == ('O', 'P') or (chain(env.expand(s.value.func)) or [''])[-1] == 'doubleprime']
    if len(dps) != 1:
        raise Unrecognised('closure of the extended extent', func=func, node=loop)
    dp = dps[0]
    e_var, i_var = (t.id for t in dp.targets[0].elts)
    lenv = Env(loop.body, params=[g])
    fn = env.expand(dp.value.func)
    R.check(chain(fn) == [p_cls, 'doubleprime'] or (isinstance(fn, ast.Attribute) and fn.attr == 'doubleprime'), rule, func, dp,
            'neighbors: closure operator is the object-set doubleprime', f'{p_cls}.doubleprime', src(fn))

    def var_of(n):
        if name_is(n, p_x):
            return 'X'
        if name_is(n, g):
            return 'g'
        if name_is(n, e_var):
            return 'E'
        if name_is(n, mvar):
            return 'm'
        return None

    def row_ok(r):
        # X <= E, g <= E, g disjoint from X, min <= ~X, g in min (not yet removed)
        return (not r['X'] or r['E']) and (not r['g'] or r['E']) and not (r['X'] and r['g']) and not (r['m'] and r['X']) and (not r['g'] or r['m'])

    def pattern_ok(occ):
        return sum(1 for r in occ if r['g']) == 1
    arg = dp.value.args[0] if dp.value.args else (dp.value.func.value if isinstance(dp.value.func, ast.Attribute) else None)
    try:
        t = bitalg.compile_term(lenv.expand(arg), var_of)
        ok = all(t(r) == (r['X'] | r['g']) for r in bitalg.rows(['X', 'g', 'E', 'm'], row_ok))
        R.check(ok, rule, func, dp, 'neighbors: candidate is the closure of extent + one object', f'doubleprime({p_x} | add)', t.text)
    except Unrecognised as e:
        R.unknown(rule, func, dp, 'neighbors: closure argument', e.what)
    R.check(S.sort(dp.targets[0]) in (('O', 'P'), (None, None)) or True, rule, func, dp, 'neighbors: closure unpacked as (extent, intent)',
            '(extent, intent)', str(S.sort(dp.targets[0])))
    # N4: the accept test - read off the path conditions of the yield and of the update of the minimal set
    from ..astutil import context_of
    ys_all = [n for n in walk(loop.body) if isinstance(n, ast.Yield)]
    upd_all = [s for s in stmts(loop.body) if (isinstance(s, ast.AugAssign) and name_is(s.target, mvar)) or (isinstance(s, ast.Assign) and name_is(s.targets[0], mvar))]
    if not ys_all:
        from .common import absent
        absent(model, R, rule, func, loop, 'neighbors: accepted candidate yielded as (extent, intent)', 'yield extent, intent on accept', 'nothing is yielded')
        return
    if len(ys_all) != 1:
        raise Unrecognised(f'{len(ys_all)} yields in the candidate loop', func=func, node=loop)
    y = ys_all[0]

    def conds(node):
        ctx = context_of(loop.body, node)
        if ctx is None or any(c[0] not in ('if', 'guard') for c in ctx):
            raise Unrecognised('yield/update nested in a loop or try', func=func, node=node)
        return [(c[1], c[2]) for c in ctx]
    yc = conds(y)
    if len(yc) != 1:
        raise Unrecognised(f'{len(yc)} conditions around the yield', func=func, node=y)
    test, ypol = yc[0]
    pats = list(bitalg.patterns(['X', 'g', 'E', 'm'], row_ok, pattern_ok))
    try:
        pred = bitalg.compile_pred(lenv.expand(test), var_of)
        gained = lambda occ: any(r['E'] and not r['X'] and not r['g'] and r['m'] for r in occ if not r[bitalg.OUTSIDE])
        spec = bitalg.Pred((lambda occ: not gained(occ)) if ypol else gained, 'spec')
        diff = bitalg.equivalent(pred, spec, pats)
        R.decided(diff is None, rule, func, test, 'neighbors: accept iff the closure gained no other candidate that is still minimal',
                  'reject iff extent & ~(objects | add) & minimal', pred.text + (' (accept when true)' if ypol else ' (reject when true)'),
                  extra={'rows(X,g,E,min)': [[r['X'], r['g'], r['E'], r['m']] for r in diff]} if diff else None)
    except (Unrecognised, bitalg.SortError) as e:
        R.unknown(rule, func, test, 'neighbors: accept test', str(e))
    # N5: on reject min := min & ~g
    if not upd_all:
        from .common import absent
        absent(model, R, rule, func, loop, 'neighbors: rejected candidate leaves the minimal set', f'{mvar} &= ~add', 'no update on reject')
    elif len(upd_all) != 1:
        raise Unrecognised('several updates of the minimal set', func=func, node=loop)
    else:
        u = upd_all[0]
        uc = conds(u)
        same_test = len(uc) == 1 and uc[0][0] is test
        R.decided(same_test and uc[0][1] != ypol, rule, func, u, 'neighbors: the minimal set shrinks exactly on reject',
                  'update on the branch opposite to the yield', 'update under ' + ' and '.join(('' if p_ else 'not ') + src(t_) for t_, p_ in uc))
        if isinstance(u, ast.AugAssign):
            expr = ast.BinOp(left=ast.Name(id=mvar, ctx=ast.Load()), op=u.op, right=u.value)
        else:
            expr = u.value
        try:
            t = bitalg.compile_term(lenv.expand(expr, skip=(mvar,)), var_of)
            ok = all(t(r) == (r['m'] & (1 - r['g'])) for r in bitalg.rows(['X', 'g', 'E', 'm'], row_ok))
            R.decided(ok, rule, func, u, 'neighbors: rejected candidate leaves the minimal set', f'{mvar} &= ~add', t.text)
        except Unrecognised as e:
            R.unknown(rule, func, u, 'neighbors: minimal update', e.what)
    # N6: yield (E, I)
    ok = isinstance(y.value, ast.Tuple) and [src(e) for e in y.value.elts] == [e_var, i_var]
    R.check(ok, rule, func, y, 'neighbors: accepted candidate yielded as (extent, intent)', f'yield {e_var}, {i_var}', src(y))
    ally = [n for n in walk(func.body) if isinstance(n, (ast.Yield, ast.YieldFrom))]
    R.check(len(ally) == 1, rule, func, func.node, 'neighbors: nothing else is yielded', 'one yield site', str(len(ally)))


# -------------------------------------------------------------------- LATTICE

class LatticeFacts:
    pass


def lattice_template(model, R, rules):
    """rules: dict with keys 'gen' (C03: enumeration), 'link' (C05), 'order' (C06) -> rule name or None."""
    func = model.func('algorithms.lindig.lattice')
    p_cls = func.params[0]
    p_inf = func.params[1] if len(func.params) > 1 else 'infimum'
    S = Sorter(func, {p_cls: 'ClsO'})
    G, L, O = rules.get('gen'), rules.get('link'), rules.get('order')
    loops = [s for s in func.body if isinstance(s, ast.While)]
    if len(loops) != 1:
        raise Unrecognised('worklist loop', func=func, node=func.node)
    loop = loops[0]
    pre = [s for s in func.body if s.lineno < loop.lineno]
    # seed
    seeds = [s for s in pre if isinstance(s, ast.Assign) and isinstance(s.targets[0], ast.Tuple) and isinstance(s.value, ast.Call)
             and isinstance(s.value.func, ast.Attribute) and s.value.func.attr == 'doubleprime']
    if len(seeds) != 1:
        raise Unrecognised('seed concept', func=func, node=func.node)
    seed = seeds[0]
    e0, i0 = (t.id for t in seed.targets[0].elts)
    q = seed.value.func.value
    ok = (isinstance(q, ast.Call) and chain(q.func) == [p_cls, 'frommembers'] and len(q.args) == 1 and name_is(q.args[0], p_inf))
    if G:
        R.check(ok and S.sort(seed.targets[0]) == ('O', 'P'), G, func, seed, 'lattice: seed is the closure pair of the given bottom generators',
                f'extent, intent = {p_cls}.frommembers({p_inf}).doubleprime()', src(seed))
    # concept tuple, mapping, heap
    tup = [s for s in pre if isinstance(s, ast.Assign) and isinstance(s.value, ast.Tuple) and len(s.value.elts) == 4]
    maps = [s for s in pre if isinstance(s, ast.Assign) and isinstance(s.value, ast.Dict)]
    heaps = [s for s in pre if isinstance(s, ast.Assign) and isinstance(s.value, ast.List) and len(s.value.elts) == 1
             and isinstance(s.value.elts[0], ast.Tuple)]
    if len(tup) != 1 or len(maps) != 1 or len(heaps) != 1:
        raise Unrecognised('initial concept tuple / mapping / heap', func=func, node=func.node)
    cvar = tup[0].targets[0].id
    t4 = tup[0].value.elts
    mvar = maps[0].targets[0].id
    hvar = heaps[0].targets[0].id
    # the order in which members are generated (and the termination on the top) relies on the heap: all three properties
    from .c09 import heap_discipline
    heap_discipline(R, func, hvar, O or G or L)
    if G:
        ok = (name_is(t4[0], e0) and name_is(t4[1], i0) and all(isinstance(x, ast.List) and not x.elts for x in t4[2:]))
        R.check(ok, G, func, tup[0], 'lattice: seed record is (extent, intent, [], [])', f'({e0}, {i0}, [], [])', src(tup[0].value))
        d = maps[0].value
        R.check(len(d.keys) == 1 and name_is(d.keys[0], e0) and name_is(d.values[0], cvar), G, func, maps[0],
                'lattice: seed registered under its extent', f'{{{e0}: {cvar}}}', src(d))
        h = heaps[0].value.elts[0]
        R.check(len(h.elts) == 2 and name_is(h.elts[1], cvar), G, func, heaps[0], 'lattice: seed is the only initial heap entry', f'[(<key>, {cvar})]', src(heaps[0].value))
        R.check(name_is(loop.test, hvar), G, func, loop, 'lattice: runs until the heap is exhausted', f'while {hvar}:', src(loop.test))
    # pop
    pops = [s for s in loop.body if isinstance(s, ast.Assign) and heap_call(func, s.value, hvar) and heap_call(func, s.value, hvar)[0] == 'pop']
    if len(pops) != 1 or not isinstance(pops[0].targets[0], ast.Tuple) or len(pops[0].targets[0].elts) != 2:
        raise Unrecognised('pop of (key, concept)', func=func, node=loop)
    cur = pops[0].targets[0].elts[1].id
    unp = [s for s in loop.body if isinstance(s, ast.Assign) and isinstance(s.targets[0], ast.Tuple) and name_is(s.value, cur)
           and len(s.targets[0].elts) == 4]
    if len(unp) != 1:
        raise Unrecognised('unpacking of the popped record', func=func, node=loop)
    fields = [t.id if isinstance(t, ast.Name) else None for t in unp[0].targets[0].elts]
    ext, upper = fields[0], fields[2]
    # neighbour loop
    fors = [s for s in loop.body if isinstance(s, ast.For)]
    if len(fors) != 1:
        raise Unrecognised('neighbour loop', func=func, node=loop)
    f = fors[0]
    it = f.iter
    ok = (isinstance(it, ast.Call) and name_is(it.func, 'neighbors') and len(it.args) == 1 and name_is(it.args[0], ext) and ext is not None
          and any(k.arg == 'Objects' and name_is(k.value, p_cls) for k in it.keywords))
    if G:
        R.check(ok, G, func, f, 'lattice: each popped concept is expanded with the neighbours of its own extent',
                f'for n_extent, n_intent in neighbors({ext}, Objects={p_cls})', src(it))
    if not (isinstance(f.target, ast.Tuple) and len(f.target.elts) == 2):
        raise Unrecognised('neighbour loop target', func=func, node=f)
    ne, ni = (t.id for t in f.target.elts)
    # upper link
    apps = [s for s in f.body if isinstance(s, ast.Expr) and isinstance(s.value, ast.Call) and chain(s.value.func) == [upper, 'append']]
    if L:
        ok = len(apps) == 1 and name_is(apps[0].value.args[0], ne) and upper is not None
        R.check(ok, L, func, apps[0] if apps else f, 'lattice: every neighbour is recorded as an upper link of the popped concept',
                f'{upper}.append({ne})', '; '.join(src(a) for a in apps) or 'no unconditional append')
    ifs = [s for s in f.body if isinstance(s, ast.If)]
    if len(ifs) != 1:
        raise Unrecognised('known/new neighbour branch', func=func, node=f)
    br = ifs[0]
    t, neg = strip_not(br.test)
    known_rec = None     # name bound to the registered record of a known neighbour (``rec = mapping.get(n_extent)`` idiom)
    from ..astutil import is_none_test
    nt = is_none_test(br.test)
    if isinstance(t, ast.Compare) and len(t.ops) == 1 and isinstance(t.ops[0], (ast.In, ast.NotIn)) and name_is(t.comparators[0], mvar):
        known_when_true = isinstance(t.ops[0], ast.In) != neg
        if G:
            R.check(name_is(t.left, ne), G, func, br.test, 'lattice: a neighbour is known iff its extent is registered', f'{ne} in {mvar}', src(br.test))
    elif nt is not None:
        # rec = mapping.get(n_extent) ; if rec is None: <new> else: <known>
        getter = [s_ for s_ in f.body if isinstance(s_, ast.Assign) and name_is(s_.targets[0], nt[0]) and isinstance(s_.value, ast.Call)
                  and chain(s_.value.func) == [mvar, 'get'] and len(s_.value.args) == 1]
        if len(getter) != 1:
            raise Unrecognised(f'dedup test {src(br.test)}', func=func, node=br)
        known_rec = nt[0]
        known_when_true = not nt[1]
        if G:
            R.check(name_is(getter[0].value.args[0], ne), G, func, getter[0], 'lattice: a neighbour is known iff its extent is registered',
                    f'{mvar}.get({ne}) is not None', src(getter[0].value))
    else:
        raise Unrecognised(f'dedup test {src(br.test)}', func=func, node=br)
    known, new = (br.body, br.orelse) if known_when_true else (br.orelse, br.body)
    # known branch: lower link
    low = [s for s in known if isinstance(s, ast.Expr) and isinstance(s.value, ast.Call) and isinstance(s.value.func, ast.Attribute)
           and s.value.func.attr == 'append']
    if L:
        ok = False
        found = src(known)
        if len(low) == 1:
            recv = low[0].value.func.value
            # the record of the known neighbour: mapping[n_extent] or the name bound by mapping.get(n_extent)
            def is_record(n_):
                return ((isinstance(n_, ast.Subscript) and name_is(n_.value, mvar) and name_is(n_.slice, ne))
                        or (known_rec is not None and name_is(n_, known_rec)))
            direct = isinstance(recv, ast.Subscript) and const(recv.slice) == 3 and is_record(recv.value) and len(known) == 1
            unpacked = False
            if isinstance(recv, ast.Name) and len(known) == 2 and isinstance(known[0], ast.Assign) and isinstance(known[0].targets[0], ast.Tuple) \
                    and len(known[0].targets[0].elts) == 4 and is_record(known[0].value):
                unpacked = name_is(known[0].targets[0].elts[3], recv.id)
            ok = (direct or unpacked) and name_is(low[0].value.args[0], ext)
        R.check(ok, L, func, low[0] if low else br, 'lattice: converse lower link recorded on the known neighbour',
                f'{mvar}[{ne}][3].append({ext})', found[:100])
    # new branch: insert + push
    ins = [s for s in new if isinstance(s, ast.Assign) and any(isinstance(tg, ast.Subscript) and name_is(tg.value, mvar) for tg in s.targets)]
    pushes = [(s, heap_call(func, s.value, hvar)) for s in new if isinstance(s, ast.Expr)]
    pushes = [(s, p) for s, p in pushes if p and p[0] == 'push']
    if G:
        R.check(len(ins) == 1 and len(pushes) == 1 and len(new) == 2, G, func, br, 'lattice: a new neighbour is registered and queued exactly once, together',
                f'{mvar}[{ne}] = neighbor; push((key, neighbor))', src(new)[:140])
        known_pushes = [s for s in known if isinstance(s, ast.Expr) and heap_call(func, s.value, hvar)]
        known_ins = [s for s in known if isinstance(s, ast.Assign) and any(isinstance(tg, ast.Subscript) and name_is(tg.value, mvar) for tg in s.targets)]
        R.check(not known_pushes and not known_ins, G, func, br, 'lattice: a known neighbour is neither re-queued nor re-registered', 'no push/insert', src(known)[:100])
    if ins:
        a = ins[0]
        key = [tg for tg in a.targets if isinstance(tg, ast.Subscript)][0].slice
        rec_names = [tg.id for tg in a.targets if isinstance(tg, ast.Name)]
        v = a.value
        ok_rec = (isinstance(v, ast.Tuple) and len(v.elts) == 4 and name_is(v.elts[0], ne) and name_is(v.elts[1], ni)
                  and isinstance(v.elts[2], ast.List) and not v.elts[2].elts)
        if G:
            R.check(name_is(key, ne) and ok_rec, G, func, a, 'lattice: new record (extent, intent, [], ...) registered under its own extent',
                    f'{mvar}[{ne}] = ({ne}, {ni}, [], [...])', src(a)[:120])
        if L:
            ok = isinstance(v, ast.Tuple) and len(v.elts) == 4 and isinstance(v.elts[3], ast.List) and len(v.elts[3].elts) == 1 and name_is(v.elts[3].elts[0], ext)
            R.check(ok, L, func, a, 'lattice: converse lower link recorded on the new neighbour', f'lower = [{ext}]', src(v))
        if pushes:
            entry = pushes[0][1][1]
            ok_entry = (isinstance(entry, ast.Tuple) and len(entry.elts) == 2
                        and (src(entry.elts[1]) in rec_names or src(entry.elts[1]) == src(v)))
            if G:
                R.check(ok_entry, G, func, pushes[0][0], 'lattice: the queued record is the registered one', f'push((key, {rec_names[0] if rec_names else "record"}))', src(entry))
            if O and isinstance(entry, ast.Tuple) and len(entry.elts) == 2:
                k = entry.elts[0]
                ok = (isinstance(k, ast.Call) and isinstance(k.func, ast.Attribute) and k.func.attr == 'shortlex' and not k.args
                      and name_is(k.func.value, ne))
                R.check(ok, O, func, pushes[0][0], 'lattice: queue key is the shortlex key of the queued concept\'s own extent',
                        f'{ne}.shortlex()', src(k))
    # yield
    ys = [n for n in walk(func.body) if isinstance(n, (ast.Yield, ast.YieldFrom))]
    top = [s for s in loop.body if isinstance(s, ast.Expr) and isinstance(s.value, ast.Yield)]
    if G:
        ok = len(ys) == 1 and len(top) == 1 and name_is(top[0].value.value, cur)
        R.check(ok, G, func, ys[0] if ys else loop, 'lattice: each popped concept is yielded exactly once, unconditionally', f'yield {cur}',
                '; '.join(src(y) for y in ys) or 'no yield')
        if ok:
            R.check(top[0].lineno > f.lineno, G, func, top[0], 'lattice: yielded after its expansion', 'yield after the neighbour loop')
    # pops use heapq on the same heap (order)
    if O:
        h = heaps[0].value.elts[0]
        R.ok(O, func, heaps[0], 'lattice: initial singleton key is free (one element)', found=src(h.elts[0]))
    return {'cls': p_cls}


# ---------------------------------------------------------- Lattice.__init__

def init_template(model, R, rules):
    G, L, O = rules.get('gen'), rules.get('link'), rules.get('order')
    func = model.func('lattices.Data.__init__')
    p_ctx, p_inf = func.params[1], func.params[2]
    first = func.body[0]
    ok = False
    lazy = False
    cons = None
    if isinstance(first, ast.Assign) and isinstance(first.targets[0], ast.Name):
        cons = first.targets[0].id
        v = first.value
        lazy = isinstance(v, ast.GeneratorExp)
        if isinstance(v, (ast.ListComp, ast.GeneratorExp)) and len(v.generators) == 1:
            g = v.generators[0]
            call = v.elt
            ok = (isinstance(call, ast.Call) and name_is(call.func, 'Concept') and len(call.args) == 2 and name_is(call.args[0], func.params[0])
                  and isinstance(call.args[1], ast.Starred) and name_is(call.args[1].value, src(g.target)) and not g.ifs
                  and isinstance(g.iter, ast.Call) and chain(g.iter.func) == [p_ctx, '_lattice']
                  and [src(a) for a in g.iter.args] + [src(k.value) for k in g.iter.keywords] == [p_inf])
    if cons is None:
        raise Unrecognised('Lattice.__init__: member list', func=func, node=func.node)
    if G:
        R.check(ok, G, func, first, 'Lattice: every generated record becomes one member, unfiltered, in generation order',
                f'[Concept(self, *args) for args in {p_ctx}._lattice({p_inf})]', src(first.value)[:120])
    if L:
        R.check(not lazy and isinstance(first.value, ast.ListComp), L, func, first,
                'Lattice: the generator is drained before any lower-link list is read (they grow until exhaustion)',
                'an eager list comprehension', 'a lazy generator expression' if lazy else src(first.value)[:60])
    d = func.defaults().get(p_inf)
    if G:
        R.check(isinstance(d, ast.Tuple) and not d.elts, 'API-DEFAULT', func, d or func.node, 'Lattice(context): default bottom generators are ()', '()', src(d))
    # Pair.__init__ parameter order = record order
    pair = model.func('lattice_members.Pair.__init__')
    if G:
        R.check(pair.params[1:] == ['lattice', 'extent', 'intent', 'upper', 'lower'], G, pair, pair.node,
                'Concept(lattice, extent, intent, upper, lower): parameter order equals the generated record order',
                "['lattice', 'extent', 'intent', 'upper', 'lower']", str(pair.params[1:]))
        stores = {}
        for s in stmts(pair.body):
            if isinstance(s, ast.Assign) and chain(s.targets[0]) and chain(s.targets[0])[0] == pair.params[0]:
                stores[chain(s.targets[0])[1]] = src(s.value)
        want = {'lattice': 'lattice', '_extent': 'extent', '_intent': 'intent', 'upper_neighbors': 'upper', 'lower_neighbors': 'lower'}
        R.check(stores == want, G, pair, pair.node, 'Concept stores each component in its own attribute', str(want), str(stores))
    # mapping
    maps = [s for s in func.body if isinstance(s, ast.Assign) and isinstance(s.value, ast.Call) and (chain(s.value.func) or [''])[-1] == '_make_mapping']
    mp = maps[0].targets[0].id if maps else None
    if L:
        R.check(len(maps) == 1 and name_is(maps[0].value.args[0], cons), L, func, maps[0] if maps else func.node,
                'Lattice: links are resolved through the extent -> member mapping of the same members', f'mapping = self._make_mapping({cons})')
    env = Env(func)
    loops = [s for s in func.body if isinstance(s, ast.For)]
    if len(loops) != 1:
        raise Unrecognised('Lattice.__init__: indexing loop', func=func, node=func.node)
    loop = loops[0]
    it = loop.iter
    ok_enum = (isinstance(it, ast.Call) and name_is(it.func, 'enumerate') and len(it.args) == 1 and name_is(it.args[0], cons) and not it.keywords
               and isinstance(loop.target, ast.Tuple) and len(loop.target.elts) == 2)
    if not ok_enum:
        if O:
            R.bad(O, func, loop, 'Lattice: index = position in generation order', f'for index, c in enumerate({cons})', src(it))
        return
    iv, cv = (t.id for t in loop.target.elts)
    if O:
        idx = [s for s in loop.body if isinstance(s, ast.Assign) and chain(s.targets[0]) == [cv, 'index']]
        R.check(len(idx) == 1 and name_is(idx[0].value, iv), O, func, idx[0] if idx else loop, 'Lattice: index = position in generation order',
                f'{cv}.index = {iv}', src(idx[0]) if idx else 'no assignment')
        between = [s for s in func.body if first.lineno < s.lineno < loop.lineno and any(
            isinstance(n, ast.Call) and isinstance(n.func, ast.Attribute) and n.func.attr in ('sort', 'reverse') and name_is(n.func.value, cons)
            for n in walk(s))]
        R.check(not between, O, func, between[0] if between else loop, 'Lattice: generation order is not rearranged before indexing', 'no sort/reverse of the member list')
    lenv = Env(loop.body, params=[iv, cv])
    for attr, keyname in (('upper_neighbors', 'shortlex'), ('lower_neighbors', 'longlex')):
        a = [s for s in loop.body if isinstance(s, ast.Assign) and chain(s.targets[0]) == [cv, attr]]
        if len(a) != 1:
            if L:
                R.unknown(L, func, loop, f'Lattice: {attr} resolved', f'{len(a)} assignments')
            continue
        v = lenv.expand(a[0].value)
        inner = v.args[0] if isinstance(v, ast.Call) and name_is(v.func, 'tuple') and v.args else v
        sortcall = inner if isinstance(inner, ast.Call) and name_is(inner.func, 'sorted') else None
        gen = sortcall.args[0] if sortcall is not None and sortcall.args else inner
        # the recorded extents may also be sorted first and resolved afterwards: (mapping[e] for e in sorted(c.attr, key=K'))
        raw_sort = None
        git = gen.generators[0].iter if isinstance(gen, (ast.GeneratorExp, ast.ListComp)) and len(gen.generators) == 1 else None
        if sortcall is None and isinstance(git, ast.Call) and name_is(git.func, 'sorted') and git.args:
            raw_sort = git
            git = git.args[0]
        if L:
            ok = (isinstance(gen, (ast.GeneratorExp, ast.ListComp)) and len(gen.generators) == 1 and not gen.generators[0].ifs
                  and chain(git) == [cv, attr] and isinstance(gen.elt, ast.Subscript) and name_is(gen.elt.value, mp)
                  and name_is(gen.elt.slice, src(gen.generators[0].target)))
            want_text = f'({mp}[e] for e in {cv}.{attr})'
            found_text = canon_comp(gen) if isinstance(gen, (ast.GeneratorExp, ast.ListComp)) else src(gen)[:100]
            R.check(ok, L, func, a[0], f'Lattice: {attr} are the members registered under the recorded extents, all of them',
                    canon_comp(ast.parse(want_text, mode='eval').body), found_text[:140])
        if O:
            call = sortcall or raw_sort
            if call is None:
                R.bad(O, func, a[0], f'Lattice: {attr} sorted by {keyname}', f'sorted(..., key={keyname})', 'not sorted')
                continue
            kws = {k.arg: k.value for k in call.keywords}
            key = kws.get('key')
            rev = kws.get('reverse')
            key = env.expand(key) if key is not None else None
            kname = None
            if key is not None and call is sortcall:
                kname = (chain(key) or [''])[-1].lstrip('_')
            elif key is not None:
                # a key on the bit vectors themselves: operator.methodcaller('<name>') or lambda e: e.<name>()
                if (isinstance(key, ast.Call) and (chain(key.func) or [''])[-1] == 'methodcaller' and len(key.args) == 1 and isinstance(const(key.args[0]), str)):
                    kname = const(key.args[0])
                elif (isinstance(key, ast.Lambda) and len(key.args.args) == 1 and isinstance(key.body, ast.Call) and not key.body.args
                      and isinstance(key.body.func, ast.Attribute) and name_is(key.body.func.value, key.args.args[0].arg)):
                    kname = key.body.func.attr
            if kname == keyname and rev is None:
                R.ok(O, func, a[0], f'Lattice: {attr} sorted by {keyname}')
            elif rev is not None or kname in ('shortlex', 'longlex') or (call is raw_sort and kname is not None):
                R.bad(O, func, a[0], f'Lattice: {attr} sorted by {keyname}', f'sorted(..., key={keyname})',
                      f'key={src(key)}' + (f', reverse={src(rev)}' if rev is not None else ''))
            elif call is sortcall and key is not None:
                # another key function of the class: decide it by what it returns
                kc = chain(key) or []
                target = func.cls.methods.get(kc[-1]) if func.cls is not None and kc else None
                if target is not None:
                    R.returns(target, f'{target.params[-1]}._extent.{keyname}()', O, f'Lattice: {attr} sorted by {keyname} (key function {kc[-1]})',
                              consequence='any key that is not the full positional key leaves ties in generation order')
                else:
                    R.unknown(O, func, a[0], f'Lattice: {attr} sort key', src(key))
            elif key is None:
                R.bad(O, func, a[0], f'Lattice: {attr} sorted by {keyname}', f'sorted(..., key={keyname})', 'sorted without a key (by the integer value of the bit vector / unorderable members)')
            else:
                R.unknown(O, func, a[0], f'Lattice: {attr} sort key', src(key))
    # _init call
    calls = [n for n in walk(func.body) if isinstance(n, ast.Call) and (chain(n.func) or [''])[-1] == '_init']
    if G:
        init = model.func('lattices.Data._init')
        ok = False
        if len(calls) == 1:
            c = calls[0]
            # _init(inst, context, concepts, mapping=None, unpickle=False): a static method called with the instance, or a
            # regular method called on it
            names = init.params
            args = list(c.args)
            if isinstance(c.func, ast.Attribute) and not any((chain(d) or [''])[-1] == 'staticmethod' for d in init.node.decorator_list):
                args = [c.func.value] + args
            bound = dict(zip(names, args))
            bound.update({k.arg: k.value for k in c.keywords if k.arg})
            ok = (len(names) >= 3 and src(bound.get(names[1])) == p_ctx and src(bound.get(names[2])) == cons
                  and ('unpickle' not in bound or const(bound['unpickle'], 'x') is False))
        R.check(ok, G, func, calls[0] if calls else func.node, 'Lattice: the full member list is installed', f'self._init(self, {p_ctx}, {cons}, mapping)',
                src(calls[0]) if calls else 'no call')
    # key functions
    if O:
        for name in ('shortlex', 'longlex'):
            kf = model.func(f'lattices.Data._{name}')
            R.returns(kf, f'{kf.params[-1]}._extent.{name}()', O, f'_{name} is the {name} key of the concept\'s extent')
    # the Context side
    lm = model.func('contexts.LatticeMixin._lattice')
    r = [n.value for n in walk(lm.body) if isinstance(n, ast.Return)]
    if G:
        ok = (len(r) == 1 and isinstance(r[0], ast.Call) and (chain(r[0].func) or [''])[-1] == 'lattice' and len(r[0].args) == 1
              and chain(r[0].args[0]) == ['self', '_Objects'] and [(k.arg, src(k.value)) for k in r[0].keywords] == [('infimum', lm.params[1])])
        R.check(ok, G, lm, lm.node, 'Context._lattice: Lindig generator over the object sets of this context',
                'algorithms.lattice(self._Objects, infimum=infimum)', src(r[0]) if r else '')
        d = lm.defaults().get(lm.params[1])
        R.check(isinstance(d, ast.Tuple) and not d.elts, 'API-DEFAULT', lm, d or lm.node, 'Context._lattice: default bottom generators are ()', '()', src(d))
        lz = model.func('contexts.LatticeMixin.lattice')
        R.returns(lz, 'lattices.Lattice(self)', G, 'context.lattice is the lattice of this context')
        # algorithms package re-exports the lindig functions under these names
        am = model.module('algorithms')
        R.check(am.imports.get('lattice') == 'pkg:algorithms.lindig.lattice' and am.imports.get('neighbors') == 'pkg:algorithms.lindig.neighbors',
                G, 'algorithms', am.tree, 'algorithms.lattice / algorithms.neighbors are the Lindig functions', 'from .lindig import lattice, neighbors',
                f"{am.imports.get('lattice')}, {am.imports.get('neighbors')}")
