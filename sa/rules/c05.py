"""C05: neighbour links are recorded conversely for every generated cover and resolved completely.
Decides: the neighbors template (shared with C03 - its output *is* the set of upper covers);
in lindig.lattice every yielded neighbour is appended to the popped concept's upper list and the
popped extent to the neighbour's lower list on both branches (known / new); Lattice.__init__
drains the generator eagerly before any lower list is read (they grow until exhaustion), resolves
both link lists through the extent -> member mapping of the same members without filtering;
Context.neighbors closes the query (object set -> object set) before asking for its upper covers.
That the template's output is exactly the cover relation is Lindig's theorem.
"""

import ast

from ..astutil import Env, chain, src, walk, const
from ..sorts import Sorter
from . import lindig_tpl
from .c13 import name_is


def context_neighbors(model, R):
    f = model.func('contexts.LatticeMixin.neighbors')
    p = f.params[1]
    S = Sorter(f)
    from ..astutil import reaching_value
    calls = [n for n in walk(f.body) if isinstance(n, ast.Call) and chain(n.func) == ['self', '_neighbors']]
    R.check(len(calls) >= 1, 'LINKS', f, f.node, 'Context.neighbors asks for the upper covers', 'self._neighbors(...)', f'{len(calls)} calls')
    for c in calls:
        arg = c.args[0] if c.args else None
        v = reaching_value(f, arg.id, c.lineno) if isinstance(arg, ast.Name) else arg
        ok = (isinstance(v, ast.Call) and isinstance(v.func, ast.Attribute) and v.func.attr == 'double' and not v.args
              and isinstance(v.func.value, ast.Call) and chain(v.func.value.func) == ['self', '_Objects', 'frommembers']
              and name_is(v.func.value.args[0], p))
        conditional = []
        if isinstance(arg, ast.Name):
            for s_ in walk(f.body):
                if (isinstance(s_, ast.If) and any(isinstance(a_, ast.Assign) and any(name_is(t_, arg.id) for t_ in a_.targets)
                                                   and isinstance(a_.value, ast.Call) and isinstance(a_.value.func, ast.Attribute)
                                                   and a_.value.func.attr == 'double' for a_ in s_.body + s_.orelse)):
                    conditional.append(s_)
        if conditional and not ok:
            R.bad('LINKS', f, conditional[0], 'Context.neighbors: the query is closed (object set -> object set) before its covers are computed',
                  'an unconditional .double()', f'closure only under "{src(conditional[0].test)}"',
                  extra={'consequence': 'an un-closed set reaches the neighbour computation on the other path (e.g. the empty query when the bottom extent is not empty)'})
        else:
            R.check(ok, 'LINKS', f, c, 'Context.neighbors: the query is closed (object set -> object set) before its covers are computed',
                    f'self._Objects.frommembers({p}).double()', src(v))
    nb = model.func('contexts.LatticeMixin._neighbors')
    r = [n.value for n in walk(nb.body) if isinstance(n, ast.Return)]
    ok = (len(r) == 1 and isinstance(r[0], ast.Call) and (chain(r[0].func) or [''])[-1] == 'neighbors' and len(r[0].args) == 1
          and name_is(r[0].args[0], nb.params[1]) and [(k.arg, src(k.value)) for k in r[0].keywords] == [('Objects', 'self._Objects')])
    R.check(ok, 'LINKS', nb, nb.node, 'Context._neighbors: Lindig neighbours over the object sets of this context',
            'algorithms.neighbors(objects, Objects=self._Objects)', src(r[0]) if r else '')
    # label form derives from the same generator
    fenv = Env(f)
    for ret in [n for n in walk(f.body) if isinstance(n, ast.Return) and n.value is not None]:
        names_ = {n.attr for n in ast.walk(ret.value) if isinstance(n, ast.Attribute)} | {n.id for n in ast.walk(ret.value) if isinstance(n, ast.Name)}
        via_lattice = [n for n in walk(f.body) if isinstance(n, ast.Subscript) and chain(n.value) == ['self', 'lattice']]
        if via_lattice and ('upper_neighbors' in names_ or 'lower_neighbors' in names_):
            R.bad('LINKS', f, ret, 'Context.neighbors: covers computed for the closure of exactly the given objects', 'list(self._neighbors(closure))',
                  f'taken from the lattice lookup {src(via_lattice[0])[:50]}',
                  extra={'consequence': 'Lattice.__getitem__ maps the empty key to the top concept and reads labels objects-first: the empty object set '
                                        '(and property-named keys) get the covers of another concept'})
            break

    def over_neighbors(it):
        it = fenv.expand(it) if isinstance(it, ast.Name) else it
        return isinstance(it, ast.Call) and chain(it.func) == ['self', '_neighbors']
    comps = [n for n in walk(f.body) if isinstance(n, (ast.ListComp, ast.GeneratorExp)) and len(n.generators) == 1 and over_neighbors(n.generators[0].iter)]
    if len(comps) != 1:
        R.unknown('LINKS', f, f.node, 'Context.neighbors: label form lists every cover as (extent, intent) labels', f'{len(comps)} comprehensions over self._neighbors(...)')
    else:
        lc = comps[0]
        g = lc.generators[0]
        shaped = isinstance(g.target, ast.Tuple) and len(g.target.elts) == 2 and isinstance(lc.elt, ast.Tuple) and len(lc.elt.elts) == 2
        if not shaped:
            R.unknown('LINKS', f, lc, 'Context.neighbors: label form', src(lc)[:100])
        else:
            R.decided([src(e) for e in lc.elt.elts] == [f'{src(t)}.members()' for t in g.target.elts] and not g.ifs, 'LINKS', f, lc,
                      'Context.neighbors: label form lists every cover as (extent, intent) labels',
                      '(extent.members(), intent.members()) for extent, intent in self._neighbors(objects)', src(lc)[:140])


def run(model, R):
    R.floor('LINKS', 10)
    R.guard('LINDIG', None, 'neighbors', lindig_tpl.neighbors_template, model, R, 'LINDIG')
    R.guard('LINKS', None, 'lattice', lindig_tpl.lattice_template, model, R, {'link': 'LINKS'})
    R.guard('LINKS', None, 'Lattice.__init__', lindig_tpl.init_template, model, R, {'link': 'LINKS'})
    R.guard('LINKS', None, 'Context.neighbors', context_neighbors, model, R)
    # every derivation goes through the closures that Vectors._pair_with builds (C01's rules for them are a dependency)
    from . import c01
    R.guard('WIRING', None, '_pair_with closures', c01.closure_rules, model, R)
    R.guard('WIRING', None, 'Relation.__new__', c01.relation_new, model, R)
    return __doc__.strip()
