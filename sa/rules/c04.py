"""C04: both Fast-Close-by-One generators are instances of one template (the dual under the sort swap).
Decides for fast_generate_from (enumerated sort = property sets) and fcbo_dual (object sets):
failed-set table sized by the count of the enumerated axis, filled with empty sets of the
enumerated sort and indexed by the positions of that axis' atoms; start triple = the concept with
the least enumerated component, index 0; each popped triple is yielded once before expansion; the
inner loop runs over positions >= the popped index, skips members of the current set, closes
(current other-side set & column j) with the derivation of the right direction, accepts iff
(new & mask_j) is inside the current set (compared as a Boolean function under new >= current),
mask_j = atom - 1, pushes the new concept as (object set, property set) with index j or j+1; the
per-node table is a fresh copy when it is written; the prune test, if present, has the same form
over the same sort; recorded failed sets have the enumerated sort.  Wrappers: iterconcepts /
get_concepts / ConceptList.frompairs map Concept._make over the generator unfiltered and the
namedtuple field order is (extent, intent).  Agreement with context.lattice follows through C03
and the CbO theorems (Outrata & Vychodil 2012).
"""

import ast

from .. import bitalg
from ..astutil import Env, chain, src, walk, const, stmts, strip_not
from ..model import Unrecognised
from ..sorts import Sorter, FLIP
from .c13 import name_is

AXIS_OF = {'P': 'properties', 'O': 'objects'}
VEC_OF_OTHER = {'P': '_extents', 'O': '_intents'}     # enumerating S: column j of the table is an element of the other sort
CLS = {'O': '_Objects', 'P': '_Properties'}


def fcbo(model, R, key, S_):
    func = model.func(key)
    T_ = FLIP[S_]
    ctx = func.params[0]
    rule = 'FCBO'
    tag = func.name
    env = Env(func)
    sorter = Sorter(func)

    def X(n):
        return env.expand(n)

    loops = [s for s in func.body if isinstance(s, ast.While)]
    if len(loops) != 1:
        raise Unrecognised('main loop', func=func, node=func.node)
    loop = loops[0]
    stack = loop.test.id if isinstance(loop.test, ast.Name) else None
    if stack is None:
        raise Unrecognised('while <stack>', func=func, node=loop)
    # initial stack
    init = [s for s in func.body if isinstance(s, ast.Assign) and name_is(s.targets[0], stack)]
    if len(init) != 1 or not isinstance(init[0].value, ast.List) or len(init[0].value.elts) != 1 or not isinstance(init[0].value.elts[0], ast.Tuple) \
            or len(init[0].value.elts[0].elts) != 3:
        raise Unrecognised('initial stack of one (concept, index, table) triple', func=func, node=func.node)
    c0, k0, n0 = init[0].value.elts[0].elts
    start = X(c0)
    want_start = f'{ctx}._Objects.supremum.doubleprime()' if S_ == 'P' else f'{ctx}._Objects.infimum.doubleprime()'
    is_closure = isinstance(start, ast.Call) and isinstance(start.func, ast.Attribute) and start.func.attr in ('doubleprime',)
    if is_closure:
        R.expr(start, want_start, rule, func, f'{tag}: starts from the concept with the least enumerated component, as (extent, intent)', at=init[0])
    elif isinstance(start, ast.Tuple) and all(chain(e) or (isinstance(e, ast.Call) and (chain(e.func) or [''])[-1] == 'fromint') for e in start.elts):
        R.bad(rule, func, init[0], f'{tag}: starts from the concept with the least enumerated component, as (extent, intent)', want_start,
              src(start), extra={'consequence': 'a literal (least set, greatest set) pair is a formal concept only when it happens to be closed: '
                                                'with a full row / full column the generator emits a non-concept first'})
    else:
        R.unknown(rule, func, init[0], f'{tag}: start concept', src(start))
    R.check(const(k0, 'x') == 0 and not isinstance(const(k0), bool), rule, func, init[0], f'{tag}: start index 0', '0', src(k0))
    tab = X(n0)
    ok = False
    found = src(tab)
    if isinstance(tab, ast.BinOp) and isinstance(tab.op, ast.Mult) and isinstance(tab.left, ast.List) and len(tab.left.elts) == 1:
        elem = X(tab.left.elts[0])
        cnt = X(tab.right)
        ok_elem = src(elem) == f'{ctx}.{CLS[S_]}.infimum'
        ok_cnt = src(cnt) in (f'{ctx}.shape.{AXIS_OF[S_]}', f'len({ctx}.{AXIS_OF[S_]})')
        R.check(ok_elem, rule, func, init[0], f'{tag}: failed-set table holds empty sets of the enumerated sort', f'{ctx}.{CLS[S_]}.infimum', src(elem))
        R.check(ok_cnt, rule, func, init[0], f'{tag}: failed-set table has one slot per member of the enumerated axis',
                f'{ctx}.shape.{AXIS_OF[S_]}', src(cnt), extra={'consequence': 'indexed by positions of the enumerated axis: another size raises IndexError or wastes slots'})
    else:
        R.unknown(rule, func, init[0], f'{tag}: failed-set table', found)
    # atom enumeration: ``j_atom = list(enumerate(Cls.supremum.atoms()))``  or  ``atoms = list(Cls.supremum.atoms())`` (indexed by range)
    ja = None
    atoms_list = None
    for s in func.body:
        if isinstance(s, ast.Assign) and isinstance(s.targets[0], ast.Name) and 'enumerate' in src(s.value):
            ja = s
        elif isinstance(s, ast.Assign) and isinstance(s.targets[0], ast.Name) and src(X(s.value)).replace('list(', '').replace('tuple(', '').rstrip(')') + ')' \
                == f'{ctx}.{CLS[S_]}.supremum.atoms()' and 'enumerate' not in src(s.value):
            atoms_list = s
    if ja is None and atoms_list is None:
        raise Unrecognised('enumeration of the atoms of the enumerated axis', func=func, node=func.node)
    if ja is not None:
        v = X(ja.value)
        inner = v.args[0] if isinstance(v, ast.Call) and name_is(v.func, 'list') and v.args else v
        filtered = isinstance(inner, (ast.ListComp, ast.GeneratorExp)) and any(g.ifs for g in inner.generators) and 'enumerate' in src(inner)
        if filtered:
            # the inner loop resumes with j_atom[k:], where k is a *position of the axis*: that needs j_atom[i] == (i, atom_i)
            R.bad(rule, func, ja, f'{tag}: positions and atoms of the enumerated axis', f'the full enumerate({ctx}.{CLS[S_]}.supremum.atoms())',
                  src(inner)[:120], extra={'consequence': 'a filtered list is sliced by axis position: after a dropped entry every resume point is shifted '
                                                          'and candidates are skipped'})
        else:
            ok = (isinstance(inner, ast.Call) and name_is(inner.func, 'enumerate') and len(inner.args) == 1)
            if ok:
                R.expr(X(inner.args[0]), f'{ctx}.{CLS[S_]}.supremum.atoms()', rule, func, f'{tag}: positions and atoms of the enumerated axis', at=ja)
            else:
                R.unknown(rule, func, ja, f'{tag}: positions and atoms of the enumerated axis', src(inner)[:100])
        ja_name = ja.targets[0].id
    else:
        ja_name = atoms_list.targets[0].id
        R.ok(rule, func, atoms_list, f'{tag}: positions and atoms of the enumerated axis', found=src(atoms_list.value))
    # pop + yield
    body = loop.body
    pops = [s for s in body if isinstance(s, ast.Assign) and isinstance(s.value, ast.Call) and chain(s.value.func) == [stack, 'pop']]
    if len(pops) != 1 or not isinstance(pops[0].targets[0], ast.Tuple) or len(pops[0].targets[0].elts) != 3:
        raise Unrecognised('pop of (concept, index, table)', func=func, node=loop)
    cvar, kvar, nvar = (t.id for t in pops[0].targets[0].elts)
    ys = [n for n in walk(func.body) if isinstance(n, (ast.Yield, ast.YieldFrom))]
    top = [s for s in body if isinstance(s, ast.Expr) and isinstance(s.value, ast.Yield)]
    ok = len(ys) == 1 and len(top) == 1 and name_is(top[0].value.value, cvar)
    R.check(ok, rule, func, ys[0] if ys else loop, f'{tag}: every popped concept is yielded exactly once, unconditionally', f'yield {cvar}',
            '; '.join(src(y) for y in ys) or 'no yield')
    unp = [s for s in body if isinstance(s, ast.Assign) and isinstance(s.targets[0], ast.Tuple) and name_is(s.value, cvar) and len(s.targets[0].elts) == 2]
    if len(unp) != 1:
        raise Unrecognised('extent, intent = concept', func=func, node=loop)
    ext, itt = (t.id for t in unp[0].targets[0].elts)
    if top:
        cont = [s for s in body if isinstance(s, ast.If) and any(isinstance(n, ast.Continue) for n in s.body)]
        for c in cont:
            R.check(c.lineno > top[0].lineno, rule, func, c, f'{tag}: the early exit comes after the yield', 'yield before continue')
    cur = {'O': ext, 'P': itt}
    curS, curT = cur[S_], cur[T_]
    # optional early exit: sound only when it implies "nothing can be added" (no position left, or the other side is empty)
    for c in [s for s in body if isinstance(s, ast.If) and any(isinstance(n, ast.Continue) for n in s.body)]:
        cnt_names = {src(X(tab.right))} if isinstance(tab, ast.BinOp) else set()

        def atomizer(n):
            if isinstance(n, ast.Name) and n.id == curT:
                return ('EmptyOther', False)
            if isinstance(n, ast.Name) and n.id == curS:
                return ('EmptyEnumerated', False)
            if (isinstance(n, ast.Compare) and len(n.ops) == 1 and isinstance(n.ops[0], (ast.Eq, ast.NotEq))
                    and any(name_is(a_, curS) and src(X(b_)) == f'{ctx}.{CLS[S_]}.supremum' for a_, b_ in ((n.left, n.comparators[0]), (n.comparators[0], n.left)))):
                # the enumerated set already holds every position: each candidate is skipped by the "already in" test
                return ('NothingToAdd', isinstance(n.ops[0], ast.Eq))
            if isinstance(n, ast.Compare) and len(n.ops) == 1 and isinstance(n.ops[0], (ast.Eq, ast.NotEq, ast.GtE, ast.Lt)):
                l, r = src(X(n.left)), src(X(n.comparators[0]))
                if {l, r} == {kvar} | cnt_names or ({l, r} - {kvar}) <= cnt_names and kvar in (l, r):
                    return ('NoPositionLeft', isinstance(n.ops[0], (ast.Eq, ast.GtE)) if l == kvar else isinstance(n.ops[0], ast.Eq))
            if isinstance(n, ast.Compare) and len(n.ops) == 1:
                # position counter against "count +/- constant": on which of the reachable counter values 0..count does it hold?
                def side(x):
                    x = X(x)
                    if src(x) == kvar:
                        return 'k'
                    if src(x) in cnt_names:
                        return ('n', 0)
                    if (isinstance(x, ast.BinOp) and isinstance(x.op, (ast.Add, ast.Sub)) and src(x.left) in cnt_names
                            and isinstance(const(x.right), int) and not isinstance(const(x.right), bool)):
                        return ('n', const(x.right) if isinstance(x.op, ast.Add) else -const(x.right))
                    return None
                a, b = side(n.left), side(n.comparators[0])
                ops = {ast.Eq: lambda p, q: p == q, ast.NotEq: lambda p, q: p != q, ast.Lt: lambda p, q: p < q, ast.LtE: lambda p, q: p <= q,
                       ast.Gt: lambda p, q: p > q, ast.GtE: lambda p, q: p >= q}
                if type(n.ops[0]) in ops and {type(a), type(b)} == {str, tuple}:
                    N = 6
                    val = lambda t, k: k if t == 'k' else N + t[1]
                    holds = {k for k in range(N + 1) if ops[type(n.ops[0])](val(a, k), val(b, k))}
                    if holds == {N}:
                        return ('NoPositionLeft', True)
                    if holds == set(range(N)):
                        return ('NoPositionLeft', False)
                    if N - 1 in holds:
                        return ('PositionsLeft', True)      # true although a candidate position remains
            return None
        try:
            from .. import guards
            fm = guards.compile_formula(c.test, atomizer)
            bad_env = None
            import itertools
            for bits in itertools.product((False, True), repeat=len(fm.atoms)):
                e = dict(zip(fm.atoms, bits))
                if fm(e) and not (e.get('NoPositionLeft') or e.get('EmptyOther') or e.get('NothingToAdd')):
                    bad_env = e
            R.check(bad_env is None, rule, func, c.test, f'{tag}: early exit only when nothing can be added',
                    f'{kvar} == n or not {curT}', src(c.test), extra={'exits_although': bad_env}, strict=True if bad_env and bad_env.get('PositionsLeft') else None)
        except Unrecognised as e:
            R.unknown(rule, func, c.test, f'{tag}: early exit condition', e.what)
    # table copy
    copies = [s for s in body if isinstance(s, ast.Assign) and isinstance(s.value, ast.Call) and chain(s.value.func) == [nvar, 'copy']]
    n2 = copies[0].targets[0].id if copies else None
    fors = [s for s in body if isinstance(s, ast.For)]
    if len(fors) != 1:
        raise Unrecognised('inner loop over positions', func=func, node=loop)
    f = fors[0]
    it = f.iter
    inner = it.args[0] if isinstance(it, ast.Call) and name_is(it.func, 'reversed') and it.args else it
    if ja is not None:
        ok = (isinstance(inner, ast.Subscript) and name_is(inner.value, ja_name) and isinstance(inner.slice, ast.Slice)
              and name_is(inner.slice.lower, kvar) and inner.slice.upper is None and inner.slice.step is None
              and isinstance(f.target, ast.Tuple) and len(f.target.elts) == 2)
        R.check(ok, rule, func, f, f'{tag}: inner loop over the positions >= the popped index', f'for j, atom in reversed({ja_name}[{kvar}:])', src(it))
        if not (isinstance(f.target, ast.Tuple) and len(f.target.elts) == 2):
            return
        j, atom = (t.id for t in f.target.elts)
    else:
        # for j in reversed(range(k, len(atoms))): atom = atoms[j]
        ok = (isinstance(inner, ast.Call) and name_is(inner.func, 'range') and len(inner.args) == 2 and name_is(inner.args[0], kvar)
              and src(inner.args[1]) in (f'len({ja_name})', src(tab.right) if isinstance(tab, ast.BinOp) else '') and isinstance(f.target, ast.Name))
        R.check(ok, rule, func, f, f'{tag}: inner loop over the positions >= the popped index', f'for j in reversed(range({kvar}, len({ja_name})))', src(it))
        if not ok:
            return
        j = f.target.id
        binds = [s_ for s_ in f.body if isinstance(s_, ast.Assign) and isinstance(s_.targets[0], ast.Name) and isinstance(s_.value, ast.Subscript)
                 and name_is(s_.value.value, ja_name) and name_is(s_.value.slice, j)]
        if len(binds) != 1:
            raise Unrecognised('atom looked up by position', func=func, node=f)
        atom = binds[0].targets[0].id
    fenv = Env(f.body, params=[j, atom])

    def FX(n):
        return fenv.expand(n)
    # skip test
    skips = [s for s in f.body if isinstance(s, ast.If) and any(isinstance(n, ast.Continue) for n in s.body)]
    ok = False
    if len(skips) == 1:
        t = skips[0].test
        ok = (isinstance(t, ast.BinOp) and isinstance(t.op, ast.BitAnd) and {src(t.left), src(t.right)} == {atom, curS})
        if isinstance(t, ast.BinOp) and isinstance(t.op, ast.BitAnd) and {src(t.left), src(t.right)} == {atom, curT}:
            R.bad(rule, func, t, f'{tag}: members of the current set are skipped', f'{atom} & {curS}', src(t) + ' (other sort)')
            ok = None
    if ok is not None:
        R.check(bool(ok), rule, func, skips[0] if skips else f, f'{tag}: members of the current set are skipped', f'if {atom} & {curS}: continue',
                src(skips[0].test) if skips else 'no skip')
    # mask
    masks = [s for s in f.body if isinstance(s, ast.Assign) and isinstance(s.value, ast.BinOp) and isinstance(s.value.op, ast.Sub)
             and const(s.value.right) == 1]
    mask = masks[0].targets[0].id if masks else None
    ok = bool(masks) and (name_is(masks[0].value.left, atom) or src(masks[0].value.left) in (f'(1 << {j})', f'1 << {j}'))
    R.check(ok, rule, func, masks[0] if masks else f, f'{tag}: mask = positions below j', f'{atom} - 1', src(masks[0].value) if masks else 'no mask')
    if not mask:
        return
    # closure step: find ``newS = prime(newT)`` and ``newT = curT & ctx.<vec>[j]``
    prime_calls = [s for s in stmts(f.body) if isinstance(s, ast.Assign) and isinstance(s.value, ast.Call) and len(s.value.args) == 1
                   and src(X(s.value.func)).endswith('.prime')]
    if len(prime_calls) != 1:
        raise Unrecognised('closure step newS = prime(newT)', func=func, node=f)
    pc = prime_calls[0]
    newS = pc.targets[0].id
    pf = src(X(pc.value.func))
    R.check(pf == f'{ctx}.{CLS[T_]}.prime', rule, func, pc, f'{tag}: derivation maps the other sort to the enumerated sort', f'{ctx}.{CLS[T_]}.prime', pf)
    newT_node = pc.value.args[0]
    newT_def = [s for s in stmts(f.body) if isinstance(s, ast.Assign) and name_is(s.targets[0], src(newT_node))]
    ok = False
    found = src(newT_node)
    if len(newT_def) == 1:
        d = newT_def[0].value
        found = src(d)
        if isinstance(d, ast.BinOp) and isinstance(d.op, ast.BitAnd):
            sides = [d.left, d.right]
            cur_side = [x for x in sides if name_is(x, curT)]
            col = [x for x in sides if isinstance(x, ast.Subscript)]
            ok = (len(cur_side) == 1 and len(col) == 1 and src(X(col[0].value)) == f'{ctx}.{VEC_OF_OTHER[S_]}' and name_is(col[0].slice, j))
    R.check(ok, rule, func, newT_def[0] if newT_def else pc, f'{tag}: other-side set restricted by column j', f'{curT} & {ctx}.{VEC_OF_OTHER[S_]}[{j}]', found)
    newT = src(newT_node)

    # formulas
    def var_of(n):
        n2 = n
        if name_is(n2, newS):
            return 'D'
        if name_is(n2, curS):
            return 'B'
        if name_is(n2, mask):
            return 'm'
        if name_is(n2, curT):
            return 'Bt'
        if isinstance(n2, ast.Subscript) and isinstance(n2.value, ast.Name) and n2.value.id in (nvar, n2_name) and name_is(n2.slice, j):
            return 'N'
        return None
    n2_name = n2
    sort_of = {'D': S_, 'B': S_, 'm': S_, 'N': S_, 'Bt': T_}.get

    def decide(test, subject, what, want_text):
        vars_ = [subject, 'B', 'm']
        row_ok = (lambda r: not (r['B'] and not r['D'])) if subject == 'D' else None
        try:
            pred = bitalg.compile_pred(fenv.expand(test, skip=(newS, mask, curS, curT)), var_of, sort_of)
        except bitalg.SortError as e:
            R.bad(rule, func, e.node, what, want_text, str(e))
            return
        except Unrecognised as e:
            # outside the row abstraction (ordering comparisons, arithmetic): look for a concrete small counterexample of the
            # formula against the same specification - new members below j are exactly (subject & mask) & ~B
            expanded = fenv.expand(test, skip=(newS, mask, curS, curT))
            rename = {newS: 'D', curS: 'B', mask: 'm'}
            if subject == 'N':
                rename = None

            def bindings(width, subject=subject):
                import itertools as _it
                full = (1 << width) - 1
                for jj in range(width):
                    m_ = (1 << jj) - 1
                    for b_ in range(full + 1):
                        for d_ in range(full + 1):
                            if subject == 'D' and b_ & ~d_:
                                continue        # the derived set contains the current one
                            yield {newS: d_, curS: b_, mask: m_}
            cex = None
            if rename is not None:
                cex = bitalg.refute_concrete(expanded, bindings, lambda env: (env[newS] & env[mask]) & ~env[curS] == 0)
            if cex is not None:
                R.bad(rule, func, test, what, want_text, f'{src(test)}: differs for {newS}={cex[newS]:#06b}, {curS}={cex[curS]:#06b}, {mask}={cex[mask]:#06b} '
                      f'(test gives {cex["found"]}, no new member below j is {cex["expected"]})',
                      extra={'consequence': 'an ordering comparison of bit vectors looks only at the highest differing position, not at inclusion'})
                return
            R.unknown(rule, func, test, what, e.what)
            return
        if 'Bt' in pred.text:
            R.bad(rule, func, test, what, want_text, f'{pred.text}: tests against the {AXIS_OF[T_][:-1]} set of the current concept')
            return
        pats = list(bitalg.patterns(vars_, row_ok))
        spec = bitalg.Pred(lambda occ: all(not (r[subject] and r['m'] and not r['B']) for r in occ if not r[bitalg.OUTSIDE]), 'spec')
        diff = bitalg.equivalent(pred, spec, pats)
        R.decided(diff is None, rule, func, test, what, want_text, pred.text,
                extra={f'rows({subject},B,mask)': [[r[subject], r['B'], r['m']] for r in diff]} if diff else None)

    # canonicity: the If that contains the push
    pushes = [n for n in walk(f.body) if isinstance(n, ast.Call) and chain(n.func) == [stack, 'append']]
    if len(pushes) != 1:
        if not pushes:
            from .common import absent
            absent(model, R, rule, func, f, f'{tag}: accepted concept is pushed', f'{stack}.append((concept, j + 1, table))', 'no push')
            return
        raise Unrecognised('more than one push', func=func, node=f)
    push = pushes[0]
    canon = None
    for s in stmts(f.body):
        if isinstance(s, ast.If) and any(n is push for n in walk(s.body)) and any(isinstance(x, ast.Expr) and x.value is push for x in s.body):
            canon = s
    if canon is None:
        R.bad(rule, func, push, f'{tag}: push guarded by the canonicity test', f'if ({newS} & {mask}) & {curS} == ({newS} & {mask})', 'unguarded push')
    else:
        decide(canon.test, 'D', f'{tag}: canonicity test: no new member below j', f'({newS} & {mask}) & {curS} == {newS} & {mask}')
        R.check(canon.lineno > pc.lineno, rule, func, canon, f'{tag}: canonicity tested on the freshly derived set', 'after the derivation')
    # optional prune: an If enclosing the closure step that is not the skip
    prune = None
    for s in f.body:
        if isinstance(s, ast.If) and any(n is pc for n in stmts(s.body)):
            prune = s
    if prune is not None:
        decide(prune.test, 'N', f'{tag}: prune test on the inherited failed set', f'({nvar}[{j}] & {mask}) & {curS} == {nvar}[{j}] & {mask}')
    # push triple
    ok = False
    if push.args and isinstance(push.args[0], ast.Tuple) and len(push.args[0].elts) == 3:
        pc_, pk, pn = push.args[0].elts
        pcv = FX(pc_)
        if canon is not None:
            cenv = Env(canon.body, params=[j, atom])
            pcv = cenv.expand(pc_)
        want_pair = {('O', newT if T_ == 'O' else newS), ('P', newT if T_ == 'P' else newS)}
        if isinstance(pcv, ast.Tuple) and len(pcv.elts) == 2:
            got = []
            for e, srt in zip(pcv.elts, ('O', 'P')):
                if isinstance(e, ast.Call) and src(X(e.func)) == f'{ctx}.{CLS[srt]}.fromint' and len(e.args) == 1:
                    got.append((srt, src(e.args[0])))
                else:
                    got.append((srt, '?' + src(e)))
            R.check(set(got) == want_pair, rule, func, push, f'{tag}: pushed concept is (object set, property set) of the new sets',
                    f'(Objects.fromint({dict(want_pair)["O"]}), Properties.fromint({dict(want_pair)["P"]}))', src(pcv))
        else:
            R.unknown(rule, func, push, f'{tag}: pushed concept', src(pcv))
        okk = name_is(pk, j) or (isinstance(pk, ast.BinOp) and isinstance(pk.op, ast.Add) and name_is(pk.left, j) and const(pk.right) in (0, 1))
        R.check(okk, rule, func, push, f'{tag}: pushed start index is j or j + 1', f'{j} + 1', src(pk))
        R.check(src(pn) in (nvar, n2), rule, func, push, f'{tag}: pushed table is the node\'s table', f'{n2 or nvar}', src(pn))
    else:
        R.unknown(rule, func, push, f'{tag}: pushed triple', src(push))
    # table writes: fresh copy required, stored sets have the enumerated sort
    writes = [s for s in stmts(f.body) if isinstance(s, ast.Assign) and isinstance(s.targets[0], ast.Subscript)
              and isinstance(s.targets[0].value, ast.Name) and s.targets[0].value.id in (nvar, n2)]
    for w in writes:
        tname = w.targets[0].value.id
        R.check(tname == n2 and n2 is not None, 'FRESH', func, w, f'{tag}: failed sets are recorded in a per-node copy of the table',
                f'{n2 or "next_sets"} = {nvar}.copy(); {n2 or "next_sets"}[j] = ...', f'{tname}[...] written' + ('' if n2 else ' and the table is never copied'),
                extra={'consequence': 'writing the popped table changes the table of sibling branches still on the stack'})
        R.check(name_is(w.targets[0].slice, j) and name_is(w.value, newS), rule, func, w, f'{tag}: recorded failed set is the derived set at position j',
                f'{tname}[{j}] = {newS}', src(w))
    if not writes:
        R.ok(rule, func, f, f'{tag}: no failed sets recorded (pruning disabled: optional)')


def wrappers(model, R):
    am_ = model.module('algorithms')

    def norm(e, f, depth=0):
        """Canonical description of a wrapper expression: ('gen', name) | ('concepts', X) | ('list', X) | None."""
        if depth > 4 or e is None:
            return None
        if isinstance(e, ast.Name) and e.id not in f.params:
            # a local bound on several paths: every binding is looked at
            vals = [st.value for st in stmts(f.body) if isinstance(st, ast.Assign) and len(st.targets) == 1 and name_is(st.targets[0], e.id)]
            outs = [norm(v, f, depth + 1) for v in vals]
            if outs and any(o is not None and o[0] == 'swapped' for o in outs):
                return [o for o in outs if o is not None and o[0] == 'swapped'][0]
            if outs and all(o is not None for o in outs):
                return outs[0] if len(set(map(str, outs))) == 1 else ('either', tuple(outs))
            return None
        if (isinstance(e, ast.GeneratorExp) and len(e.generators) == 1 and not e.generators[0].ifs and isinstance(e.generators[0].target, ast.Tuple)
                and len(e.generators[0].target.elts) == 2 and isinstance(e.elt, ast.Tuple) and len(e.elt.elts) == 2
                and all(isinstance(x, ast.Name) for x in list(e.generators[0].target.elts) + list(e.elt.elts))):
            # (a, b) for a, b in G  is G; (b, a) for a, b in G  is G with extent and intent exchanged
            inner = norm(e.generators[0].iter, f, depth + 1)
            t = [x.id for x in e.generators[0].target.elts]
            el = [x.id for x in e.elt.elts]
            if inner and inner[0] == 'gen':
                if el == t:
                    return inner
                if el == t[::-1]:
                    return ('swapped', inner)
            return None
        if isinstance(e, ast.Call) and isinstance(e.func, ast.Name) and e.func.id in ('fast_generate_from', 'fcbo_dual') and len(e.args) == 1 \
                and name_is(e.args[0], f.params[0]) and not e.keywords:
            return ('gen', e.func.id)
        if isinstance(e, ast.Call) and name_is(e.func, 'map') and len(e.args) == 2 and chain(e.args[0]) == ['Concept', '_make']:
            inner = norm(e.args[1], f, depth + 1)
            return ('concepts', inner) if inner and inner[0] == 'gen' else None
        if isinstance(e, (ast.GeneratorExp, ast.ListComp)) and len(e.generators) == 1 and not e.generators[0].ifs:
            g = e.generators[0]
            inner = norm(g.iter, f, depth + 1)
            elt = e.elt
            whole = isinstance(g.target, ast.Name) and isinstance(elt, ast.Call) and (
                (chain(elt.func) == ['Concept', '_make'] and len(elt.args) == 1 and name_is(elt.args[0], g.target.id))
                or (name_is(elt.func, 'Concept') and len(elt.args) == 1 and isinstance(elt.args[0], ast.Starred) and name_is(elt.args[0].value, g.target.id)))
            pairwise = (isinstance(g.target, ast.Tuple) and len(g.target.elts) == 2 and isinstance(elt, ast.Call) and name_is(elt.func, 'Concept')
                        and [src(a) for a in elt.args] == [src(t) for t in g.target.elts] and not elt.keywords)
            if inner and inner[0] == 'gen' and (whole or pairwise):
                return ('concepts', inner)
            return None
        if isinstance(e, ast.Call) and chain(e.func) == ['ConceptList', 'frompairs'] and len(e.args) == 1:
            inner = norm(e.args[0], f, depth + 1)
            if inner and inner[0] == 'swapped':
                return inner
            if inner and inner[0] == 'either' and all(o[0] == 'gen' for o in inner[1]):
                return ('list', ('concepts', inner))
            return ('list', ('concepts', inner)) if inner and inner[0] == 'gen' else None
        if isinstance(e, ast.Call) and name_is(e.func, 'ConceptList') and len(e.args) == 1:
            inner = norm(e.args[0], f, depth + 1)
            return ('list', inner) if inner and inner[0] == 'concepts' else None
        if isinstance(e, ast.Call) and isinstance(e.func, ast.Name) and e.func.id in ('iterconcepts',) and len(e.args) == 1 and name_is(e.args[0], f.params[0]):
            g = am_.funcs.get(e.func.id)
            if g is not None:
                rr = [Env(g).expand(n.value) for n in walk(g.body) if isinstance(n, ast.Return)]
                if len(rr) == 1:
                    return norm(rr[0], g, depth + 1)
        return None
    for name, want in (('iterconcepts', ('concepts', ('gen', 'fast_generate_from'))), ('get_concepts', ('list', ('concepts', ('gen', 'fast_generate_from'))))):
        f = model.func(f'algorithms.{name}')
        env = Env(f)
        r = [env.expand(n.value) for n in walk(f.body) if isinstance(n, ast.Return)]
        got = norm(r[0], f) if len(r) == 1 else None
        slot = f'{name}: every generated pair, unfiltered, as Concept'
        if got == want:
            R.ok('WRAPPER', f, f.node, slot, src(r[0])[:120])
        elif got is not None and got[0] == 'swapped':
            R.bad('WRAPPER', f, f.node, slot, 'pairs kept as (extent, intent), the order both generators yield them in', f'the two components of {got[1][1]}(...) exchanged',
                  extra={'consequence': 'every Concept of the list has its intent in the extent field and vice versa'})
        elif got is not None:
            # a recognised wrapper over another source (e.g. the dual generator): the documented one is the by-intents generator
            R.bad('WRAPPER', f, f.node, slot, 'Concept._make over fast_generate_from(context)' + (' in a ConceptList' if name == 'get_concepts' else ''), str(got))
        else:
            R.unknown('WRAPPER', f, f.node, slot, 'wrapper not in a recognised form: ' + (src(r[0])[:100] if r else f'{len(r)} returns'))
    f = model.func('_common.ConceptList.frompairs')
    R.returns(f, f'cls(map(Concept._make, {f.params[1]}))', 'WRAPPER', 'ConceptList.frompairs keeps every pair')
    c = model.cls('_common.Concept')
    fields = [s.target.id for s in c.node.body if isinstance(s, ast.AnnAssign) and isinstance(s.target, ast.Name)]
    R.check(fields == ['extent', 'intent'], 'WRAPPER', '_common.Concept', c.node, 'Concept fields are (extent, intent) like the yielded pairs', "['extent', 'intent']", str(fields))
    am = model.module('algorithms')
    R.check(am.imports.get('fast_generate_from') == 'pkg:algorithms.fcbo.fast_generate_from' and am.imports.get('fcbo_dual') == 'pkg:algorithms.fcbo.fcbo_dual'
            and am.imports.get('Concept') == 'pkg:_common.Concept', 'WRAPPER', 'algorithms', am.tree, 'wrapper module binds the FCbO generators and the Concept tuple',
            'from .fcbo import fast_generate_from, fcbo_dual', str({k: am.imports.get(k) for k in ('fast_generate_from', 'fcbo_dual', 'Concept')}))


def run(model, R):
    R.floor('FCBO', 30)
    R.guard('FCBO', None, 'fast_generate_from', fcbo, model, R, 'algorithms.fcbo.fast_generate_from', 'P')
    R.guard('FCBO', None, 'fcbo_dual', fcbo, model, R, 'algorithms.fcbo.fcbo_dual', 'O')
    R.guard('WRAPPER', None, 'wrappers', wrappers, model, R)
    # every derivation goes through the closures that Vectors._pair_with builds (C01's rules for them are a dependency)
    from . import c01
    R.guard('WIRING', None, '_pair_with closures', c01.closure_rules, model, R)
    R.guard('WIRING', None, 'Relation.__new__', c01.relation_new, model, R)
    return __doc__.strip()
