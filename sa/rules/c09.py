"""C09: upset/downset traversals follow the heap-merge template over the right rank and direction.
Decides: algorithms.iterunion is the template "heap of (rank, concept) seeded with every given
concept; pop-min; yield iff rank > last yielded rank; record the rank; push the successors of the
yielded concept with their own ranks" with the initial 'last rank' a constant below every rank;
the four call sites pair (index, upper_neighbors) resp. (dindex, lower_neighbors) with their
direction and seed with the right concepts; the union forms reduce their seeds through
tools.maximal with the comparison of the matching direction (or not at all); tools.maximal yields
only input elements that no other element dominates.  That rank strictly increases along the
successor relation is C06's obligation.
"""

import ast

from ..astutil import Env, chain, src, walk, const, stmts, strip_not
from ..model import Unrecognised
from .c13 import name_is


def local_callee(func, name):
    """heapq function a local name is bound to (directly or via functools.partial(f, heap))."""
    for s in stmts(func.body):
        if not isinstance(s, ast.Assign):
            continue
        pairs = []
        for t in s.targets:
            if isinstance(t, ast.Name):
                pairs.append((t, s.value))
            elif isinstance(t, ast.Tuple) and isinstance(s.value, ast.Tuple) and len(t.elts) == len(s.value.elts):
                pairs += list(zip(t.elts, s.value.elts))
        for t, v in pairs:
            if isinstance(t, ast.Name) and t.id == name:
                bound = None
                if isinstance(v, ast.Call) and (chain(v.func) or [''])[-1] == 'partial' and v.args:
                    bound = [src(a) for a in v.args[1:]]
                    v = v.args[0]
                c = chain(v)
                if c:
                    return c[-1], bound
    return None, None


def heap_call(func, call, heap):
    """('push', entry) / ('pop', None) / ('heapify', None) if the call is that heap operation on ``heap``."""
    if not isinstance(call, ast.Call):
        return None
    c = chain(call.func)
    if not c:
        return None
    name, bound = c[-1], None
    if len(c) == 1:
        resolved, bound = local_callee(func, c[0])
        if resolved:
            name = resolved
    args = list(call.args)
    if bound:
        args = [ast.Name(id=b, ctx=ast.Load()) for b in bound] + args
    if name == 'heappush' and len(args) == 2 and name_is(args[0], heap):
        return 'push', args[1]
    if name == 'heappop' and len(args) == 1 and name_is(args[0], heap):
        return 'pop', None
    if name == 'heapify' and len(args) == 1 and name_is(args[0], heap):
        return 'heapify', None
    return None


def heap_discipline(R, func, heap, rule):
    """A list that is popped with heapq.heappop only ever grows through heapq.heappush (after an optional heapify): a plain
    append/insert/extend - directly or through a local alias such as ``push = heap.append`` - breaks the heap invariant, and
    pops stop coming out in key order."""
    pops = [n for n in walk(func.body) if isinstance(n, ast.Call) and (heap_call(func, n, heap) or ('',))[0] == 'pop']
    if not pops:
        return
    aliases = {}
    for s in stmts(func.body):
        if isinstance(s, ast.Assign) and len(s.targets) == 1 and isinstance(s.targets[0], ast.Name):
            c = chain(s.value)
            if c and len(c) == 2 and c[0] == heap and c[1] in ('append', 'insert', 'extend'):
                aliases[s.targets[0].id] = s
    bad = None
    for n in walk(func.body):
        if not isinstance(n, ast.Call):
            continue
        c = chain(n.func)
        if c and len(c) == 2 and c[0] == heap and c[1] in ('append', 'insert', 'extend'):
            bad = (n, src(n)[:60])
        elif c and len(c) == 1 and c[0] in aliases:
            bad = (aliases[c[0]], src(aliases[c[0]]))
    R.decided(bad is None, rule, func, bad[0] if bad else pops[0], f'{heap} grows only through heappush (it is popped with heappop)',
              f'heapq.heappush({heap}, entry)', bad[1] if bad else '',
              extra={'consequence': 'heappop returns the first list element and sifts: after a plain append the smallest key is no longer first, '
                                    'members come out of order'} if bad else None)


def iterunion_template(model, R):
    func = model.func('algorithms.common.iterunion')
    if len(func.params) != 3:
        raise Unrecognised('iterunion signature', func=func, node=func.node)
    p_seeds, p_key, p_next = func.params
    R.floor('TRAVERSAL', 8)
    # seeds
    heap = None
    for s in func.body:
        if isinstance(s, ast.Assign) and isinstance(s.targets[0], ast.Name) and isinstance(s.value, ast.ListComp):
            heap, lc, heap_stmt = s.targets[0].id, s.value, s
            break
    if heap is None:
        raise Unrecognised('heap seeding comprehension', func=func, node=func.node)

    def is_entry(node, var):
        return (isinstance(node, ast.Tuple) and len(node.elts) == 2 and isinstance(node.elts[0], ast.Call)
                and name_is(node.elts[0].func, p_key) and len(node.elts[0].args) == 1 and name_is(node.elts[0].args[0], var)
                and name_is(node.elts[1], var))
    g = lc.generators[0]
    R.check(len(lc.generators) == 1 and isinstance(g.target, ast.Name) and name_is(g.iter, p_seeds) and not g.ifs
            and is_entry(lc.elt, g.target.id), 'TRAVERSAL', func, lc, 'every seed enters the heap under its own rank',
            f'[({p_key}(c), c) for c in {p_seeds}]', src(lc))
    heapified = [n for n in walk(func.body) if heap_call(func, n, heap) and heap_call(func, n, heap)[0] == 'heapify']
    heap_discipline(R, func, heap, 'TRAVERSAL')
    loops = [s for s in func.body if isinstance(s, ast.While)]
    if len(loops) != 1:
        raise Unrecognised(f'{len(loops)} while loops', func=func, node=func.node)
    loop = loops[0]
    R.check(bool(heapified) and heapified[0].lineno < loop.lineno, 'TRAVERSAL', func, heapified[0] if heapified else heap_stmt,
            'seed list heapified before the first pop', f'heapq.heapify({heap})', 'no heapify before the loop')
    R.check(name_is(loop.test, heap), 'TRAVERSAL', func, loop, 'runs until the heap is exhausted', f'while {heap}:', src(loop.test))
    # seen init
    seen = None
    for s in func.body:
        if s.lineno < loop.lineno and isinstance(s, ast.Assign) and isinstance(s.targets[0], ast.Name) and isinstance(const(s.value), int) \
                and not isinstance(const(s.value), bool):
            seen, seen_init, seen_stmt = s.targets[0].id, const(s.value), s
    if seen is None:
        raise Unrecognised('initial last-rank constant', func=func, node=func.node)
    R.check(seen_init < 0, 'TRAVERSAL', func, seen_stmt, 'initial last-yielded rank is below every rank',
            'a negative constant (ranks start at 0: the first concept of the order has rank 0)', src(seen_stmt),
            extra={'consequence': f'with {seen} = {seen_init} the concept(s) of rank <= {seen_init} are never yielded '
                                  '(e.g. infimum.upset() / supremum.downset() lose their first member)'})
    # pop
    pops = [s for s in loop.body if isinstance(s, ast.Assign) and heap_call(func, s.value, heap) and heap_call(func, s.value, heap)[0] == 'pop']
    if len(pops) != 1 or not isinstance(pops[0].targets[0], ast.Tuple) or len(pops[0].targets[0].elts) != 2:
        raise Unrecognised('pop of (rank, concept)', func=func, node=loop)
    rank, cur = (e.id for e in pops[0].targets[0].elts)
    # the guard
    guards_ = [s for s in loop.body if isinstance(s, ast.If)]
    if len(guards_) != 1 or guards_[0].orelse:
        raise Unrecognised('single yield guard', func=func, node=loop)
    gd = guards_[0]
    t, neg = strip_not(gd.test)
    strict = None
    if isinstance(t, ast.Compare) and len(t.ops) == 1:
        l, r, op = src(t.left), src(t.comparators[0]), type(t.ops[0])
        table = {(rank, seen, ast.Gt): 'gt', (seen, rank, ast.Lt): 'gt', (rank, seen, ast.GtE): 'ge', (seen, rank, ast.LtE): 'ge',
                 (rank, seen, ast.NotEq): 'ne', (seen, rank, ast.NotEq): 'ne',
                 (rank, seen, ast.Lt): 'lt', (seen, rank, ast.Gt): 'lt', (rank, seen, ast.LtE): 'le', (seen, rank, ast.GtE): 'le',
                 (rank, seen, ast.Eq): 'eq', (seen, rank, ast.Eq): 'eq'}
        strict = table.get((l, r, op))
        if neg and strict:
            strict = {'gt': 'le', 'ge': 'lt', 'lt': 'ge', 'le': 'gt', 'ne': 'eq', 'eq': 'ne'}[strict]
    if strict is None:
        raise Unrecognised(f'yield guard {src(gd.test)}', func=func, node=gd)
    # pops are non-decreasing, so rank != seen is equivalent to rank > seen
    R.check(strict in ('gt', 'ne'), 'TRAVERSAL', func, gd, 'yield iff the popped rank is new', f'if {rank} > {seen}:', src(gd.test),
            extra={'consequence': 'duplicates are yielded' if strict == 'ge' else 'members are dropped'})
    body = gd.body
    upd = [s for s in body if isinstance(s, ast.Assign) and name_is(s.targets[0], seen)]
    R.check(len(upd) == 1 and name_is(upd[0].value, rank), 'TRAVERSAL', func, upd[0] if upd else gd, 'yielded rank recorded',
            f'{seen} = {rank}', src(upd[0]) if upd else 'no update')
    ys = [n for n in walk(loop.body) if isinstance(n, (ast.Yield, ast.YieldFrom))]
    in_guard = [n for n in walk(body) if isinstance(n, ast.Yield)]
    R.check(len(ys) == 1 and len(in_guard) == 1 and name_is(in_guard[0].value, cur), 'TRAVERSAL', func, ys[0] if ys else gd,
            'the popped concept is yielded, once, under the guard', f'yield {cur}', '; '.join(src(y) for y in ys) or 'no yield')
    # successors
    fors = [s for s in walk(loop.body) if isinstance(s, ast.For)]
    ok = False
    if len(fors) == 1 and isinstance(fors[0].target, ast.Name):
        f = fors[0]
        it_ok = (isinstance(f.iter, ast.Call) and name_is(f.iter.func, p_next) and len(f.iter.args) == 1 and name_is(f.iter.args[0], cur))
        pushes = [heap_call(func, s.value, heap) for s in f.body if isinstance(s, ast.Expr)]
        pushes = [p for p in pushes if p and p[0] == 'push']
        ok = it_ok and len(pushes) == 1 and len(f.body) == 1 and is_entry(pushes[0][1], f.target.id)
    if not ok and len(fors) == 1:
        # a push that is filtered by a running maximum of the keys pushed so far: pushes are not monotone across pops, so a
        # successor with a smaller key that was never queued is lost
        for g in [s for s in walk(fors[0].body) if isinstance(s, ast.If)]:
            t = g.test
            if not (isinstance(t, ast.Compare) and len(t.ops) == 1 and isinstance(t.ops[0], (ast.Gt, ast.GtE, ast.Lt, ast.LtE))):
                continue
            names = {n.id for n in ast.walk(t) if isinstance(n, ast.Name)}
            marks = [a for a in g.body if isinstance(a, ast.Assign) and isinstance(a.targets[0], ast.Name) and a.targets[0].id in names]
            pushes_in = [heap_call(func, x.value, heap) for x in g.body if isinstance(x, ast.Expr)]
            if marks and any(q and q[0] == 'push' for q in pushes_in) and not g.orelse:
                R.bad('TRAVERSAL', func, g, 'every successor of a yielded concept is pushed', f'for c in {p_next}({cur}): push(({p_key}(c), c))',
                      f'push only if {src(t)}, with {src(marks[0])} (a running maximum of the pushed keys)',
                      extra={'consequence': 'a successor whose key is below the largest key queued so far is never queued although it was not queued before: '
                                            'members of the up-/downset are missing'})
                return
    R.check(ok, 'TRAVERSAL', func, fors[0] if fors else loop, 'successors of the yielded concept pushed under their own rank',
            f'for c in {p_next}({cur}): push(({p_key}(c), c))', src(fors[0])[:120] if fors else 'no successor loop')


PAIRS = {'upset': ('index', 'upper_neighbors'), 'downset': ('dindex', 'lower_neighbors'),
         'upset_union': ('index', 'upper_neighbors'), 'downset_union': ('dindex', 'lower_neighbors')}
COMPARISON = {'upset_union': 'properly_subsumes', 'downset_union': 'properly_implies'}


def attrgetter_name(node):
    if isinstance(node, ast.Call) and (chain(node.func) or [''])[-1] == 'attrgetter' and len(node.args) == 1:
        return const(node.args[0])
    if isinstance(node, ast.Lambda) and isinstance(node.body, ast.Attribute) and name_is(node.body.value, node.args.args[0].arg):
        return node.body.attr
    return None


def call_sites(model, R):
    R.floor('DIRECTION', 8)
    for key, name in (('lattice_members.NavigateableMixin.upset', 'upset'), ('lattice_members.NavigateableMixin.downset', 'downset'),
                      ('lattices.NavigateableMixin.upset_union', 'upset_union'), ('lattices.NavigateableMixin.downset_union', 'downset_union')):
        func = model.func(key)
        calls = [n for n in walk(func.body) if isinstance(n, ast.Call) and (chain(n.func) or [''])[-1] == 'iterunion']
        if len(calls) != 1 or len(calls[0].args) != 3:
            R.unknown('DIRECTION', func, func.node, f'{name}: iterunion call', f'{len(calls)} calls')
            continue
        call = calls[0]
        seeds, keyarg, nextarg = call.args
        d = func.defaults()

        def resolve(a):
            if isinstance(a, ast.Name) and a.id in d:
                return attrgetter_name(d[a.id])
            return attrgetter_name(a)
        got = (resolve(keyarg), resolve(nextarg))
        R.check(got == PAIRS[name], 'DIRECTION', func, call, f'{name}: rank and successor relation of its direction',
                f'sortkey {PAIRS[name][0]!r} with successors {PAIRS[name][1]!r}', f'sortkey {got[0]!r} with successors {got[1]!r}')
        if name in ('upset', 'downset'):
            seeds = Env(func).expand(seeds)
            R.check(isinstance(seeds, (ast.List, ast.Tuple)) and len(seeds.elts) == 1 and name_is(seeds.elts[0], func.params[0]),
                    'DIRECTION', func, call, f'{name}: seeded with the concept itself', '[self]', src(seeds))
        else:
            p = func.params[1]
            v = seeds
            if isinstance(seeds, ast.Name):
                from ..astutil import reaching_value
                rv = reaching_value(func, seeds.id, call.lineno)
                v = rv if rv is not None else seeds
            if name_is(v, p):
                R.ok('DIRECTION', func, call, f'{name}: seeded with all given concepts (no reduction)')
            elif isinstance(v, ast.Call) and (chain(v.func) or [''])[-1] == 'maximal' and v.args and name_is(v.args[0], p):
                comp = next((k.value for k in v.keywords if k.arg == 'comparison'), v.args[1] if len(v.args) > 1 else None)
                cname = (chain(comp) or [''])[-1] if comp is not None else 'lt (default)'
                R.check(cname == COMPARISON[name] or cname == {'properly_subsumes': '__gt__', 'properly_implies': '__lt__'}[COMPARISON[name]],
                        'DIRECTION', func, v, f'{name}: seeds reduced in the matching direction',
                        f'tools.maximal({p}, Concept.{COMPARISON[name]})', src(v),
                        extra={'consequence': 'the wrong comparison keeps the far ends and drops the seeds whose sets are needed'})
            elif isinstance(v, ast.Call) and name_is(v.func, 'set') or isinstance(v, ast.Call) and name_is(v.func, 'list'):
                R.ok('DIRECTION', func, call, f'{name}: seeded with all given concepts')
            else:
                R.unknown('DIRECTION', func, call, f'{name}: seeds', src(v)[:80])


def overrides(model, R):
    """A subclass of Concept that overrides upset()/downset(): decided when it is one of the recognised shortcuts, else not judged."""
    from .common import subclass_overrides, concept_cls
    cls = concept_cls(model)
    for sub, name, target in subclass_overrides(model, cls, ['upset', 'downset']):
        slot = f'{sub.name}.{name} (override)'
        if not hasattr(target, 'node'):
            R.unknown('DIRECTION', f'{sub.key}.{name}', sub.node, slot, 'rebinding that is not a method definition')
            continue
        rets = [n for n in walk(target.body) if isinstance(n, ast.Return) and n.value is not None]
        if len(rets) != 1:
            R.unknown('DIRECTION', target, target.node, slot, f'{len(rets)} returns')
            continue
        v = Env(target).expand(rets[0].value)
        inner = v
        wrappers = []
        while isinstance(inner, ast.Call) and isinstance(inner.func, ast.Name) and inner.func.id in ('iter', 'reversed', 'list', 'tuple') and len(inner.args) == 1:
            wrappers.append(inner.func.id)
            inner = inner.args[0]
        whole = chain(inner) in (['self', 'lattice', '_concepts'], ['self', 'lattice'])
        if isinstance(v, ast.Call) and (chain(v.func) or [''])[-1] == 'iterunion':
            R.unknown('DIRECTION', target, rets[0], slot, 'an iterunion call in an override: not compared')
        elif whole and sub.name == 'Infimum' and name == 'upset' and 'reversed' not in wrappers:
            R.ok('DIRECTION', target, rets[0], slot, found='the whole lattice in index order (everything is above the bottom)')
        elif whole and sub.name == 'Supremum' and name == 'downset':
            R.bad('DIRECTION', target, rets[0], slot, 'all concepts in increasing dindex (long-lexicographic) order',
                  src(rets[0].value) + ': the member list is in shortlex order - reversed shortlex is not longlex (ties within one size run the other way)')
        else:
            R.unknown('DIRECTION', target, rets[0], slot, src(rets[0].value)[:80])


def maximal_rules(model, R):
    func = model.func('tools.maximal')
    p_it, p_cmp = func.params[0], func.params[1]
    d = func.defaults()
    env = Env(func)
    from ..astutil import context_of, reaching_value

    def is_input(n):
        """the parameter itself, or a local bound to set(param)/list(param)/tuple(param)/param"""
        for _ in range(3):
            if isinstance(n, ast.Name) and n.id != p_it:
                v = reaching_value(func, n.id, 10 ** 9) or env.single(n.id)
                if v is None:
                    break
                n = v
            elif isinstance(n, ast.Call) and isinstance(n.func, ast.Name) and n.func.id in ('set', 'list', 'tuple', 'frozenset') and len(n.args) == 1:
                n = n.args[0]
            else:
                break
        return name_is(n, p_it)

    gens = []
    for n in walk(func.body):
        if isinstance(n, ast.GeneratorExp) and len(n.generators) == 1:
            it = env.expand(n.generators[0].iter)
            if isinstance(it, ast.Call) and (chain(it.func) or [''])[-1] == 'groupby':
                gens.append((n, it))
    if len(gens) != 1:
        R.unknown('MAXIMAL', func, func.node, 'groupby generator', f'{len(gens)} candidates')
        return
    g, gb = gens[0]
    gen = g.generators[0]
    perm = gb.args[0] if gb.args else None
    ok_perm = (isinstance(perm, ast.Call) and (chain(perm.func) or [''])[-1] == 'permutations' and len(perm.args) == 2
               and is_input(perm.args[0]) and const(perm.args[1]) == 2)
    R.check(ok_perm, 'MAXIMAL', func, gb, 'every ordered pair of distinct elements is compared', f'permutations({p_it}, 2)', src(perm))
    keyarg = next((k.value for k in gb.keywords if k.arg == 'key'), gb.args[1] if len(gb.args) > 1 else None)
    kd = d.get(keyarg.id) if isinstance(keyarg, ast.Name) else keyarg
    first = (isinstance(kd, ast.Call) and (chain(kd.func) or [''])[-1] == 'itemgetter' and [const(a) for a in kd.args] == [0])
    R.check(first, 'MAXIMAL', func, gb, 'pairs grouped by their first element', 'key=operator.itemgetter(0)', src(kd))
    ok_elt = (isinstance(gen.target, ast.Tuple) and len(gen.target.elts) == 2 and name_is(g.elt, gen.target.elts[0].id))
    R.check(ok_elt, 'MAXIMAL', func, g, 'yields only input elements (the group key)', 'item for item, pairs in groupby(...)', src(g.elt))
    ok_f = False
    if len(gen.ifs) == 1 and isinstance(gen.target, ast.Tuple):
        t, neg = strip_not(gen.ifs[0])
        ok_f = (neg and isinstance(t, ast.Call) and name_is(t.func, 'any') and isinstance(t.args[0], ast.Call)
                and (chain(t.args[0].func) or [''])[-1] == 'starmap' and name_is(t.args[0].args[0], p_cmp)
                and name_is(t.args[0].args[1], gen.target.elts[1].id))
    R.check(ok_f, 'MAXIMAL', func, g, 'kept iff it dominates no other element', f'if not any(starmap({p_cmp}, pairs))',
            src(gen.ifs[0]) if gen.ifs else 'no filter', strict=True if (gen.ifs and 'any' in src(gen.ifs[0])) or not gen.ifs else None)
    # which return is reached for a one-element input?  (permutations(x, 2) of one element is empty: the seed would be lost)
    rets = sorted((n for n in walk(func.body) if isinstance(n, ast.Return) and n.value is not None), key=lambda n: n.lineno)

    def holds(test, n_items):
        t, neg = strip_not(test)
        if (isinstance(t, ast.Compare) and len(t.ops) == 1 and isinstance(t.left, ast.Call) and name_is(t.left.func, 'len')
                and is_input(t.left.args[0]) and isinstance(const(t.comparators[0]), int)):
            k = const(t.comparators[0])
            v = {ast.Lt: n_items < k, ast.LtE: n_items <= k, ast.Eq: n_items == k, ast.Gt: n_items > k, ast.GtE: n_items >= k,
                 ast.NotEq: n_items != k}.get(type(t.ops[0]))
            return None if v is None else (v != neg)
        return None
    reached = None
    undecidable = False
    for r in rets:
        ctx = context_of(func.body, r) or []
        vals = [holds(c[1], 1) == c[2] if holds(c[1], 1) is not None else None for c in ctx if c[0] in ('if', 'guard')]
        if any(v is None for v in vals):
            undecidable = True
            break
        if all(vals):
            reached = r
            break
    if undecidable or reached is None:
        R.unknown('MAXIMAL', func, func.node, 'a single element is returned as is', 'cannot determine the return reached for a one-element input')
    else:
        v = env.expand(reached.value)
        direct = (isinstance(v, ast.Call) and name_is(v.func, 'iter') and is_input(v.args[0])) or is_input(v)
        R.decided(direct, 'MAXIMAL', func, reached, 'a single element is returned as is', f'return iter({p_it}) when len({p_it}) < 2',
                  f'one element reaches: return {src(reached.value)[:80]}',
                  extra={'consequence': 'permutations(x, 2) of one element is empty: the only seed is lost and the traversal yields nothing'} if not direct else None)
    R.floor('MAXIMAL', 4)


def run(model, R):
    R.guard('TRAVERSAL', None, 'iterunion', iterunion_template, model, R)
    R.guard('DIRECTION', None, 'call sites', call_sites, model, R)
    R.guard('MAXIMAL', None, 'tools.maximal', maximal_rules, model, R)
    R.guard('DIRECTION', None, 'overrides', overrides, model, R)
    # the ranks the traversals are keyed by exist on every lattice, also on an unpickled one
    from .common import no_unpickle_shortcut
    R.guard('TRAVERSAL', None, '_init call sites', no_unpickle_shortcut, model, R, 'TRAVERSAL')
    # a lattice loaded from an unordered serialisation is only the documented structure if the loaders forward raw (C06's rule)
    from . import c06 as _c06
    R.guard('ORDER', None, 'raw flag', _c06.raw_is_forwarded, model, R)
    return __doc__.strip()
