"""C19: ill-formed input raises ValueError before any context exists; accepted input is passed on unmodified.
Decides for Context.__init__ and Context.fromdict (incl. the nested row checker): every raise
constructs ValueError and every KeyError from a key lookup on the input dict is converted; the
disjunction of all guard conditions equals the specification formula over canonical atoms
(Empty, HasDup, Overlap, LenNe, RowLensNe, NonStr, NotSubset, ...), compared by truth table;
every guard precedes the construction call; the arguments of the construction call are the
(tuple-ised) parameters themselves in the right order.  Exceptions raised inside bitsets for
ill-typed arguments are outside /repo and not decided.
"""

import ast

from .. import guards
from ..astutil import Env, chain, src, walk, strip_not, stmts, const
from ..model import Unrecognised
from .c13 import name_is


def _len_of(node):
    if isinstance(node, ast.Call) and name_is(node.func, 'len') and len(node.args) == 1:
        return node.args[0]
    return None


def _set_of(node, env=None):
    """x for ``set(x)`` / ``frozenset(x)`` (through a local alias)."""
    if env is not None:
        node = env.expand(node)
    if isinstance(node, ast.Call) and isinstance(node.func, ast.Name) and node.func.id in ('set', 'frozenset') and len(node.args) == 1:
        return node.args[0]
    return None


def make_atomizer(subst, env, set_names=()):
    """Canonical atoms (Appendix D).  ``subst`` maps loop variables to the literal they range over (unrolling)."""

    def nm(node):
        if isinstance(node, ast.Name):
            return subst.get(node.id, node.id)
        return None

    def atom(n):
        # temporaries such as ``n_objects = len(objects)`` are replaced by their definitions if the plain spelling is unknown
        a = atom0(n)
        if a is None and env is not None and not isinstance(n, ast.Name):
            a = atom0(env.expand(n))
        return a

    def atom0(n):
        # Empty(x): ``not x`` is handled by the caller via polarity of a bare name
        if isinstance(n, ast.Name):
            x = nm(n)
            return (f'Empty({x})', False)
        # a <= b between sets: subset
        if isinstance(n, ast.Compare) and len(n.ops) == 1 and isinstance(n.ops[0], (ast.LtE, ast.GtE)) \
                and isinstance(n.left, (ast.Name, ast.Call)) and isinstance(n.comparators[0], (ast.Name, ast.Call)):
            a_, b_ = (n.left, n.comparators[0]) if isinstance(n.ops[0], ast.LtE) else (n.comparators[0], n.left)
            a_set = _set_of(a_) is not None or (isinstance(a_, ast.Name) and set_names and a_.id in set_names)
            if a_set:
                an = nm(a_) if isinstance(a_, ast.Name) else (f'set({nm(_set_of(a_))})' if nm(_set_of(a_)) else None)
                bn = nm(b_) if isinstance(b_, ast.Name) else None
                if an and bn:
                    return (f'NotSubset({an},{bn})', False)
        if (isinstance(n, ast.BinOp) and isinstance(n.op, ast.Sub) and isinstance(n.left, ast.Call) and isinstance(n.left.func, ast.Name)
                and n.left.func.id in ('set', 'frozenset') and len(n.left.args) == 1 and isinstance(n.left.args[0], ast.Call)
                and name_is(n.left.args[0].func, 'map') and len(n.left.args[0].args) == 2 and name_is(n.left.args[0].args[0], 'type')
                and isinstance(n.right, ast.Set) and [src(e) for e in n.right.elts] == ['str'] and nm(n.left.args[0].args[1])):
            return (f'NotExactlyStr({nm(n.left.args[0].args[1])})', True)
        if isinstance(n, ast.Compare) and len(n.ops) == 1:
            op, l, r = n.ops[0], n.left, n.comparators[0]
            ll, lr = _len_of(l), _len_of(r)
            # len(x) == 0
            if ll is not None and const(r, 'x') == 0 and isinstance(op, (ast.Eq, ast.NotEq)) and nm(ll):
                return (f'Empty({nm(ll)})', isinstance(op, ast.Eq))
            if ll is not None and lr is not None and isinstance(op, (ast.Eq, ast.NotEq, ast.Lt, ast.Gt)):
                # HasDup: len(set(x)) != len(x)   (also  <  : a set is never longer)
                for a, b, lt_ok in ((ll, lr, isinstance(op, ast.Lt)), (lr, ll, isinstance(op, ast.Gt))):
                    s = _set_of(a, env)
                    if s is not None and nm(s) and nm(b) == nm(s):
                        if isinstance(op, (ast.Eq, ast.NotEq)):
                            return (f'HasDup({nm(b)})', isinstance(op, ast.NotEq))
                        if lt_ok:
                            return (f'HasDup({nm(b)})', True)
                    # result = set(r); len(result) != len(r)
                if isinstance(op, (ast.Eq, ast.NotEq)) and nm(ll) and nm(lr):
                    a, b = sorted([nm(ll), nm(lr)])
                    return (f'LenNe({a},{b})', isinstance(op, ast.NotEq))
                if isinstance(op, (ast.Lt, ast.Gt)) and nm(ll) and nm(lr):
                    # a one-sided length comparison is its own (weaker) condition, never the required "lengths differ"
                    a, b = (nm(ll), nm(lr)) if isinstance(op, ast.Lt) else (nm(lr), nm(ll))
                    return (f'LenLt({a},{b})', True)
            if ll is not None and lr is not None and isinstance(op, (ast.LtE, ast.GtE)) and nm(ll) and nm(lr):
                a, b = (nm(ll), nm(lr)) if isinstance(op, ast.GtE) else (nm(lr), nm(ll))
                return (f'LenLt({a},{b})', False)
            # set inclusion spelled with comparison operators: a <= b is issubset, a < b is *proper* subset
            if ll is None and lr is None and isinstance(op, (ast.Lt, ast.LtE, ast.Gt, ast.GtE)) and isinstance(l, ast.Name) and isinstance(r, ast.Name):
                a_, b_ = (l, r) if isinstance(op, (ast.Lt, ast.LtE)) else (r, l)
                sa = env.expand(a_) if env else a_
                if _set_of(sa, env) is not None or (isinstance(sa, ast.Call) and name_is(sa.func, 'set')):
                    if isinstance(op, (ast.LtE, ast.GtE)):
                        return (f'NotSubset({nm(a_)},{nm(b_)})', False)
                    return (f'NotProperSubset({nm(a_)},{nm(b_)})', False)
            # {len(b) for b in bools} != {len(properties)}   /   set(map(len, bools)) != {len(properties)}
            if isinstance(op, (ast.Eq, ast.NotEq)):
                for a, b in ((l, r), (r, l)):
                    if (isinstance(a, ast.Call) and isinstance(a.func, ast.Name) and a.func.id in ('set', 'frozenset') and len(a.args) == 1
                            and isinstance(a.args[0], ast.Call) and name_is(a.args[0].func, 'map') and len(a.args[0].args) == 2
                            and name_is(a.args[0].args[0], 'len') and isinstance(b, ast.Set) and len(b.elts) == 1 and _len_of(b.elts[0]) is not None):
                        rows, cols = nm(a.args[0].args[1]), nm(_len_of(b.elts[0]))
                        if rows and cols:
                            return (f'RowLensNe({rows},{cols})', isinstance(op, ast.NotEq))
                    if (isinstance(a, ast.SetComp) and len(a.generators) == 1 and not a.generators[0].ifs
                            and _len_of(a.elt) is not None and name_is(_len_of(a.elt), getattr(a.generators[0].target, 'id', None))
                            and isinstance(b, ast.Set) and len(b.elts) == 1 and _len_of(b.elts[0]) is not None):
                        rows, cols = nm(a.generators[0].iter), nm(_len_of(b.elts[0]))
                        if rows and cols:
                            return (f'RowLensNe({rows},{cols})', isinstance(op, ast.NotEq))
            if isinstance(op, (ast.Is, ast.IsNot)) and const(r, 'x') is None and nm(l):
                return (f'IsNone({nm(l)})', isinstance(op, ast.Is))
        if isinstance(n, ast.Call):
            f = n.func
            # set(a).isdisjoint(b)
            if isinstance(f, ast.Attribute) and f.attr == 'isdisjoint' and len(n.args) == 1:
                a = _set_of(f.value, env)
                b = _set_of(n.args[0], env) or n.args[0]
                if a is not None and nm(a) and nm(b):
                    x, y = sorted([nm(a), nm(b)])
                    return (f'Overlap({x},{y})', False)
            if isinstance(f, ast.Attribute) and f.attr == 'issubset' and len(n.args) == 1:
                a = env.expand(f.value, alias_only=True) if env else f.value
                b = n.args[0]
                if nm(a) and nm(b):
                    return (f'NotSubset({nm(a)},{nm(b)})', False)
            # any(len(r) != len(p) for r in rows)
            if name_is(f, 'any') and len(n.args) == 1 and isinstance(n.args[0], ast.GeneratorExp):
                g = n.args[0]
                t = g.elt
                if (len(g.generators) == 1 and isinstance(t, ast.Compare) and len(t.ops) == 1 and isinstance(t.ops[0], ast.NotEq)
                        and _len_of(t.left) is not None and _len_of(t.comparators[0]) is not None):
                    a, b = _len_of(t.left), _len_of(t.comparators[0])
                    var = getattr(g.generators[0].target, 'id', None)
                    if name_is(a, var) and nm(b):
                        return (f'RowLensNe({nm(g.generators[0].iter)},{nm(b)})', True)
                    if name_is(b, var) and nm(a):
                        return (f'RowLensNe({nm(g.generators[0].iter)},{nm(a)})', True)
            # set(map(type, values)) - {str}: an *exact* type test - instances of str subclasses are strings too
            pass
            # any(not isinstance(v, str) for v in values)
            if name_is(f, 'any') and len(n.args) == 1 and isinstance(n.args[0], ast.GeneratorExp):
                g = n.args[0]
                t, neg_ = strip_not(g.elt)
                if (neg_ and len(g.generators) == 1 and not g.generators[0].ifs and isinstance(t, ast.Call) and name_is(t.func, 'isinstance')
                        and len(t.args) == 2 and name_is(t.args[0], getattr(g.generators[0].target, 'id', None))
                        and name_is(t.args[1], 'str') and nm(g.generators[0].iter)):
                    return (f'NonStr({nm(g.generators[0].iter)})', True)
            # all(isinstance(v, str) for v in values)
            if name_is(f, 'all') and len(n.args) == 1 and isinstance(n.args[0], ast.GeneratorExp):
                g = n.args[0]
                t = g.elt
                if (len(g.generators) == 1 and not g.generators[0].ifs and isinstance(t, ast.Call) and name_is(t.func, 'isinstance')
                        and len(t.args) == 2 and name_is(t.args[0], getattr(g.generators[0].target, 'id', None))
                        and name_is(t.args[1], 'str') and nm(g.generators[0].iter)):
                    return (f'NonStr({nm(g.generators[0].iter)})', False)
        # range-check spellings of "every index is a valid column": max(x) >= n / max(x) < n / min(x) < 0 / min(x) >= 0
        if isinstance(n, ast.Compare) and len(n.ops) == 1:
            l, r, op = n.left, n.comparators[0], type(n.ops[0])
            flip = {ast.Lt: ast.Gt, ast.Gt: ast.Lt, ast.LtE: ast.GtE, ast.GtE: ast.LtE}
            for a, b, o in ((l, r, op), (r, l, flip.get(op))):
                if isinstance(a, ast.Call) and isinstance(a.func, ast.Name) and a.func.id in ('max', 'min') and len(a.args) == 1 and nm(a.args[0]) and o:
                    x = nm(a.args[0])
                    if a.func.id == 'max' and o in (ast.GtE, ast.Lt) and (nm(b) or _len_of(b) is not None):
                        bound = nm(b) or f'len({nm(_len_of(b))})'
                        return (f'MaxGE({x},{bound})', o is ast.GtE)
                    if a.func.id == 'max' and o in (ast.Gt, ast.LtE) and (nm(b) or _len_of(b) is not None):
                        bound = nm(b) or f'len({nm(_len_of(b))})'
                        return (f'MaxGT({x},{bound})', o is ast.Gt)
                    if a.func.id == 'min' and const(b, 'x') == 0 and o in (ast.Lt, ast.GtE):
                        return (f'MinNeg({x})', o is ast.Lt)
        # set(a) & set(b)  (truthy = overlap)
        if isinstance(n, ast.BinOp) and isinstance(n.op, ast.BitAnd):
            a, b = _set_of(n.left, env), _set_of(n.right, env)
            if a is not None and b is not None and nm(a) and nm(b):
                x, y = sorted([nm(a), nm(b)])
                return (f'Overlap({x},{y})', True)
        return None

    return atom


def _wraps(node, name):
    return (isinstance(node, ast.Call) and isinstance(node.func, ast.Name) and node.func.id in ('set', 'frozenset', 'list', 'tuple')
            and len(node.args) == 1 and name_is(node.args[0], name))


WEAK_ROWLENS = 'a row-length test that some ragged tables pass'


def collect_raises(func, R, rule):
    """[(raise_stmt, [(test, polarity)], subst)] for every raise in the function body (not nested defs)."""
    out = []

    def rec(body, conds, subst_list):
        for s in body:
            if isinstance(s, ast.Raise):
                for subst in subst_list:
                    out.append((s, list(conds), subst))
            elif isinstance(s, ast.If):
                rec(s.body, conds + [(s.test, True)], subst_list)
                rec(s.orelse, conds + [(s.test, False)], subst_list)
                # guard clause: what follows an ``if c: ...; return/raise`` runs only when c was false (and the mirror image)
                ends = lambda b: bool(b) and isinstance(b[-1], (ast.Return, ast.Raise, ast.Continue, ast.Break))
                if ends(s.body) and not ends(s.orelse):
                    conds = conds + [(s.test, False)]
                elif ends(s.orelse) and not ends(s.body):
                    conds = conds + [(s.test, True)]
            elif isinstance(s, ast.For):
                unrolled = unroll(func, s)
                if unrolled is None:
                    if any(isinstance(n, ast.Raise) for n in walk(s.body)):
                        raise Unrecognised(f'raise inside a loop that is not over a literal: {src(s.iter)[:60]}', node=s, func=func)
                    continue
                rec(s.body, conds, [dict(base, **u) for base in subst_list for u in unrolled])
            elif isinstance(s, ast.Try):
                rec(s.body, conds, subst_list)
                for h in s.handlers:
                    rec(h.body, conds + [(h, True)], subst_list)
                rec(s.orelse, conds, subst_list)
                rec(s.finalbody, conds, subst_list)
            elif isinstance(s, ast.With):
                rec(s.body, conds, subst_list)
            elif isinstance(s, ast.While):
                if any(isinstance(n, ast.Raise) for n in walk(s.body)):
                    raise Unrecognised('raise inside a while loop', node=s, func=func)
    rec(func.body, [], [{}])
    return out


def unroll(func, loop):
    """Unroll ``for a, b in [(x, 'x'), (y, 'y')]`` and ``for name, values in zip([...], args[:2])`` into substitutions."""
    it = loop.iter
    tgt = loop.target
    names = [t.id for t in tgt.elts] if isinstance(tgt, ast.Tuple) and all(isinstance(t, ast.Name) for t in tgt.elts) else (
        [tgt.id] if isinstance(tgt, ast.Name) else None)
    if names is None:
        return None
    if isinstance(it, (ast.List, ast.Tuple)):
        out = []
        for e in it.elts:
            if isinstance(tgt, ast.Tuple):
                if not (isinstance(e, (ast.Tuple, ast.List)) and len(e.elts) == len(names)):
                    return None
                out.append({n: (v.id if isinstance(v, ast.Name) else repr(const(v))) for n, v in zip(names, e.elts)})
            else:
                out.append({names[0]: e.id if isinstance(e, ast.Name) else repr(const(e))})
        return out
    if isinstance(it, ast.Call) and name_is(it.func, 'zip') and isinstance(tgt, ast.Tuple) and len(it.args) == len(names):
        cols = []
        for a in it.args:
            seq = literal_seq(func, a)
            if seq is None:
                return None
            cols.append(seq)
        return [dict(zip(names, row)) for row in zip(*cols)]
    return None


def literal_seq(func, node):
    """Names/constants of a literal sequence, through ``args = [d[k] for k in required_keys]`` and constant slices."""
    if isinstance(node, (ast.List, ast.Tuple)):
        return [(e.id if isinstance(e, ast.Name) else repr(const(e))) for e in node.elts]
    if isinstance(node, ast.Subscript) and isinstance(node.slice, ast.Slice):
        base = literal_seq(func, node.value)
        if base is None:
            return None
        lo = const(node.slice.lower, 0) if node.slice.lower is not None else 0
        hi = const(node.slice.upper, None) if node.slice.upper is not None else None
        return base[lo:hi]
    if isinstance(node, ast.Name):
        # args = [d[k] for k in required_keys]   with   objects, properties, context = args
        unpack = None
        value = None
        for s in stmts(func.body):
            if isinstance(s, ast.Assign) and len(s.targets) == 1:
                t = s.targets[0]
                if isinstance(t, ast.Name) and t.id == node.id:
                    value = s.value
                if isinstance(t, ast.Tuple) and name_is(s.value, node.id) and all(isinstance(e, ast.Name) for e in t.elts):
                    unpack = [e.id for e in t.elts]
        if unpack is not None:
            return unpack
        if value is not None and isinstance(value, (ast.List, ast.Tuple)):
            return literal_seq(func, value)
    return None


def is_valueerror(exc):
    if exc is None:
        return None
    if isinstance(exc, ast.Call):
        exc = exc.func
    return (chain(exc) or [''])[-1]


def check_raises_valueerror(R, func, extra_funcs=()):
    n = 0
    for f in (func,) + tuple(extra_funcs):
        for s in walk(f.body):
            if isinstance(s, ast.Raise):
                n += 1
                cls = is_valueerror(s.exc)
                if cls is None:
                    # bare re-raise inside a handler
                    R.bad('RAISES-VALUEERROR', f, s, 'exception class', 'ValueError', 'bare raise re-raises the caught exception')
                else:
                    R.check(cls == 'ValueError', 'RAISES-VALUEERROR', f, s, f'raise #{n} constructs ValueError', 'ValueError', cls)
    return n


def formula_of(conds, atom, func):
    """Conjunction of the path condition of one raise."""
    parts = []
    for test, pol in conds:
        if isinstance(test, ast.ExceptHandler):
            continue
        f = guards.compile_formula(test, atom)
        parts.append((f, pol))
    atoms = []
    for f, _ in parts:
        for a in f.atoms:
            if a not in atoms:
                atoms.append(a)
    return guards.Formula(lambda env: all(bool(f(env)) == pol for f, pol in parts), atoms,
                          ' and '.join((('' if pol else 'not ') + f'({f.text})') for f, pol in parts))


def init_rules(model, R):
    func = model.func('contexts.Data.__init__')
    env = Env(func)
    p_obj, p_prop, p_bools = func.params[1:4]
    check_raises_valueerror(R, func)
    raises = collect_raises(func, R, 'GUARD')
    formulas = []
    for s, conds, subst in raises:
        atom = make_atomizer(subst, env)
        try:
            formulas.append(formula_of(conds, atom, func))
        except Unrecognised as e:
            weak = _weak_rowlens(e.node, p_bools, p_prop)
            if weak:
                R.bad('GUARD', func, e.node, 'row-length test', f'every row of {p_bools} has exactly len({p_prop}) cells', weak)
            else:
                R.unknown('GUARD', func, e.node or s, 'guard atom', e.what)
            return
    spec_atoms = [f'Empty({p_obj})', f'Empty({p_prop})', f'HasDup({p_obj})', f'HasDup({p_prop})',
                  'Overlap(%s,%s)' % tuple(sorted([p_obj, p_prop])), 'LenNe(%s,%s)' % tuple(sorted([p_bools, p_obj])),
                  f'RowLensNe({p_bools},{p_prop})']
    used = []
    for f in formulas:
        for a in f.atoms:
            if a not in used:
                used.append(a)
    stray = [a for a in used if a not in spec_atoms]
    if stray:
        R.bad('GUARD', func, func.node, 'guards test the right collections', 'atoms among ' + ', '.join(spec_atoms), 'stray: ' + ', '.join(stray))
    reject = guards.Formula(lambda e: any(f(e) for f in formulas), used, ' or '.join(f'[{f.text}]' for f in formulas))
    diff = guards.equivalent(reject, lambda e: any(e[a] for a in spec_atoms), spec_atoms)
    R.decided(diff is None, 'GUARD', func, func.node, 'reject iff any of the seven ill-formedness conditions',
            ' or '.join(spec_atoms), reject.text[:300], extra={'differs_at': diff})
    for a in spec_atoms:
        R.check(a in used, 'GUARD', func, func.node, f'condition {a} is tested', a, 'tested: ' + ', '.join(used))
    # dominance: every raise precedes the construction; construction receives the parameters
    calls = [n for n in walk(func.body) if isinstance(n, ast.Call) and (chain(n.func) or [''])[-1] == 'Relation']
    if len(calls) != 1:
        R.unknown('CONSTRUCT', func, func.node, 'construction call', f'{len(calls)} calls of matrices.Relation')
        return
    call = calls[0]
    last_raise = max((s.lineno for s, _, _ in raises), default=0)
    R.check(last_raise < call.lineno and all(s is not call for s in []), 'VALIDATE-BEFORE-CONSTRUCT', func, call,
            'all guards precede matrices.Relation(...)', f'last raise (line {last_raise}) before the construction (line {call.lineno})')
    top = [s for s in func.body if any(n is call for n in ast.walk(s))]
    R.check(bool(top) and isinstance(top[0], ast.Assign), 'VALIDATE-BEFORE-CONSTRUCT', func, call, 'construction is unconditional',
            'top-level statement')
    args = [src(a) for a in call.args]
    R.check(len(args) == 5 and args[2:] == [p_prop, p_obj, p_bools] and [const(a) for a in call.args[:2]] == ['Properties', 'Objects'],
            'FAITHFUL', func, call, 'construction receives the parameters in the roles they have',
            f"Relation('Properties', 'Objects', {p_prop}, {p_obj}, {p_bools})", src(call))
    # the tuple-isation keeps the roles
    for s in func.body:
        if isinstance(s, ast.Assign) and isinstance(s.targets[0], ast.Tuple) and isinstance(s.value, ast.Call) and name_is(s.value.func, 'map'):
            tg = [src(t) for t in s.targets[0].elts]
            a = s.value.args
            ok = (len(a) == 2 and name_is(a[0], 'tuple') and isinstance(a[1], ast.Tuple) and [src(e) for e in a[1].elts] == tg)
            R.check(ok, 'FAITHFUL', func, s, 'names are tuple-ised without being swapped or altered', f'{", ".join(tg)} = map(tuple, ({", ".join(tg)}))', src(s))
    # the unpacking of Relation: (_intents, _extents) with _Properties/_Objects from the matching side
    tgt = top[0].targets[0] if top and isinstance(top[0], ast.Assign) else None
    if isinstance(tgt, ast.Tuple):
        R.check([chain(t) for t in tgt.elts] == [['self', '_intents'], ['self', '_extents']], 'FAITHFUL', func, top[0],
                'Relation unpacked as (_intents, _extents)', 'self._intents, self._extents = Relation(Properties..., Objects...)', src(tgt))
    stores = {}
    for s in func.body:
        if isinstance(s, ast.Assign) and len(s.targets) == 1 and chain(s.targets[0]) and chain(s.targets[0])[0] == 'self':
            stores[chain(s.targets[0])[1]] = chain(s.value)
    R.check(stores.get('_Properties') == ['self', '_intents', 'BitSet'] and stores.get('_Objects') == ['self', '_extents', 'BitSet'],
            'FAITHFUL', func, func.node, 'bit-set classes taken from the matching vectors',
            '_Properties = _intents.BitSet; _Objects = _extents.BitSet', str(stores))


def _weak_rowlens(node, bools, props):
    if node is None:
        return None
    text = src(node)
    if f'len({bools}[' in text or 'max(' in text or 'min(' in text or 'sum(' in text:
        return f'{text}: {WEAK_ROWLENS}'
    return None


def fromdict_rules(model, R):
    func = model.func('contexts.Data.fromdict')
    env = Env(func)
    d = func.params[1]
    make_set = func.nested.get('_make_set')
    check_raises_valueerror(R, func, (make_set,) if make_set else ())
    # required keys
    req = None
    for s in func.body:
        if isinstance(s, ast.Assign) and isinstance(s.value, ast.Tuple) and all(isinstance(const(e), str) for e in s.value.elts):
            req = (s.targets[0].id if isinstance(s.targets[0], ast.Name) else None, [const(e) for e in s.value.elts])
    R.check(req is not None and req[1] == ['objects', 'properties', 'context'], 'REQUIRED-KEYS', func, func.node,
            "required keys are ('objects', 'properties', 'context')", "('objects', 'properties', 'context')", str(req))
    # every subscript d[...] sits in a try whose KeyError handler raises ValueError
    parents = {}
    for n in ast.walk(func.node):
        for c in ast.iter_child_nodes(n):
            parents[c] = n
    nsub = 0
    for n in walk(func.body):
        if isinstance(n, ast.Subscript) and name_is(n.value, d) and isinstance(n.ctx, ast.Load):
            nsub += 1
            cur, guarded = n, False
            while cur in parents:
                par = parents[cur]
                if isinstance(par, ast.Try) and cur in par.body:
                    for h in par.handlers:
                        names = [src(h.type)] if h.type is not None and not isinstance(h.type, ast.Tuple) else (
                            [src(e) for e in h.type.elts] if h.type is not None else ['BaseException'])
                        if any(x in ('KeyError', 'LookupError', 'Exception', 'BaseException') for x in names):
                            rs = [s for s in walk(h.body) if isinstance(s, ast.Raise)]
                            if rs and all(is_valueerror(r.exc) == 'ValueError' for r in rs) and isinstance(h.body[-1], ast.Raise):
                                guarded = True
                cur = par
            R.check(guarded, 'KEYERROR-CONVERTED', func, n, f'lookup {src(n)} converts a missing key to ValueError',
                    'inside try/except KeyError: raise ValueError', 'a missing key escapes as KeyError')
    R.floor('KEYERROR-CONVERTED', 2)
    # the flat guards
    raises = collect_raises(func, R, 'GUARD')
    unpack = literal_seq(func, ast.Name(id='args', ctx=ast.Load())) or ['objects', 'properties', 'context']
    v_obj, v_prop, v_ctx = (unpack + ['objects', 'properties', 'context'])[:3]
    formulas = []
    lattice_var = None
    for s in stmts(func.body):
        if isinstance(s, ast.Assign) and isinstance(s.value, ast.Call) and chain(s.value.func) == [d, 'get'] and const(s.value.args[0]) == 'lattice':
            lattice_var = s.targets[0].id
    lattice_var = lattice_var or 'lattice'
    for s, conds, subst in raises:
        if any(isinstance(t, ast.ExceptHandler) for t, _ in conds):
            continue
        atom0 = make_atomizer(subst, env)

        def atom(n, atom0=atom0):
            if isinstance(n, ast.Name) and n.id == func.params[3 - 0] if False else False:
                return None
            if isinstance(n, ast.Name) and n.id in func.params[2:]:
                return (f'Flag({n.id})', True)
            return atom0(n)
        try:
            formulas.append(formula_of(conds, atom, func))
        except Unrecognised as e:
            R.unknown('GUARD', func, e.node or s, 'guard atom', e.what)
            return
    used = []
    for f in formulas:
        for a in f.atoms:
            if a not in used:
                used.append(a)
    spec_atoms = [f'NonStr({v_obj})', f'NonStr({v_prop})', 'LenNe(%s,%s)' % tuple(sorted([v_ctx, v_obj])),
                  f'IsNone({lattice_var})', f'Empty({lattice_var})']
    stray = [a for a in used if a not in spec_atoms and not a.startswith('Flag(')]
    if stray:
        R.bad('GUARD', func, func.node, 'guards test the right collections', 'atoms among ' + ', '.join(spec_atoms), 'stray: ' + ', '.join(stray))
    reject = guards.Formula(lambda e: any(f(e) for f in formulas), used, ' or '.join(f'[{f.text}]' for f in formulas))

    def spec(e):
        return (e[spec_atoms[0]] or e[spec_atoms[1]] or e[spec_atoms[2]] or (not e[spec_atoms[3]] and e[spec_atoms[4]]))
    diff = guards.equivalent(reject, spec, spec_atoms)
    R.decided(diff is None, 'GUARD', func, func.node, 'reject iff non-string names, row/object count mismatch, or a present-but-empty lattice',
            f'{spec_atoms[0]} or {spec_atoms[1]} or {spec_atoms[2]} or (not {spec_atoms[3]} and {spec_atoms[4]})', reject.text[:300],
            extra={'differs_at': diff})
    for a in spec_atoms[:3] + spec_atoms[4:]:
        R.check(a in used, 'GUARD', func, func.node, f'condition {a} is tested', a, 'tested: ' + ', '.join(used))
    # required lattice: under the flag, d['lattice'] (KeyError -> ValueError); else d.get('lattice')
    flag = func.params[3] if len(func.params) > 3 else None
    ok = False
    for s in stmts(func.body):
        if isinstance(s, ast.If) and flag and name_is(s.test, flag):
            in_try = [t for t in s.body if isinstance(t, ast.Try)]
            ok = (len(in_try) == 1 and any(isinstance(n, ast.Subscript) and name_is(n.value, d) and const(n.slice) == 'lattice'
                                             for n in walk(in_try[0].body)))
    R.check(ok, 'GUARD', func, func.node, 'required-but-missing lattice raises',
            f"if {flag}: try: lattice = {d}['lattice'] except KeyError: raise ValueError")
    # the row checker
    if make_set is None:
        R.unknown('GUARD', func, func.node, 'row checker', 'nested _make_set not found')
    else:
        menv = Env(make_set)
        r = make_set.params[0]
        rs = collect_raises(make_set, R, 'GUARD')
        fs = []
        try:
            for s, conds, subst in rs:
                set_locals = {s_.targets[0].id for s_ in make_set.body if isinstance(s_, ast.Assign) and isinstance(s_.targets[0], ast.Name)
                              and _set_of(s_.value) is not None}
                fs.append(formula_of(conds, make_atomizer(subst, menv, set_locals), make_set))
        except Unrecognised as e:
            R.unknown('GUARD', make_set, e.node, 'row guard atom', e.what)
            fs = None
        if fs is not None:
            # result = set(r): HasDup spelled len(result) != len(r)
            res = None
            for s in make_set.body:
                if isinstance(s, ast.Assign) and _set_of(s.value) is not None and name_is(_set_of(s.value), r):
                    res = s.targets[0].id
            used = []
            for f in fs:
                for a in f.atoms:
                    if a not in used:
                        used.append(a)
            dup = f'HasDup({r})'
            idx_name = make_set.params[1] if len(make_set.params) > 1 else 'indexes'
            subs = [a for a in used if a.startswith(f'NotSubset({res},')]
            sub = subs[0] if subs else f'NotSubset({res},{idx_name})'
            if subs:
                idx_name = sub[len(f'NotSubset({res},'):-1]
            empty = f'Empty({res})'
            maxge = [a for a in used if a.startswith(f'MaxGE({res},')]
            maxgt = [a for a in used if a.startswith(f'MaxGT({res},')]
            minneg = f'MinNeg({res})'
            want = [dup, sub, empty, minneg] + maxge + maxgt
            stray = [a for a in used if a not in want]
            if stray:
                R.bad('GUARD', make_set, make_set.node, 'row guards', ' or '.join([dup, sub]), 'stray: ' + ', '.join(stray))
            if maxgt:
                R.bad('GUARD', make_set, make_set.node, 'row range check bound', 'max(row) >= number of columns (index n is out of range)',
                      'max(row) > n: an index equal to the column count is accepted')
            rej = guards.Formula(lambda e: any(f(e) for f in fs), used, ' or '.join(f.text for f in fs))
            mg = maxge[0] if maxge else 'MaxGE(?)'

            def constraint(e):
                # out of range  <=>  non-empty and (largest too big or smallest negative); an empty row has neither
                out = (not e.get(empty, False)) and (e.get(mg, False) or e.get(minneg, False))
                if e.get(empty, False) and (e.get(mg, False) or e.get(minneg, False)):
                    return False
                return e.get(sub, out) == out if (sub in e and (mg in e or minneg in e)) else True

            def spec(e):
                out = e[sub] if sub in e and not (maxge or minneg in used) else ((not e.get(empty, False)) and (e.get(mg, False) or e.get(minneg, False)))
                return e[dup] or out
            atoms = [dup] + ([sub] if not (maxge or minneg in used) else [empty, mg, minneg])
            diff = guards.equivalent(rej, spec, atoms, constraint=constraint)
            R.decided(diff is None and res is not None, 'GUARD', make_set, make_set.node,
                    'row rejected iff repeated or out-of-range column index', 'len(set(r)) != len(r) or not set(r) <= range(len(properties))',
                    rej.text, extra={'differs_at': diff, 'reading': 'MinNeg = a negative index, MaxGE = an index >= the column count'} if diff else None)
            if maxge:
                bound = maxge[0][len(f'MaxGE({res},'):-1]
                bdef = make_set.defaults().get(bound)
                btext = src(bdef) if bdef is not None else bound
                R.check('len(' in btext and (v_prop in btext or 'indexes' in btext), 'GUARD', make_set, make_set.node, 'range bound is the number of columns',
                        f'len({v_prop})', btext)
            # the index universe: default ``indexes=set(indexes)`` with indexes = tuple(range(len(properties)))
            dflt = make_set.defaults().get(idx_name)
            if dflt is None:   # a free variable of the nested function, bound in the enclosing function
                for s_ in func.body:
                    if isinstance(s_, ast.Assign) and isinstance(s_.targets[0], ast.Name) and s_.targets[0].id == idx_name and _wraps(s_.value, 'indexes'):
                        dflt = s_.value
                        idx_name = 'indexes'
            subset_idiom = sub in used
            universe = None
            for s in func.body:
                if isinstance(s, ast.Assign) and isinstance(s.targets[0], ast.Name) and s.targets[0].id == idx_name:
                    universe = s.value
            inner = universe
            while isinstance(inner, ast.Call) and isinstance(inner.func, ast.Name) and inner.func.id in ('tuple', 'list', 'set', 'frozenset') and inner.args:
                inner = inner.args[0]
            ok = (isinstance(inner, ast.Call) and name_is(inner.func, 'range') and len(inner.args) == 1
                  and _len_of(inner.args[0]) is not None and name_is(_len_of(inner.args[0]), v_prop)
                  and dflt is not None and (name_is(dflt, idx_name) or _wraps(dflt, idx_name)))
            if subset_idiom:
              R.check(ok, 'GUARD', func, universe or func.node, 'valid column indexes are range(len(properties))',
                    f'{idx_name} = tuple(range(len({v_prop})))', src(universe))
        # applied to every row, and the cells rebuilt by membership
        applied = [n for n in walk(func.body) if isinstance(n, ast.Call) and name_is(n.func, 'map') and len(n.args) == 2
                   and name_is(n.args[0], make_set.name) and name_is(n.args[1], v_ctx)]
        applied += [n for n in walk(func.body) if isinstance(n, (ast.ListComp, ast.GeneratorExp)) and isinstance(n.elt, ast.Call)
                    and name_is(n.elt.func, make_set.name) and name_is(n.generators[0].iter, v_ctx)]
        for lp in [s_ for s_ in func.body if isinstance(s_, ast.For) and name_is(s_.iter, v_ctx) and isinstance(s_.target, ast.Name)]:
            applied += [n for n in walk(lp.body) if isinstance(n, ast.Call) and name_is(n.func, make_set.name) and n.args
                        and name_is(n.args[0], lp.target.id) and lp.body and any(n is m for m in ast.walk(lp.body[0]))]
        R.check(bool(applied), 'GUARD', func, applied[0] if applied else func.node, 'every context row passes the row checker',
                f'map(_make_set, {v_ctx})')
    # construction after the guards, with the values from the dict unmodified
    calls = [n for n in walk(func.body) if isinstance(n, ast.Call) and name_is(n.func, func.params[0])]
    if len(calls) != 1:
        R.unknown('CONSTRUCT', func, func.node, 'construction call', f'{len(calls)} calls of cls(...)')
        return
    call = calls[0]
    last = max((s.lineno for s, _, _ in raises), default=0)
    R.check(last < call.lineno, 'VALIDATE-BEFORE-CONSTRUCT', func, call, 'all guards precede cls(...)',
            f'last raise (line {last}) before construction (line {call.lineno})')
    a = [src(x) for x in call.args]
    R.check(a[:2] == [v_obj, v_prop] and len(a) == 3, 'FAITHFUL', func, call, 'construction receives objects and properties from the dict',
            f'cls({v_obj}, {v_prop}, bools)', src(call))
    bools = reaching(func, call.args[2]) if len(call.args) == 3 else None
    ok = False
    if isinstance(bools, ast.List) and not bools.elts and isinstance(call.args[2], ast.Name):
        # bools = [] ; for row in context: s = _make_set(row); bools.append(tuple(i in s for i in indexes))
        bname = call.args[2].id
        for lp in [s_ for s_ in func.body if isinstance(s_, ast.For) and isinstance(s_.target, ast.Name)]:
            apps = [n for n in walk(lp.body) if isinstance(n, ast.Call) and chain(n.func) == [bname, 'append'] and len(n.args) == 1]
            if len(apps) == 1 and len([n for n in walk(func.body) if isinstance(n, ast.Call) and chain(n.func) == [bname, 'append']]) == 1:
                lenv_ = Env(lp.body, params=[lp.target.id])
                row = lenv_.expand(apps[0].args[0])
                if isinstance(row, ast.Call) and name_is(row.func, 'tuple') and row.args:
                    row = row.args[0]
                if isinstance(row, (ast.GeneratorExp, ast.ListComp)) and len(row.generators) == 1 and isinstance(row.elt, ast.Compare):
                    t_, g_ = row.elt, row.generators[0]
                    rhs = t_.comparators[0]
                    ok = (isinstance(t_.ops[0], ast.In) and src(t_.left) == src(g_.target) and not g_.ifs and isinstance(g_.iter, ast.Name)
                          and isinstance(rhs, ast.Call) and make_set is not None and name_is(rhs.func, make_set.name)
                          and name_is(rhs.args[0], lp.target.id) and name_is(lp.iter, v_ctx))
                    if ok:
                        bools = apps[0].args[0]
    if not ok and isinstance(bools, ast.ListComp) and len(bools.generators) == 1:
        row = bools.elt
        if isinstance(row, ast.Call) and name_is(row.func, 'tuple'):
            row = row.args[0]
        if isinstance(row, (ast.GeneratorExp, ast.ListComp)) and len(row.generators) == 1:
            t = row.elt
            g = row.generators[0]
            ok = (isinstance(t, ast.Compare) and isinstance(t.ops[0], ast.In) and src(t.left) == src(g.target)
                  and src(t.comparators[0]) == src(bools.generators[0].target) and not g.ifs and not bools.generators[0].ifs)
            idx_src = g.iter
            ok = ok and isinstance(idx_src, ast.Name)
    R.check(ok, 'FAITHFUL', func, call, 'cells rebuilt as "column index in row set" over all column indexes',
            '[tuple(i in row for i in indexes) for row in map(_make_set, context)]', src(bools))
    # lattice attached only when present and not ignored
    att = [s for s in stmts(func.body) if isinstance(s, ast.Assign) and any(chain(t) and chain(t)[-1] == 'lattice' and len(chain(t)) == 2 for t in s.targets)]
    R.check(len(att) == 1, 'FAITHFUL', func, att[0] if att else func.node, 'stored lattice attached once', 'inst.lattice = Lattice._fromlist(inst, lattice, raw)')


def reaching(func, node):
    if isinstance(node, ast.Name):
        from ..astutil import reaching_value
        v = reaching_value(func, node.id, node.lineno)
        return v if v is not None else node
    return node


def constructor_bypass(model, R):
    """Every Context is built by ``cls(...)`` / ``Context(...)`` and therefore validated by __init__: no code in contexts.py creates an
    instance with ``__new__`` (pickle restores state through __setstate__, which the interpreter calls itself)."""
    mod = model.module('contexts')
    n = 0
    for f in mod.funcs.values():
        for node in walk(f.body):
            if isinstance(node, ast.Call) and isinstance(node.func, ast.Attribute) and node.func.attr == '__new__':
                n += 1
                R.bad('VALIDATE-BEFORE-CONSTRUCT', f, node, 'contexts are only created through the validating __init__', 'cls(objects, properties, bools)',
                      src(node)[:80], extra={'consequence': 'an instance built with __new__ skips the emptiness / duplicate / overlap / shape checks'})
    R.ok('VALIDATE-BEFORE-CONSTRUCT', 'contexts', 'concepts/contexts.py', f'{n} __new__ calls in contexts.py (expected 0)')


def run(model, R):
    R.floor('RAISES-VALUEERROR', 11)
    R.floor('GUARD', 14)
    R.guard('GUARD', None, 'Context.__init__', init_rules, model, R)
    R.guard('GUARD', None, 'Context.fromdict', fromdict_rules, model, R)
    R.guard('VALIDATE-BEFORE-CONSTRUCT', None, 'contexts.py', constructor_bypass, model, R)
    # Context.bools reproduces the accepted table through the library series of this relation (C01's wiring rules are a dependency)
    from . import c01
    R.guard('WIRING', None, 'Relation.__new__', c01.relation_new, model, R)
    return __doc__.strip()
