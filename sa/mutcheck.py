"""Developer tool (not a registered check): run the rules over scratch copies with one mutant applied.

    python -m sa.mutcheck survivors            # the 203 test-suite survivors, compared with their B/E class
    python -m sa.mutcheck all [--props C08]    # all first-order mutants
    python -m sa.mutcheck id 1213 1222         # show the report for single mutants
"""

import json
import multiprocessing as mp
import os
import pathlib
import shutil
import sys
import tempfile

from . import check
from .model import Model

DESIGN = pathlib.Path(__file__).resolve().parent.parent / 'design'
REPO = pathlib.Path(os.environ.get('SA_REPO', '/repo'))


def apply(m, root):
    path = root / m['file']
    lines = path.read_text(encoding='utf-8').split('\n')
    old = m['old'].split('\n')
    hits = [i for i in range(len(lines) - len(old) + 1) if lines[i:i + len(old)] == old]
    if not hits:
        return False
    i = min(hits, key=lambda i: abs(i + 1 - m['line']))
    lines[i:i + len(old)] = m['new'].split('\n')
    path.write_text('\n'.join(lines), encoding='utf-8')
    return True


def evaluate(m, props):
    tmp = pathlib.Path(tempfile.mkdtemp(prefix='sa-mut-'))
    try:
        shutil.copytree(REPO / 'concepts', tmp / 'concepts', ignore=shutil.ignore_patterns('__pycache__'))
        if not apply(m, tmp):
            return {'id': m['id'], 'applied': False}
        try:
            compile((tmp / m['file']).read_text(), m['file'], 'exec')
        except SyntaxError:
            return {'id': m['id'], 'applied': False}
        res = {}
        detail = {}
        try:
            model = Model(tmp)
        except Exception as e:
            return {'id': m['id'], 'applied': True, 'res': {p: 2 for p in props}, 'detail': {'*': [str(e)]}}
        for p in props:
            rc, R = check.run_property(p, 'quick', tmp, write=False, quiet=True, model=model)
            res[p] = rc
            if rc:
                detail[p] = [l for l in R.lines if l.startswith(('VIOLATION', 'ANALYSIS-ERROR', '  concepts/', 'Traceback'))][:6]
        return {'id': m['id'], 'applied': True, 'res': res, 'detail': detail}
    finally:
        shutil.rmtree(tmp, ignore_errors=True)


def _task(args):
    return evaluate(*args)


def main(argv):
    mode = argv[0]
    props = sorted(check.PROPS)
    if '--props' in argv:
        i = argv.index('--props')
        props = argv[i + 1].split(',')
        argv = argv[:i] + argv[i + 2:]
    avail = []
    for p in props:
        try:
            __import__(f'sa.rules.{check.PROPS[p][0]}')
            avail.append(p)
        except ImportError:
            pass
    props = avail
    if mode == 'survivors':
        muts = json.loads((DESIGN / 'survivors.json').read_text())
    else:
        muts = json.loads((DESIGN / 'all_mutants.json').read_text())
        if mode == 'id':
            ids = {int(x) for x in argv[1:]}
            muts = [m for m in muts if m['id'] in ids]
            surv = {m['id']: m for m in json.loads((DESIGN / 'survivors.json').read_text())}
            for m in muts:
                m.update({k: v for k, v in surv.get(m['id'], {}).items() if k in ('cls', 'label')})
    if '--func' in argv:
        i = argv.index('--func')
        pat = argv[i + 1]
        muts = [m for m in muts if pat in m['func'] or pat in m['file']]
        verbose = True
    else:
        verbose = False
    surv_ids = {m['id']: m for m in json.loads((DESIGN / 'survivors.json').read_text())}
    with mp.Pool(16) as pool:
        results = pool.map(_task, [(m, props) for m in muts], chunksize=4)
    by = {m['id']: m for m in muts}
    missed, false_alarm, unrec_e, caught, notapplied = [], [], [], [], []
    killed = 0
    for r in results:
        m = by[r['id']]
        if not r['applied']:
            notapplied.append(m)
            continue
        viol = [p for p, rc in r['res'].items() if rc == 1]
        err = [p for p, rc in r['res'].items() if rc == 2]
        tag = f"{m['id']:5d} {m['file'].split('/', 1)[1]}:{m['line']} {m['func']} {m['kind']} `{m['edit']}`"
        if mode == 'id':
            print(tag, m.get('label', ''), 'VIOL', viol, 'ERR', err)
            for p, d in r['detail'].items():
                for l in d:
                    print('      ', p, l)
            continue
        if verbose:
            sv = surv_ids.get(m['id'])
            print(('V' if viol else ('E' if err else '.')), ('surv-' + sv['cls'] if sv else 'killed'), tag.replace('\n', ' ')[:150], viol or err or '')
        cls = m.get('cls')
        if cls == 'B':
            (caught if viol else missed).append((tag, m.get('label'), viol, err))
        elif cls == 'E':
            if viol:
                false_alarm.append((tag, m.get('label'), viol, r['detail']))
            elif err:
                unrec_e.append((tag, m.get('label'), err, r['detail']))
        else:
            if viol:
                killed += 1
    if mode == 'survivors':
        print(f'props: {props}')
        print(f'B caught {len(caught)} / missed {len(missed)};  E false alarms {len(false_alarm)}, E unrecognised {len(unrec_e)}; not applicable {len(notapplied)}')
        print('--- MISSED (class B)')
        for t in missed:
            print(t[0], '|', t[1], '| ERR', t[3])
        print('--- FALSE ALARMS (class E)')
        for t in false_alarm:
            print(t[0], '|', t[1], '| VIOL', t[2])
            for p, d in t[3].items():
                for l in d:
                    print('      ', p, l)
        print('--- UNRECOGNISED on class E')
        for t in unrec_e:
            print(t[0], '|', t[1], '| ERR', t[2])
            for p, d in t[3].items():
                for l in d[:2]:
                    print('      ', p, l)
        print('--- not applicable (fixed region):', [m['id'] for m in notapplied])
    elif mode == 'all':
        print(f'{killed} of {len(results)} mutants flagged by at least one rule')


if __name__ == '__main__':
    main(sys.argv[1:])
