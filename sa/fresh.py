"""E4: freshness / ownership classification of expressions.

``Fresh``   — a newly created container nobody else references: ``x.copy()``, ``x[:]``, a display or
              comprehension, a constructor call (``set(..)``, ``list(..)``, ``dict(..)``, ``tuple(..)``,
              ``Unique(..)``), ``.rsub(..)``, the result of a binary set operator, a conditional expression with two
              fresh arms, or a local bound once to such a value (in-place updates of that local keep it fresh).
``Borrowed``— an attribute chain rooted in a parameter or self (shares state with its owner), or a bare parameter.
"""

import ast

from .astutil import chain, src, reaching_value

FRESH, BORROWED, UNKNOWN = 'Fresh', 'Borrowed', 'Unknown'

CONSTRUCTORS = {'set', 'frozenset', 'list', 'dict', 'tuple', 'sorted', 'Unique', 'tools.Unique',
                'collections.OrderedDict', 'OrderedDict'}
FRESH_METHODS = {'copy', 'rsub', 'union', 'intersection', 'difference', 'symmetric_difference', '__copy__', '__deepcopy__'}


def classify(node, env=None, params=(), depth=0, func=None):
    """Return (kind, reason)."""
    if isinstance(node, (ast.SetComp, ast.ListComp, ast.DictComp, ast.Set, ast.List, ast.Dict)):
        return FRESH, 'display/comprehension'
    if isinstance(node, ast.Tuple):
        return FRESH, 'tuple display (immutable)'
    if isinstance(node, ast.Constant):
        return FRESH, 'constant (immutable)'
    if isinstance(node, ast.Call):
        f = node.func
        if isinstance(f, ast.Attribute) and f.attr in FRESH_METHODS:
            return FRESH, f'.{f.attr}()'
        name = '.'.join(chain(f) or [])
        if name in CONSTRUCTORS:
            return FRESH, f'{name}(...)'
        if name in ('copy.copy', 'copy.deepcopy'):
            return FRESH, name
        return UNKNOWN, f'call {src(f)}'
    if isinstance(node, ast.Subscript) and isinstance(node.slice, ast.Slice):
        return FRESH, 'slice copy'
    if isinstance(node, ast.BinOp) and isinstance(node.op, (ast.BitAnd, ast.BitOr, ast.BitXor, ast.Sub, ast.Add)):
        return FRESH, 'operator result'
    if isinstance(node, ast.IfExp):
        a, ra = classify(node.body, env, params, depth, func)
        b, rb = classify(node.orelse, env, params, depth, func)
        if a == FRESH and b == FRESH:
            return FRESH, 'both arms fresh'
        if BORROWED in (a, b):
            return BORROWED, f'arm borrowed: {ra if a == BORROWED else rb}'
        return UNKNOWN, 'conditional'
    if isinstance(node, ast.Attribute):
        c = chain(node)
        if c:
            return BORROWED, f'attribute of {c[0]}: {".".join(c)}'
        return UNKNOWN, 'attribute'
    if isinstance(node, ast.Name):
        if func is not None and hasattr(node, 'lineno'):
            rv = reaching_value(func, node.id, node.lineno)
            if rv is not None:
                k, r = classify(rv, env, params, depth + 1, func)
                return k, f'{node.id} = {r}'
        if node.id in params:
            return BORROWED, f'parameter {node.id}'
        if env is not None and depth < 8:
            values = env.get(node.id)
            if values:
                kinds = [classify(v, env, params, depth + 1, func) for v in values]
                if all(k == FRESH for k, _ in kinds):
                    return FRESH, f'local {node.id} bound to fresh value(s)'
                for k, r in kinds:
                    if k == BORROWED:
                        return BORROWED, f'local {node.id} = {r}'
        return UNKNOWN, f'name {node.id}'
    return UNKNOWN, type(node).__name__


def local_bindings(func):
    """name -> list of all values it is bound to by plain assignment (augmented in-place updates do not rebind)."""
    out = {}
    from .astutil import stmts
    for s in stmts(func.body):
        if isinstance(s, ast.Assign):
            for t in s.targets:
                if isinstance(t, ast.Name):
                    out.setdefault(t.id, []).append(s.value)
                elif isinstance(t, ast.Tuple) and isinstance(s.value, ast.Tuple) and len(t.elts) == len(s.value.elts):
                    for tt, vv in zip(t.elts, s.value.elts):
                        if isinstance(tt, ast.Name):
                            out.setdefault(tt.id, []).append(vv)
    return out
