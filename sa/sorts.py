"""E2: two-sorted FCA typing of expressions (object sets ``O`` vs. property sets ``P``).

Sorts: 'O', 'P' (bit sets), 'ClsO'/'ClsP' (the BitSet classes), 'VecO'/'VecP' (``_extents``/``_intents``: vectors of
O resp. P values), tuples of sorts for pairs.  Field sorts follow from ``Context.__init__``
(``self._intents, self._extents = Relation('Properties', 'Objects', properties, objects, bools)``; checked by C19/C01)
and the closure signatures established by C01: ``S.prime: S -> S'``, ``S.double: S -> S``,
``S.doubleprime: S -> (S, S')``.
"""

import ast

from .astutil import chain, src, stmts, walk

FLIP = {'O': 'P', 'P': 'O'}

FIELD_SORT = {'_Objects': 'ClsO', '_Properties': 'ClsP', '_extents': 'VecO', '_intents': 'VecP',
              '_extent': 'O', '_intent': 'P'}
# names conventionally bound to the classes when passed as parameters (lindig: ``Objects``)
PARAM_CLS = {'Objects': 'ClsO', 'Properties': 'ClsP'}


class Sorter:
    """Flow-insensitive but binding-aware sort inference inside one function."""

    def __init__(self, func, extra=None):
        self.func = func
        self.types = dict(extra or {})
        for p in func.params:
            if p in PARAM_CLS and p not in self.types:
                self.types[p] = PARAM_CLS[p]
        self.conflicts = []
        for _ in range(4):
            before = dict(self.types)
            self._pass(func.body)
            if self.types == before:
                break

    def _bind(self, target, sort, node):
        if sort is None:
            return
        if isinstance(target, ast.Name):
            old = self.types.get(target.id)
            if old is not None and old != sort:
                self.conflicts.append((target.id, old, sort, node))
                return
            self.types[target.id] = sort
        elif isinstance(target, (ast.Tuple, ast.List)) and isinstance(sort, tuple) and len(sort) == len(target.elts):
            for t, s in zip(target.elts, sort):
                self._bind(t, s, node)

    def _pass(self, body):
        for s in stmts(body):
            if isinstance(s, ast.Assign):
                sort = self.sort(s.value)
                for t in s.targets:
                    self._bind(t, sort, s)
            elif isinstance(s, (ast.For, ast.AsyncFor)):
                self._bind(s.target, self.elem_sort(s.iter), s)
        for n in walk(body):
            if isinstance(n, (ast.ListComp, ast.SetComp, ast.GeneratorExp, ast.DictComp)):
                for g in n.generators:
                    self._bind(g.target, self.elem_sort(g.iter), n)

    def elem_sort(self, it):
        """Sort of the elements an iterable yields."""
        s = self.sort(it)
        if s in ('VecO', 'VecP'):
            return s[-1]
        if isinstance(it, ast.Call):
            f = it.func
            name = (chain(f) or [''])[-1]
            if name in ('atomic', 'atoms', 'inatoms', 'powerset') :
                if isinstance(f, ast.Attribute):
                    base = self.sort(f.value)
                    if base in ('O', 'P'):
                        return base
                    if base in ('ClsO', 'ClsP') and it.args:
                        return base[-1]
            if name in ('reversed', 'sorted', 'list', 'tuple', 'iter') and it.args:
                return self.elem_sort(it.args[0])
            if name == 'enumerate' and it.args:
                inner = self.elem_sort(it.args[0])
                return ('Idx' + inner, inner) if inner in ('O', 'P') else None
            callee_sort = self.sort(it)
            if isinstance(callee_sort, tuple) and callee_sort and callee_sort[0] == 'iter':
                return callee_sort[1]
        if isinstance(it, ast.Subscript) and isinstance(it.slice, ast.Slice):
            return self.elem_sort(it.value)
        if isinstance(it, ast.Name):
            t = self.types.get(it.id)
            if isinstance(t, tuple) and t and t[0] == 'list':
                return t[1]
        return None

    def sort(self, node):
        if node is None:
            return None
        if isinstance(node, ast.Name):
            return self.types.get(node.id)
        if isinstance(node, ast.Attribute):
            if node.attr in FIELD_SORT:
                return FIELD_SORT[node.attr]
            base = self.sort(node.value)
            if node.attr in ('supremum', 'infimum') and base in ('ClsO', 'ClsP'):
                return base[-1]
            if node.attr == 'BitSet' and base in ('VecO', 'VecP'):
                return 'Cls' + base[-1]
            if node.attr in ('prime', 'double', 'doubleprime') and base in ('ClsO', 'ClsP', 'VecO', 'VecP', 'O', 'P'):
                return ('fn', node.attr, base[-1])
            if node.attr == 'fromint' and base in ('ClsO', 'ClsP'):
                return ('fn', 'fromint', base[-1])
            return None
        if isinstance(node, ast.Tuple):
            return tuple(self.sort(e) for e in node.elts)
        if isinstance(node, ast.BinOp) and isinstance(node.op, (ast.BitAnd, ast.BitOr, ast.BitXor, ast.Sub)):
            l, r = self.sort(node.left), self.sort(node.right)
            if l in ('O', 'P') and (r == l or r is None):
                return l
            if r in ('O', 'P') and l is None:
                return r
            if l in ('O', 'P') and r in ('O', 'P') and l != r:
                return ('mixed', l, r)
            return None
        if isinstance(node, ast.UnaryOp) and isinstance(node.op, ast.Invert):
            return self.sort(node.operand)
        if isinstance(node, ast.Subscript):
            base = self.sort(node.value)
            if base in ('VecO', 'VecP'):
                return base[-1]
            if isinstance(base, tuple) and base and base[0] == 'list':
                return base[1]
            if isinstance(base, tuple) and isinstance(node.slice, ast.Constant) and isinstance(node.slice.value, int):
                i = node.slice.value
                if base and base[0] not in ('fn', 'list', 'iter', 'mixed') and -len(base) <= i < len(base):
                    return base[i]
            return None
        if isinstance(node, ast.IfExp):
            return self.sort(node.body) or self.sort(node.orelse)
        if isinstance(node, ast.BinOp) and isinstance(node.op, ast.Mult):
            # [Properties.infimum] * n
            if isinstance(node.left, ast.List) and len(node.left.elts) == 1:
                e = self.sort(node.left.elts[0])
                if e in ('O', 'P'):
                    return ('list', e)
            return None
        if isinstance(node, ast.Call):
            f = node.func
            fs = self.sort(f)
            if isinstance(fs, tuple) and fs and fs[0] == 'fn':
                _, kind, s = fs
                if kind == 'prime':
                    return FLIP[s]
                if kind == 'double':
                    return s
                if kind == 'doubleprime':
                    return (s, FLIP[s])
                if kind == 'fromint':
                    return s
            if isinstance(f, ast.Attribute):
                base = self.sort(f.value)
                if f.attr in ('frommembers', 'fromint', 'reduce_or', 'reduce_and', 'frombools', 'frombits') and base in ('ClsO', 'ClsP'):
                    return base[-1]
                if f.attr == 'copy' and base is not None:
                    return base
                if f.attr == 'intension':
                    return 'P' if _raw(node) else 'labelsP'
                if f.attr == 'extension':
                    return 'O' if _raw(node) else 'labelsO'
                if f.attr == '__getitem__' and _raw(node):
                    return ('O', 'P')
                if f.attr == 'members' and base in ('O', 'P'):
                    return 'labels' + base
            return None
        return None


def _raw(call):
    for k in call.keywords:
        if k.arg == 'raw':
            return isinstance(k.value, ast.Constant) and k.value.value is True
    return False
