"""AST helpers: attribute chains, local alias expansion, walking without nested defs, normal forms."""

import ast
import copy

__all__ = ['context_of', 'path_condition', 'skeleton', 'parse_expr', 'reaching_value', 'chain', 'is_chain', 'src', 'walk', 'stmts', 'Env', 'call_name', 'const',
           'names_loaded', 'names_stored', 'is_none_test', 'strip_not', 'flatten_bool',
           'norm', 'same', 'kwarg', 'contains_name', 'iter_child_stmts', 'assigned_names',
           'targets_of']


def src(node):
    if node is None:
        return 'None'
    if isinstance(node, list):
        return '; '.join(src(n) for n in node)
    try:
        return ast.unparse(node)
    except Exception:  # pragma: no cover
        return ast.dump(node)


def chain(node):
    """``self.lattice.supremum._extent`` -> ['self','lattice','supremum','_extent']; None if not a pure chain."""
    parts = []
    while isinstance(node, ast.Attribute):
        parts.append(node.attr)
        node = node.value
    if isinstance(node, ast.Name):
        parts.append(node.id)
        return parts[::-1]
    return None


def is_chain(node, *parts):
    return chain(node) == list(parts)


def const(node, default=None):
    if isinstance(node, ast.Constant):
        return node.value
    if (isinstance(node, ast.UnaryOp) and isinstance(node.op, ast.USub)
            and isinstance(node.operand, ast.Constant)
            and isinstance(node.operand.value, (int, float))):
        return -node.operand.value
    return default


def is_const(node):
    return const(node, default=_MISSING) is not _MISSING


_MISSING = object()


def call_name(node):
    """Dotted name of a call's callee (``heapq.heappush``), or None."""
    if not isinstance(node, ast.Call):
        return None
    c = chain(node.func)
    return '.'.join(c) if c else None


def kwarg(call, name, pos=None):
    for kw in call.keywords:
        if kw.arg == name:
            return kw.value
    if pos is not None and len(call.args) > pos and not any(isinstance(a, ast.Starred) for a in call.args[:pos + 1]):
        return call.args[pos]
    return None


def walk(node, *, into_defs=False, into_lambdas=True):
    """ast.walk that does not descend into nested function/class definitions."""
    todo = [node] if not isinstance(node, list) else list(node)
    first = True
    while todo:
        n = todo.pop()
        yield n
        for child in ast.iter_child_nodes(n):
            if not into_defs and isinstance(child, (ast.FunctionDef, ast.AsyncFunctionDef, ast.ClassDef)):
                continue
            if not into_lambdas and isinstance(child, ast.Lambda):
                continue
            todo.append(child)
        first = False


def stmts(body):
    """All statements in ``body`` recursively in source order (not into nested defs)."""
    for s in body:
        yield s
        if isinstance(s, (ast.FunctionDef, ast.AsyncFunctionDef, ast.ClassDef)):
            continue
        for field in ('body', 'orelse', 'finalbody'):
            sub = getattr(s, field, None)
            if sub:
                yield from stmts(sub)
        for h in getattr(s, 'handlers', []) or []:
            yield from stmts(h.body)


def iter_child_stmts(s):
    for field in ('body', 'orelse', 'finalbody'):
        sub = getattr(s, field, None)
        if sub and isinstance(sub, list):
            yield field, sub
    for h in getattr(s, 'handlers', []) or []:
        yield 'handler', h.body


def names_loaded(node):
    return {n.id for n in walk(node) if isinstance(n, ast.Name) and isinstance(n.ctx, ast.Load)}


def names_stored(node):
    return {n.id for n in walk(node) if isinstance(n, ast.Name) and isinstance(n.ctx, (ast.Store, ast.Del))}


def contains_name(node, name):
    return any(isinstance(n, ast.Name) and n.id == name for n in walk(node))


def targets_of(stmt):
    """Plain names bound by an assignment-like statement."""
    out = []
    if isinstance(stmt, ast.Assign):
        for t in stmt.targets:
            out += [n.id for n in ast.walk(t) if isinstance(n, ast.Name) and isinstance(n.ctx, ast.Store)]
    elif isinstance(stmt, (ast.AugAssign, ast.AnnAssign)):
        if isinstance(stmt.target, ast.Name):
            out.append(stmt.target.id)
    elif isinstance(stmt, (ast.For, ast.AsyncFor)):
        out += [n.id for n in ast.walk(stmt.target) if isinstance(n, ast.Name)]
    elif isinstance(stmt, (ast.With, ast.AsyncWith)):
        for item in stmt.items:
            if item.optional_vars is not None:
                out += [n.id for n in ast.walk(item.optional_vars) if isinstance(n, ast.Name)]
    return out


def assigned_names(body):
    """name -> number of binding occurrences in body (incl. loops targets, comprehension excluded)."""
    counts = {}
    for s in stmts(body):
        for n in targets_of(s):
            counts[n] = counts.get(n, 0) + 1
        for n in ast.walk(s) if not isinstance(s, (ast.FunctionDef, ast.ClassDef)) else []:
            if isinstance(n, ast.NamedExpr) and isinstance(n.target, ast.Name):
                counts[n.target.id] = counts.get(n.target.id, 0) + 1
        if isinstance(s, ast.Try):
            for h in s.handlers:
                if h.name:
                    counts[h.name] = counts.get(h.name, 0) + 1
    return counts


class Env:
    """Single-assignment local temporaries of a function, for alias substitution.

    A local name qualifies when it is bound exactly once in the function by a
    plain ``name = <expr>`` statement that is not inside a loop, is not a
    parameter, and whose value does not mention a name that is rebound later.
    ``expand`` substitutes such names recursively.
    """

    def __init__(self, func_or_body, params=()):
        body = func_or_body.body if hasattr(func_or_body, 'body') and not isinstance(func_or_body, list) else func_or_body
        if hasattr(func_or_body, 'params'):
            params = func_or_body.params
            node = func_or_body.node
            if node.args.vararg:
                params = params + [node.args.vararg.arg]
            if node.args.kwarg:
                params = params + [node.args.kwarg.arg]
        self.params = set(params)
        self.counts = assigned_names(body)
        # in-place augmented assignment on an alias of a container attribute (``pairs = self._pairs; pairs |= ...``)
        # keeps the alias; augmented assignment on anything else is a rebinding
        self.aug = {}
        for s in stmts(body):
            if isinstance(s, ast.AugAssign) and isinstance(s.target, ast.Name):
                self.aug[s.target.id] = self.aug.get(s.target.id, 0) + 1
        self.defs = {}
        self.def_line = {}
        self.last_bind = {}
        for s in stmts(body):
            for n in targets_of(s):
                self.last_bind[n] = max(self.last_bind.get(n, 0), getattr(s, 'lineno', 0))
        self._collect(body, in_loop=False)
        for name, n in self.aug.items():
            value = self.defs.get(name)
            if value is not None and self.counts.get(name) == 1 + n and chain(value) and len(chain(value)) >= 2:
                continue
            self.defs.pop(name, None)

    def _collect(self, body, in_loop):
        for s in body:
            if isinstance(s, (ast.FunctionDef, ast.AsyncFunctionDef, ast.ClassDef)):
                continue
            if (isinstance(s, ast.Assign) and len(s.targets) == 1
                    and isinstance(s.targets[0], ast.Name) and not in_loop):
                name = s.targets[0].id
                if self.counts.get(name) == 1 + self.aug.get(name, 0) and name not in self.params:
                    self.defs[name] = s.value
                    self.def_line[name] = s.lineno
            if (isinstance(s, ast.Assign) and len(s.targets) > 1 and not in_loop and all(isinstance(t, ast.Name) for t in s.targets)
                    and (chain(s.value) is not None or isinstance(s.value, ast.Constant))):
                # chained assignment of a side-effect free value: every target is an alias of it
                for t in s.targets:
                    if self.counts.get(t.id) == 1 and t.id not in self.params:
                        self.defs[t.id] = s.value
                        self.def_line[t.id] = s.lineno
            if (isinstance(s, ast.Assign) and len(s.targets) == 1 and not in_loop
                    and isinstance(s.targets[0], ast.Tuple) and isinstance(s.value, ast.Tuple)
                    and len(s.targets[0].elts) == len(s.value.elts)):
                for t, v in zip(s.targets[0].elts, s.value.elts):
                    if isinstance(t, ast.Name) and self.counts.get(t.id) == 1 and t.id not in self.params:
                        self.defs[t.id] = v
                        self.def_line[t.id] = s.lineno
            for field, sub in iter_child_stmts(s):
                self._collect(sub, in_loop or isinstance(s, (ast.For, ast.While, ast.AsyncFor)))

    def single(self, name):
        return self.defs.get(name)

    def expand(self, node, depth=0, skip=(), alias_only=False):
        """Return a copy of ``node`` with single-assignment temporaries substituted.

        With ``alias_only`` only pure aliases (names bound to a name or attribute chain) are substituted,
        which preserves object identity (``seen = set()`` is not replaced by a new ``set()``).
        """
        env = self
        if isinstance(node, ast.Name) and isinstance(node.ctx, ast.Store):
            node = ast.Name(id=node.id, ctx=ast.Load())

        class T(ast.NodeTransformer):
            def visit_Name(self, n):
                if isinstance(n.ctx, ast.Load) and n.id in env.defs and n.id not in skip and depth < 12:
                    value = env.defs[n.id]
                    if alias_only and chain(value) is None:
                        return n
                    # do not expand through values that depend on rebound names
                    for used in names_loaded(value):
                        if env.counts.get(used, 0) > 1 or (used in env.params and env.counts.get(used, 0) > 0):
                            # a rebound name is harmless when every rebinding lies before this definition (straight-line order)
                            if not (env.last_bind.get(used, 0) < env.def_line.get(n.id, 0)):
                                return n
                    return env.expand(value, depth + 1, skip, alias_only)
                return n

            def visit_Lambda(self, n):
                return n

        return T().visit(copy.deepcopy(node))


def is_none_test(node):
    """``x is None`` -> ('x', True); ``x is not None`` -> ('x', False); else None. x given as source text."""
    if (isinstance(node, ast.Compare) and len(node.ops) == 1
            and isinstance(node.comparators[0], ast.Constant) and node.comparators[0].value is None):
        if isinstance(node.ops[0], ast.Is):
            return src(node.left), True
        if isinstance(node.ops[0], ast.IsNot):
            return src(node.left), False
    if isinstance(node, ast.UnaryOp) and isinstance(node.op, ast.Not):
        inner = is_none_test(node.operand)
        if inner:
            return inner[0], not inner[1]
    return None


def strip_not(node):
    """Return (inner, negated?) removing any number of leading ``not``."""
    neg = False
    while isinstance(node, ast.UnaryOp) and isinstance(node.op, ast.Not):
        node = node.operand
        neg = not neg
    return node, neg


def flatten_bool(node, op):
    if isinstance(node, ast.BoolOp) and isinstance(node.op, op):
        out = []
        for v in node.values:
            out += flatten_bool(v, op)
        return out
    return [node]


def norm(node):
    """Source text of an expression, whitespace- and parenthesis-normalised."""
    return src(node)


def same(a, b):
    return src(a) == src(b)


def reaching_value(func, name, lineno):
    """Value of the last *unconditional* (top-level) plain assignment ``name = value`` before ``lineno``.

    Returns None when there is none, or when a conditional/loop/augmented binding of the name lies between that
    assignment and ``lineno`` (then several definitions may reach).
    """
    body = func.body if hasattr(func, 'body') else func
    best = None
    for s in body:
        if s.lineno >= lineno:
            break
        if isinstance(s, ast.Assign) and any(isinstance(t, ast.Name) and t.id == name for t in s.targets):
            best = s
        elif isinstance(s, ast.Assign) and any(isinstance(t, ast.Tuple) and any(isinstance(e, ast.Name) and e.id == name for e in t.elts)
                                                for t in s.targets):
            best = None
        elif not isinstance(s, (ast.FunctionDef, ast.AsyncFunctionDef, ast.ClassDef)):
            for sub in stmts([s]):
                if sub is not s and name in targets_of(sub) and sub.lineno < lineno:
                    best = None
            if isinstance(s, (ast.AugAssign, ast.For)) and name in targets_of(s):
                best = None
    return best.value if best is not None else None


def parse_expr(text):
    """Parse expected/found *code* text into an AST (expression, statement, list of statements); None if it is prose.
    Lenient about the ways code is quoted in messages: a compound-statement header without body (``if x:``, ``for a in b``),
    several statements joined by ``;`` or `` / ``."""
    text = text.strip()
    if not text:
        return None
    candidates = [text]
    if text.endswith(':'):
        candidates.append(text + ' pass')
    if text.startswith(('for ', 'while ', 'if ', 'elif ', 'with ')) and not text.endswith(':') and '\n' not in text:
        candidates.append(text + ': pass')
    for cand in candidates:
        try:
            tree = ast.parse(cand)
        except SyntaxError:
            continue
        if not tree.body:
            return None
        if len(tree.body) == 1:
            stmt = tree.body[0]
            node = stmt.value if isinstance(stmt, ast.Expr) else stmt
            # a bare word or a phrase that happens to parse ("none", "x only read") is prose
            return node
        return tree.body
    for sep in (' / ',):
        if sep in text:
            parts = [parse_expr(t) for t in text.split(sep)]
            if all(p is not None for p in parts):
                return parts
    return None


def skeleton(node):
    """Shape of a construct with its leaves blanked: identifiers, attribute names, constants, operator kinds and keyword
    names are *slots*; two constructs with the same skeleton differ only in slot values."""
    if isinstance(node, list):
        return '[' + ','.join(skeleton(n) for n in node) + ']'
    if node is None:
        return 'None'
    if isinstance(node, (ast.operator, ast.cmpop, ast.boolop, ast.unaryop)):
        return 'op'
    if isinstance(node, ast.Name):
        return 'id'
    if isinstance(node, ast.Constant):
        return 'const'
    if isinstance(node, ast.Attribute):
        return f'attr({skeleton(node.value)})'
    if isinstance(node, ast.keyword):
        return f'kw({skeleton(node.value)})'
    if isinstance(node, (ast.expr_context,)):
        return ''
    parts = []
    for field, value in ast.iter_fields(node):
        if field in ('ctx', 'lineno', 'col_offset', 'end_lineno', 'end_col_offset', 'type_comment', 'kind'):
            continue
        if isinstance(value, list):
            parts.append('[' + ','.join(skeleton(v) if isinstance(v, ast.AST) else 'x' for v in value) + ']')
        elif isinstance(value, ast.AST):
            parts.append(skeleton(value))
        elif value is None:
            parts.append('-')
        else:
            parts.append('v')
    return f'{type(node).__name__}({",".join(parts)})'


def path_condition(body, target):
    """[(test, polarity)] under which statement ``target`` executes inside ``body`` (nesting of if/elif/else and preceding
    guard clauses ``if c: return/raise``); None if the statement is not found or sits in a loop/try."""
    def rec(block, conds):
        conds = list(conds)
        for s in block:
            if s is target:
                return conds
            if isinstance(s, ast.If):
                r = rec(s.body, conds + [(s.test, True)])
                if r is not None:
                    return r
                r = rec(s.orelse, conds + [(s.test, False)])
                if r is not None:
                    return r
                if s.body and isinstance(s.body[-1], (ast.Return, ast.Raise, ast.Continue, ast.Break)) and not s.orelse:
                    conds = conds + [(s.test, False)]
            elif isinstance(s, (ast.For, ast.While, ast.Try, ast.With)):
                if any(n is target for n in ast.walk(s)):
                    return None
        return None
    return rec(body, [])


def context_of(body, target):
    """Enclosing context of node ``target`` (statement or expression) inside ``body``:
    list of ('if', test, polarity) | ('guard', test, polarity) | ('for', target, iter) | ('while', test) | ('try',) | ('except', handler)
    in outer-to-inner order, or None if not found."""
    def contains(stmt):
        return any(n is target for n in ast.walk(stmt))

    def rec(block, ctx):
        ctx = list(ctx)
        for s in block:
            if s is target or (not isinstance(s, (ast.If, ast.For, ast.While, ast.Try, ast.With)) and contains(s)):
                return ctx
            if isinstance(s, ast.If):
                if any(n is target for n in ast.walk(s.test)):
                    return ctx
                for blk, pol in ((s.body, True), (s.orelse, False)):
                    if any(contains(x) for x in blk):
                        return rec(blk, ctx + [('if', s.test, pol)])
                if s.body and isinstance(s.body[-1], (ast.Return, ast.Raise, ast.Continue, ast.Break)) and not s.orelse:
                    ctx = ctx + [('guard', s.test, False)]
                elif s.orelse and isinstance(s.orelse[-1], (ast.Return, ast.Raise, ast.Continue, ast.Break)) and not (
                        s.body and isinstance(s.body[-1], (ast.Return, ast.Raise, ast.Continue, ast.Break))):
                    ctx = ctx + [('guard', s.test, True)]
            elif isinstance(s, (ast.For, ast.AsyncFor)):
                if any(n is target for n in ast.walk(s.iter)):
                    return ctx
                if any(contains(x) for x in s.body):
                    return rec(s.body, ctx + [('for', s.target, s.iter)])
                if any(contains(x) for x in s.orelse):
                    return rec(s.orelse, ctx)
            elif isinstance(s, ast.While):
                if any(contains(x) for x in s.body):
                    return rec(s.body, ctx + [('while', s.test)])
            elif isinstance(s, ast.Try):
                if any(contains(x) for x in s.body):
                    return rec(s.body, ctx + [('try',)])
                for h in s.handlers:
                    if any(contains(x) for x in h.body):
                        return rec(h.body, ctx + [('except', h)])
                for blk in (s.orelse, s.finalbody):
                    if any(contains(x) for x in blk):
                        return rec(blk, ctx)
            elif isinstance(s, ast.With):
                if any(contains(x) for x in s.body):
                    return rec(s.body, ctx)
        return None
    return rec(body, [])


def canon_comp(node):
    """Source text of ``node`` with the variables bound by its comprehensions renamed to v0, v1, ... in order of binding
    (alpha-equivalent comprehensions get the same text)."""
    node = copy.deepcopy(node)
    order = []
    for n in ast.walk(node):
        if isinstance(n, ast.comprehension):
            for t in ast.walk(n.target):
                if isinstance(t, ast.Name) and t.id not in order:
                    order.append(t.id)
    # ast.walk is breadth first: outer comprehension targets come first, which is what two spellings of one expression share
    ren = {name: f'v{i}' for i, name in enumerate(order)}
    for n in ast.walk(node):
        if isinstance(n, ast.Name) and n.id in ren:
            n.id = ren[n.id]
    return src(node)
