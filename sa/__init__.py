"""Static analysis of xflr6/concepts: repository-specific rules over the AST.

Nothing in this package imports or executes code from the repository under
analysis; modules are read and parsed with :mod:`ast` only.
"""
