"""E1 program model: parsed modules, classes with MRO, functions, lookups."""

import ast
import hashlib
import os
import pathlib

__all__ = ['Model', 'Func', 'Cls', 'Unrecognised', 'repo_root']


def repo_root():
    return pathlib.Path(os.environ.get('SA_REPO', '/repo'))


class Unrecognised(Exception):
    """An anchor vanished or a construct left the idiom tables (exit 2)."""

    def __init__(self, what, node=None, func=None):
        super().__init__(what)
        self.what = what
        self.node = node
        self.func = func


class Func:

    def __init__(self, module, qualname, node, cls=None, parent=None):
        self.module = module      # Module
        self.qualname = qualname  # e.g. 'Data._init' or 'Vectors._pair_with.prime'
        self.node = node
        self.cls = cls            # Cls or None
        self.parent = parent      # enclosing Func or None
        self.nested = {}

    @property
    def key(self):
        return f'{self.module.name}.{self.qualname}'

    @property
    def name(self):
        return self.node.name

    @property
    def body(self):
        body = self.node.body
        if (body and isinstance(body[0], ast.Expr)
                and isinstance(body[0].value, ast.Constant)
                and isinstance(body[0].value.value, str)):
            return body[1:]
        return body

    @property
    def params(self):
        a = self.node.args
        return [x.arg for x in a.posonlyargs + a.args + a.kwonlyargs]

    def defaults(self):
        """Mapping parameter name -> default expression node."""
        a = self.node.args
        pos = a.posonlyargs + a.args
        result = {}
        for p, d in zip(pos[len(pos) - len(a.defaults):], a.defaults):
            result[p.arg] = d
        for p, d in zip(a.kwonlyargs, a.kw_defaults):
            if d is not None:
                result[p.arg] = d
        return result

    def where(self, node=None):
        node = node if node is not None else self.node
        origin = getattr(node, '_src', None)          # statement spliced in by the normaliser: report where it was written
        if origin is not None:
            return f'{origin[0]}:{origin[1]}'
        line = getattr(node, 'lineno', self.node.lineno)
        return f'{self.module.relpath}:{int(line) if isinstance(line, float) else line}'

    def __repr__(self):
        return f'<Func {self.key}>'


class Cls:

    def __init__(self, module, name, node):
        self.module = module
        self.name = name
        self.node = node
        self.methods = {}   # name -> Func
        self.aliases = {}   # name -> expression node (class-body assignments)
        self.bases = []     # Cls objects (resolved, package-internal only)
        self.base_exprs = node.bases

    @property
    def key(self):
        return f'{self.module.name}.{self.name}'

    @property
    def docstring(self):
        return ast.get_docstring(self.node, clean=False)

    def __repr__(self):
        return f'<Cls {self.key}>'


class Module:

    def __init__(self, name, path, relpath, src):
        self.name = name        # dotted name relative to the package: 'lattices', 'algorithms.fcbo'
        self.path = path
        self.relpath = relpath  # 'concepts/lattices.py'
        self.src = src
        self.tree = ast.parse(src, filename=str(path))
        self.funcs = {}    # qualname -> Func (all, including methods and nested)
        self.classes = {}  # name -> Cls
        self.assigns = {}  # module-level name -> value node (last assignment)
        self.imports = {}  # local name -> dotted target ('pkg:lattices', 'ext:heapq', 'pkg:lattice_members.Concept')


class Model:

    PACKAGE = 'concepts'

    def __init__(self, root=None, overlay=None):
        """``overlay`` maps 'concepts/x.py' to replacement source text (self-test variants; nothing is written)."""
        overlay = overlay or {}
        self.root = pathlib.Path(root) if root is not None else repo_root()
        self.pkgdir = self.root / self.PACKAGE
        if not self.pkgdir.is_dir():
            raise Unrecognised(f'package directory {self.pkgdir} missing')
        self.modules = {}
        h = hashlib.sha256()
        for path in sorted(self.pkgdir.rglob('*.py')):
            rel = path.relative_to(self.pkgdir)
            parts = list(rel.with_suffix('').parts)
            if parts[-1] == '__init__':
                parts = parts[:-1]
            name = '.'.join(parts) if parts else '__init__'
            src = overlay.get(f'{self.PACKAGE}/{rel.as_posix()}')
            if src is None:
                src = path.read_text(encoding='utf-8')
            h.update(str(rel).encode() + b'\0' + src.encode('utf-8') + b'\0')
            try:
                mod = Module(name, path, f'{self.PACKAGE}/{rel.as_posix()}', src)
            except SyntaxError as e:
                raise Unrecognised(f'{path} does not parse: {e}')
            self.modules[name] = mod
            self._index(mod)
        self.digest = h.hexdigest()
        self._resolve_bases()
        self._normalise()

    # ---------------------------------------------------------------- indexing

    def _index(self, mod):
        is_pkg_init = mod.path.name == '__init__.py'
        base = mod.name.split('.') if mod.name != '__init__' else []
        if not is_pkg_init:
            base = base[:-1]

        def resolve_from(level, module):
            if level == 0:
                return 'ext:' + (module or '')
            parts = list(base)
            for _ in range(level - 1):
                parts = parts[:-1]
            if module:
                parts += module.split('.')
            return 'pkg:' + '.'.join(parts)

        for node in mod.tree.body:
            if isinstance(node, ast.Import):
                for a in node.names:
                    mod.imports[a.asname or a.name.split('.')[0]] = 'ext:' + a.name
            elif isinstance(node, ast.ImportFrom):
                target = resolve_from(node.level, node.module)
                for a in node.names:
                    local = a.asname or a.name
                    if target == 'pkg:':
                        mod.imports[local] = 'pkg:' + a.name
                    else:
                        mod.imports[local] = f'{target}.{a.name}'
            elif isinstance(node, ast.Assign):
                for t in node.targets:
                    if isinstance(t, ast.Name):
                        mod.assigns[t.id] = node.value
            elif isinstance(node, ast.AnnAssign):
                if isinstance(node.target, ast.Name) and node.value is not None:
                    mod.assigns[node.target.id] = node.value
            elif isinstance(node, (ast.FunctionDef, ast.AsyncFunctionDef)):
                self._index_func(mod, node, node.name, None, None)
            elif isinstance(node, ast.ClassDef):
                self._index_class(mod, node)

    def _index_class(self, mod, node):
        cls = Cls(mod, node.name, node)
        mod.classes[node.name] = cls
        for item in node.body:
            if isinstance(item, (ast.FunctionDef, ast.AsyncFunctionDef)):
                f = self._index_func(mod, item, f'{node.name}.{item.name}', cls, None)
                cls.methods[item.name] = f
            elif isinstance(item, ast.Assign):
                for t in item.targets:
                    if isinstance(t, ast.Name):
                        cls.aliases[t.id] = item.value
            elif isinstance(item, ast.AnnAssign):
                if isinstance(item.target, ast.Name):
                    cls.aliases[item.target.id] = item.value

    def _index_func(self, mod, node, qualname, cls, parent):
        f = Func(mod, qualname, node, cls, parent)
        mod.funcs[qualname] = f
        if parent is not None:
            parent.nested[node.name] = f
        for sub in _direct_defs(node):
            self._index_func(mod, sub, f'{qualname}.{sub.name}', cls, f)
        return f

    def _resolve_bases(self):
        for mod in self.modules.values():
            for cls in mod.classes.values():
                for b in cls.base_exprs:
                    target = self.resolve_class_expr(mod, b)
                    if target is not None:
                        cls.bases.append(target)

    def _normalise(self):
        """Replace every function node by its normalised copy (sa.normalize) and re-index nested functions."""
        from . import normalize
        for mod in self.modules.values():
            for f in list(mod.funcs.values()):
                if f.parent is not None:
                    continue
                try:
                    new = normalize.normalize_function(self, f)
                except RecursionError:
                    continue
                self._replace(mod, f, new)
                self._normalise_nested(mod, f, normalize)

    def _normalise_nested(self, mod, parent, normalize):
        for name, g in list(parent.nested.items()):
            try:
                new = normalize.normalize_function(self, g)
            except RecursionError:
                continue
            # splice the normalised nested definition into the parent's (already copied) tree
            for holder in ast.walk(parent.node):
                for field in ('body', 'orelse', 'finalbody'):
                    blk = getattr(holder, field, None)
                    if isinstance(blk, list):
                        for i, s in enumerate(blk):
                            if s is g.node:
                                blk[i] = new
            self._replace(mod, g, new)
            parent.nested[name] = g
            self._normalise_nested(mod, g, normalize)

    def _replace(self, mod, f, node):
        f.orig = f.node
        f.node = node
        # drop and re-index nested functions
        for key in [k for k, g in mod.funcs.items() if g is not f and k.startswith(f.qualname + '.')]:
            del mod.funcs[key]
        f.nested = {}
        for sub in _direct_defs(node):
            self._index_func(mod, sub, f'{f.qualname}.{sub.name}', f.cls, f)

    def resolve_class_expr(self, mod, expr):
        if isinstance(expr, ast.Name):
            if expr.id in mod.classes:
                return mod.classes[expr.id]
            imp = mod.imports.get(expr.id)
            if imp and imp.startswith('pkg:'):
                modname, _, clsname = imp[4:].rpartition('.')
                m = self.modules.get(modname)
                if m and clsname in m.classes:
                    return m.classes[clsname]
        elif isinstance(expr, ast.Attribute) and isinstance(expr.value, ast.Name):
            imp = mod.imports.get(expr.value.id)
            if imp and imp.startswith('pkg:'):
                m = self.modules.get(imp[4:])
                if m and expr.attr in m.classes:
                    return m.classes[expr.attr]
        return None

    # ----------------------------------------------------------------- lookups

    def module(self, name):
        try:
            return self.modules[name]
        except KeyError:
            raise Unrecognised(f'module concepts/{name.replace(".", "/")}.py missing')

    def func(self, key):
        """'lattices.Data._init', 'algorithms.lindig.neighbors', 'matrices.Vectors._pair_with.prime'."""
        for modname in sorted(self.modules, key=len, reverse=True):
            if key.startswith(modname + '.'):
                qual = key[len(modname) + 1:]
                f = self.modules[modname].funcs.get(qual)
                if f is not None:
                    return f
        raise Unrecognised(f'anchor function {key} not found')

    def has_func(self, key):
        try:
            self.func(key)
        except Unrecognised:
            return False
        return True

    def cls(self, key):
        modname, _, name = key.rpartition('.')
        mod = self.modules.get(modname)
        if mod is None or name not in mod.classes:
            raise Unrecognised(f'anchor class {key} not found')
        return mod.classes[name]

    def mro(self, cls):
        """C3 linearisation over package-internal bases."""
        def merge(seqs):
            result = []
            seqs = [list(s) for s in seqs if s]
            while seqs:
                for s in seqs:
                    head = s[0]
                    if not any(head in t[1:] for t in seqs):
                        break
                else:
                    raise Unrecognised(f'inconsistent MRO for {cls.key}')
                result.append(head)
                seqs = [[x for x in t if x is not head] for t in seqs]
                seqs = [t for t in seqs if t]
            return result
        return [cls] + merge([self.mro(b) for b in cls.bases] + [list(cls.bases)])

    def lookup(self, cls, name):
        """Resolve attribute ``name`` on class through its MRO.

        Returns ``(owner_cls, Func)`` for methods or ``(owner_cls, expr)`` for
        class-body assignments; aliases to methods of the same class body
        (``__le__ = implies``) are followed.
        """
        for c in self.mro(cls):
            if name in c.methods and name not in c.aliases:
                return c, c.methods[name]
            if name in c.aliases:
                value = c.aliases[name]
                if isinstance(value, ast.Name) and value.id in c.methods:
                    return c, c.methods[value.id]
                if name in c.methods and c.methods[name].node.lineno > value.lineno:
                    return c, c.methods[name]
                return c, value
        return None, None

    def all_funcs(self):
        for mod in self.modules.values():
            yield from mod.funcs.values()

    def bind(self, func, call):
        """{parameter name: argument expression} of a call that certainly refers to a package function (positional and
        keyword arguments bound by the callee's signature), or None."""
        from . import normalize
        target, skip = normalize._resolve_callee(self, func, call)
        if target is None or any(isinstance(a, ast.Starred) for a in call.args):
            return None
        a = target.node.args
        params = [x.arg for x in a.posonlyargs + a.args][skip:]
        out = dict(zip(params, call.args))
        if len(call.args) > len(params) and a.vararg is None:
            return None
        for k in call.keywords:
            if k.arg is not None:
                out[k.arg] = k.value
        return out

    def fully_inlined(self, func):
        """A private helper no normalised function of the package refers to any more (every call was spliced into its
        caller by the normaliser, no other reference to the name exists): its behaviour is entirely part of the callers'
        bodies and is judged there."""
        name = func.name
        if not name.startswith('_') or name.startswith('__'):
            return False
        own = set(ast.walk(func.node))
        for mod in self.modules.values():
            for g in mod.funcs.values():
                if g.parent is not None:
                    continue
                for n in ast.walk(g.node):
                    if n in own:
                        continue
                    if (isinstance(n, ast.Attribute) and n.attr == name) or (isinstance(n, ast.Name) and n.id == name and isinstance(n.ctx, ast.Load)):
                        return False
            # module level and class level references (aliases, registrations)
            for n in ast.walk(mod.tree):
                if isinstance(n, (ast.FunctionDef, ast.AsyncFunctionDef)):
                    continue
            for st in mod.tree.body:
                todo = [st]
                while todo:
                    x = todo.pop()
                    if isinstance(x, (ast.FunctionDef, ast.AsyncFunctionDef)):
                        todo.extend(x.decorator_list)
                        continue
                    if (isinstance(x, ast.Attribute) and x.attr == name) or (isinstance(x, ast.Name) and x.id == name and isinstance(x.ctx, ast.Load)):
                        return False
                    todo.extend(ast.iter_child_nodes(x))
        return True

    def func_sources(self, keys):
        return {k: ast.unparse(self.func(k).node) for k in keys}


def _direct_defs(node):
    """Function definitions nested directly inside ``node`` (any statement depth, not through other defs/classes)."""
    stack = list(node.body)
    while stack:
        s = stack.pop(0)
        if isinstance(s, (ast.FunctionDef, ast.AsyncFunctionDef)):
            yield s
            continue
        if isinstance(s, ast.ClassDef):
            continue
        for field in ('body', 'orelse', 'finalbody', 'handlers'):
            for child in getattr(s, field, []) or []:
                if isinstance(child, ast.ExceptHandler):
                    stack.extend(child.body)
                else:
                    stack.append(child)
