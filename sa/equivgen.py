"""Developer tool / self-test source: behaviour-preserving single-site rewrites of the package, computed on the AST.

Every variant applies ONE rewrite that is an identity of Python semantics for the construct it matches:

  rename     a local variable of a function (bound there, not a parameter, not global/nonlocal, not read by a nested
             function under another binding) renamed consistently inside that function
  swapif     ``if c: A else: B``  ->  ``if not c: B else: A``            (statement, both arms non-empty, no elif)
  commute    ``a OP b`` -> ``b OP a`` for OP in & | ^ == != (and ``a < b`` -> ``b > a`` ...), both operands plain names,
             attribute chains or constants (no evaluation-order effects)
  notcmp     ``not a == b`` <-> ``a != b``, ``not a in b`` <-> ``a not in b``, ``not a is b`` <-> ``a is not b``
  temp       ``return E`` -> ``_result = E; return _result``              (E not a bare name/constant)
  guard      ``if c: ...; return X`` followed by REST  ->  ``if c: ...; return X`` ``else: REST``
  kwarg      ``f(a, b)`` -> ``f(a, y=b)`` for the last positional argument of a call to a resolved package function

A check that reports a VIOLATION on any of them has a false alarm.

    python -m sa.equivgen [--props C01,C02] [--kinds rename,swapif] [--limit N] [--jobs 16]
"""

import ast
import copy
import json
import multiprocessing
import pathlib
import sys

from . import check
from .model import Model

REPO = pathlib.Path('/repo')
PURE = (ast.Name, ast.Constant)


def pure(n):
    if isinstance(n, PURE):
        return True
    return isinstance(n, ast.Attribute) and pure(n.value)


def functions(tree):
    for n in ast.walk(tree):
        if isinstance(n, (ast.FunctionDef, ast.AsyncFunctionDef)):
            yield n


def own_nodes(fn):
    """Nodes of the function body not inside nested function/class definitions or lambdas."""
    todo = list(fn.body)
    while todo:
        n = todo.pop()
        yield n
        if isinstance(n, (ast.FunctionDef, ast.AsyncFunctionDef, ast.ClassDef, ast.Lambda)):
            continue
        todo.extend(ast.iter_child_nodes(n))


def rename_sites(tree):
    for fn in functions(tree):
        a = fn.args
        params = {x.arg for x in a.posonlyargs + a.args + a.kwonlyargs} | {x.arg for x in (a.vararg, a.kwarg) if x}
        declared = {name for n in ast.walk(fn) if isinstance(n, (ast.Global, ast.Nonlocal)) for name in n.names}
        stored = {n.id for n in own_nodes(fn) if isinstance(n, ast.Name) and isinstance(n.ctx, (ast.Store, ast.Del))}
        # names bound by comprehensions inside are their own scopes: leave them alone
        comp_bound = {t.id for n in ast.walk(fn) if isinstance(n, ast.comprehension) for t in ast.walk(n.target) if isinstance(t, ast.Name)}
        nested_defs = [n for n in ast.walk(fn) if isinstance(n, (ast.FunctionDef, ast.AsyncFunctionDef, ast.Lambda)) and n is not fn]
        nested_bound = set()
        for g in nested_defs:
            ga = g.args
            nested_bound |= {x.arg for x in ga.posonlyargs + ga.args + ga.kwonlyargs} | {x.arg for x in (ga.vararg, ga.kwarg) if x}
            body = g.body if isinstance(g.body, list) else [g.body]
            nested_bound |= {n.id for st in body for n in ast.walk(st) if isinstance(n, ast.Name) and isinstance(n.ctx, ast.Store)}
        all_names = {n.id for n in ast.walk(fn) if isinstance(n, ast.Name)} | params
        for name in sorted(stored - params - declared - comp_bound - nested_bound):
            if name.startswith('__') or name + '_' in all_names or name in ('self', 'cls', '_'):
                continue
            yield ('rename', fn, name)


def apply_rename(fn, name):
    for n in ast.walk(fn):
        if isinstance(n, ast.Name) and n.id == name:
            n.id = name + '_'


def variants_of(relfile, source):
    """Yield (kind, label, new source)."""
    tree = ast.parse(source)
    index = {id(n): i for i, n in enumerate(ast.walk(tree))}

    def redo(mutator):
        t = copy.deepcopy(tree)
        nodes = list(ast.walk(t))
        return t, nodes

    order = list(ast.walk(tree))
    # rename
    for kind, fn, name in rename_sites(tree):
        t, nodes = redo(None)
        apply_rename(nodes[index[id(fn)]], name)
        yield kind, f'{relfile}:{fn.lineno} {fn.name}: {name} -> {name}_', ast.unparse(t)
    for n in order:
        i = index[id(n)]
        if isinstance(n, ast.If) and n.orelse and not (len(n.orelse) == 1 and isinstance(n.orelse[0], ast.If)):
            t, nodes = redo(None)
            m = nodes[i]
            m.test = ast.UnaryOp(op=ast.Not(), operand=m.test)
            m.body, m.orelse = m.orelse, m.body
            yield 'swapif', f'{relfile}:{n.lineno} if/else swapped', ast.unparse(ast.fix_missing_locations(t))
        if isinstance(n, ast.BinOp) and isinstance(n.op, (ast.BitAnd, ast.BitOr, ast.BitXor)) and pure(n.left) and pure(n.right):
            t, nodes = redo(None)
            m = nodes[i]
            m.left, m.right = m.right, m.left
            yield 'commute', f'{relfile}:{n.lineno} {ast.unparse(n)[:40]} operands swapped', ast.unparse(t)
        if isinstance(n, ast.Compare) and len(n.ops) == 1 and pure(n.left) and pure(n.comparators[0]):
            flip = {ast.Eq: ast.Eq, ast.NotEq: ast.NotEq, ast.Lt: ast.Gt, ast.Gt: ast.Lt, ast.LtE: ast.GtE, ast.GtE: ast.LtE}
            if type(n.ops[0]) in flip:
                t, nodes = redo(None)
                m = nodes[i]
                m.left, m.comparators = m.comparators[0], [m.left]
                m.ops = [flip[type(n.ops[0])]()]
                yield 'commute', f'{relfile}:{n.lineno} {ast.unparse(n)[:40]} comparison mirrored', ast.unparse(t)
        if isinstance(n, ast.UnaryOp) and isinstance(n.op, ast.Not) and isinstance(n.operand, ast.Compare) and len(n.operand.ops) == 1:
            neg = {ast.Eq: ast.NotEq, ast.NotEq: ast.Eq, ast.In: ast.NotIn, ast.NotIn: ast.In, ast.Is: ast.IsNot, ast.IsNot: ast.Is}
            if type(n.operand.ops[0]) in neg:
                t, nodes = redo(None)
                m = nodes[i]
                new = copy.deepcopy(m.operand)
                new.ops = [neg[type(new.ops[0])]()]
                # replace m by new in its parent
                for par in ast.walk(t):
                    for field, value in ast.iter_fields(par):
                        if value is m:
                            setattr(par, field, new)
                        elif isinstance(value, list) and any(v is m for v in value):
                            setattr(par, field, [new if v is m else v for v in value])
                yield 'notcmp', f'{relfile}:{n.lineno} {ast.unparse(n)[:40]} negation folded', ast.unparse(t)
        if isinstance(n, ast.Compare) and len(n.ops) == 1 and isinstance(n.ops[0], (ast.NotEq, ast.NotIn, ast.IsNot)):
            pos = {ast.NotEq: ast.Eq, ast.NotIn: ast.In, ast.IsNot: ast.Is}
            t, nodes = redo(None)
            m = nodes[i]
            inner = copy.deepcopy(m)
            inner.ops = [pos[type(m.ops[0])]()]
            new = ast.UnaryOp(op=ast.Not(), operand=inner)
            for par in ast.walk(t):
                for field, value in ast.iter_fields(par):
                    if value is m:
                        setattr(par, field, new)
                    elif isinstance(value, list) and any(v is m for v in value):
                        setattr(par, field, [new if v is m else v for v in value])
            yield 'notcmp', f'{relfile}:{n.lineno} {ast.unparse(n)[:40]} written with not', ast.unparse(ast.fix_missing_locations(t))
    # nestand: ``if a and b: X`` (no else) -> ``if a: if b: X``;  argtemp: first positional argument of a statement-level call hoisted
    for fn in functions(tree):
        for holder in [fn] + [x for x in own_nodes(fn) if isinstance(x, (ast.If, ast.For, ast.While, ast.With, ast.Try))]:
            for field in ('body', 'orelse'):
                block = getattr(holder, field, None)
                if not isinstance(block, list):
                    continue
                for k, st in enumerate(block):
                    if isinstance(st, ast.If) and not st.orelse and isinstance(st.test, ast.BoolOp) and isinstance(st.test.op, ast.And) and len(st.test.values) == 2:
                        t, nodes = redo(None)
                        h = nodes[index[id(holder)]]
                        m = getattr(h, field)[k]
                        a_, b_ = m.test.values
                        m.test = a_
                        m.body = [ast.If(test=b_, body=m.body, orelse=[])]
                        yield 'nestand', f'{relfile}:{st.lineno} {fn.name}: "if a and b" nested', ast.unparse(ast.fix_missing_locations(t))
                    call = None
                    if isinstance(st, (ast.Assign, ast.Return, ast.Expr)) and isinstance(getattr(st, 'value', None), ast.Call):
                        call = st.value
                    if (call is not None and pure(call.func) and call.args and isinstance(call.args[0], ast.Call) and not isinstance(call.args[0], ast.Starred)
                            and not any(isinstance(x, (ast.Yield, ast.YieldFrom, ast.Await, ast.NamedExpr)) for x in ast.walk(st))
                            and not any(isinstance(x, ast.Name) and x.id == '_arg0' for x in ast.walk(fn))):
                        t, nodes = redo(None)
                        h = nodes[index[id(holder)]]
                        blk = getattr(h, field)
                        c = blk[k].value
                        asg = ast.Assign(targets=[ast.Name(id='_arg0', ctx=ast.Store())], value=c.args[0])
                        c.args[0] = ast.Name(id='_arg0', ctx=ast.Load())
                        blk.insert(k, asg)
                        yield 'argtemp', f'{relfile}:{st.lineno} {fn.name}: first argument through a temporary', ast.unparse(ast.fix_missing_locations(t))
    # comp2loop: ``x = [E for v in IT if C]`` -> ``x = []; for v in IT: if C: x.append(E)`` (v used nowhere else in the function)
    for fn in functions(tree):
        if any(isinstance(x, (ast.Yield, ast.YieldFrom)) for x in own_nodes(fn)):
            pass
        names_all = [x.id for x in ast.walk(fn) if isinstance(x, ast.Name)]
        for holder in [fn] + [x for x in own_nodes(fn) if isinstance(x, (ast.If, ast.For, ast.While, ast.With, ast.Try))]:
            for field in ('body', 'orelse'):
                block = getattr(holder, field, None)
                if not isinstance(block, list):
                    continue
                for k, st in enumerate(block):
                    if not (isinstance(st, ast.Assign) and len(st.targets) == 1 and isinstance(st.targets[0], ast.Name) and isinstance(st.value, ast.ListComp)
                            and len(st.value.generators) == 1 and not st.value.generators[0].is_async):
                        continue
                    g = st.value.generators[0]
                    x = st.targets[0].id
                    tv = [n.id for n in ast.walk(g.target) if isinstance(n, ast.Name)]
                    inside = [n.id for n in ast.walk(st.value) if isinstance(n, ast.Name)]
                    if x in inside or any(names_all.count(v) != inside.count(v) for v in tv):
                        continue
                    if any(isinstance(n, (ast.ListComp, ast.SetComp, ast.DictComp, ast.GeneratorExp, ast.Lambda)) for n in ast.walk(st.value) if n is not st.value):
                        continue
                    t, nodes = redo(None)
                    h = nodes[index[id(holder)]]
                    blk = getattr(h, field)
                    m = blk[k]
                    g2 = m.value.generators[0]
                    inner = [ast.Expr(value=ast.Call(func=ast.Attribute(value=ast.Name(id=x, ctx=ast.Load()), attr='append', ctx=ast.Load()), args=[m.value.elt], keywords=[]))]
                    for c in reversed(g2.ifs):
                        inner = [ast.If(test=c, body=inner, orelse=[])]
                    loop = ast.For(target=g2.target, iter=g2.iter, body=inner, orelse=[])
                    blk[k:k + 1] = [ast.Assign(targets=[ast.Name(id=x, ctx=ast.Store())], value=ast.List(elts=[], ctx=ast.Load())), loop]
                    yield 'comp2loop', f'{relfile}:{st.lineno} {fn.name}: list comprehension {x} as a loop', ast.unparse(ast.fix_missing_locations(t))
    # temp / guard: per function body blocks
    for fn in functions(tree):
        is_gen = any(isinstance(x, (ast.Yield, ast.YieldFrom)) for x in own_nodes(fn))
        for holder in [fn] + [x for x in own_nodes(fn) if isinstance(x, (ast.If, ast.For, ast.While, ast.With, ast.Try))]:
            for field in ('body', 'orelse'):
                block = getattr(holder, field, None)
                if not isinstance(block, list):
                    continue
                for k, st in enumerate(block):
                    if isinstance(st, ast.Return) and st.value is not None and not isinstance(st.value, PURE) and not is_gen:
                        t, nodes = redo(None)
                        h = nodes[index[id(holder)]]
                        blk = getattr(h, field)
                        r = blk[k]
                        asg = ast.Assign(targets=[ast.Name(id='_result', ctx=ast.Store())], value=r.value)
                        blk[k:k + 1] = [asg, ast.Return(value=ast.Name(id='_result', ctx=ast.Load()))]
                        yield 'temp', f'{relfile}:{st.lineno} {fn.name}: returned value through a temporary', ast.unparse(ast.fix_missing_locations(t))
                    if (isinstance(st, ast.If) and not st.orelse and st.body and isinstance(st.body[-1], (ast.Return, ast.Raise)) and k + 1 < len(block)
                            and field == 'body' and holder is fn):
                        t, nodes = redo(None)
                        h = nodes[index[id(holder)]]
                        blk = getattr(h, field)
                        blk[k].orelse = blk[k + 1:]
                        del blk[k + 1:]
                        yield 'guard', f'{relfile}:{st.lineno} {fn.name}: rest of the function moved into else', ast.unparse(ast.fix_missing_locations(t))


def kwarg_variants(root=None):
    """kwarg: the last positional argument of a call that certainly refers to a package function is passed by keyword."""
    from .normalize import _resolve_callee
    model = Model(root)
    base = pathlib.Path(root) if root else REPO
    by_file = {}
    for f in model.all_funcs():
        node = getattr(f, 'orig', None) or f.node
        rel = 'concepts/' + f.module.relpath.split('concepts/', 1)[-1] if 'concepts/' in f.module.relpath else f.module.relpath
        for call in ast.walk(node):
            if not isinstance(call, ast.Call) or not call.args or any(isinstance(a, ast.Starred) for a in call.args):
                continue
            try:
                target, skip = _resolve_callee(model, f, call)
            except Exception:
                continue
            if target is None:
                continue
            a = target.node.args
            if a.posonlyargs or a.vararg:
                continue
            params = [x.arg for x in a.args][skip:]
            k = len(call.args) - 1
            if k >= len(params) or any(kw.arg == params[k] for kw in call.keywords):
                continue
            by_file.setdefault(rel, []).append((call.lineno, call.col_offset, params[k], f.name))
    for rel, sites in sorted(by_file.items()):
        path = base / rel
        if not path.exists():
            continue
        src_text = path.read_text()
        for lineno, col, pname, fname in sorted(set(sites)):
            t = ast.parse(src_text)
            hit = [n for n in ast.walk(t) if isinstance(n, ast.Call) and n.lineno == lineno and n.col_offset == col and n.args]
            if len(hit) != 1:
                continue
            c = hit[0]
            last = c.args.pop()
            c.keywords.insert(0, ast.keyword(arg=pname, value=last))
            yield 'kwarg', f'{rel}:{lineno} {fname}: last positional argument passed as {pname}=', rel, ast.unparse(ast.fix_missing_locations(t))


def all_variants(kinds=None, root=None):
    out = []
    base = pathlib.Path(root) if root else REPO
    if not kinds or 'kwarg' in kinds:
        for kind, label, rel, new in kwarg_variants(root):
            try:
                compile(new, rel, 'exec')
            except SyntaxError:
                continue
            out.append((kind, label, rel, new))
    for path in sorted((base / 'concepts').rglob('*.py')):
        rel = 'concepts/' + path.relative_to(base / 'concepts').as_posix()
        src = path.read_text()
        for kind, label, new in variants_of(rel, src):
            if kinds and kind not in kinds:
                continue
            try:
                compile(new, rel, 'exec')
            except SyntaxError:
                continue
            out.append((kind, label, rel, new))
    return out


def _evaluate(args):
    props, relfile, mutated = args
    try:
        model = Model(None, overlay={relfile: mutated})
    except Exception as e:
        return {p: (2, [f'model: {e}']) for p in props}
    out = {}
    for p in props:
        rc, R = check.run_property(p, 'quick', None, write=False, quiet=True, model=model)
        out[p] = (rc, [l for l in R.lines if l.startswith(('  concepts/', 'ANALYSIS-ERROR'))][:2] if rc else [])
    return out


def main(argv):
    props = sorted(check.PROPS)
    kinds = None
    limit = None
    jobs = 16
    if '--props' in argv:
        props = argv[argv.index('--props') + 1].split(',')
    if '--kinds' in argv:
        kinds = set(argv[argv.index('--kinds') + 1].split(','))
    if '--limit' in argv:
        limit = int(argv[argv.index('--limit') + 1])
    if '--jobs' in argv:
        jobs = int(argv[argv.index('--jobs') + 1])
    vs = all_variants(kinds)
    if limit:
        step = max(1, len(vs) // limit)
        vs = vs[::step][:limit]
    print(f'{len(vs)} variants; kinds: ' + ', '.join(f'{k}={sum(1 for v in vs if v[0] == k)}' for k in sorted({v[0] for v in vs})))
    with multiprocessing.Pool(jobs) as pool:
        results = pool.map(_evaluate, [(props, rel, new) for _, _, rel, new in vs], chunksize=4)
    viol, unk = [], []
    for (kind, label, rel, new), res in zip(vs, results):
        v = {p: d for p, (rc, d) in res.items() if rc == 1}
        u = {p: d for p, (rc, d) in res.items() if rc == 2}
        if v:
            viol.append((kind, label, v))
        elif u:
            unk.append((kind, label, u))
    print(f'--- {len(viol)} variants reported as VIOLATION (false alarms), {len(unk)} not recognised (exit 2), {len(vs) - len(viol) - len(unk)} silent')
    for kind, label, v in viol:
        print(f'FALSE-ALARM [{kind}] {label}')
        for p, d in v.items():
            for l in d[:1]:
                print(f'      {p}: {l[:260]}')
    out = pathlib.Path('/tmp/equivgen_unknown.json')
    out.write_text(json.dumps([(k, l, {p: d for p, d in u.items()}) for k, l, u in unk], indent=1))
    print(f'(exit-2 list written to {out})')


if __name__ == '__main__':
    main(sys.argv[1:])
