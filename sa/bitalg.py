"""E3: canonical forms of bit-vector predicates ("row-occupancy" domain).

A term over bit-vector variables built with ``& | ^ ~`` is pointwise, hence a
Boolean function of the per-position values of its variables (a *row*).
``t1 == t2`` means "equal on every occupied row", truthiness of ``t`` means
"1 on some occupied row".  A predicate built from such atoms with
``and/or/not`` therefore depends only on which rows are occupied by at least
one position; its canonical form is its truth vector over all admissible
occupancy patterns.  Python integers are sign-extended, which is modelled by
one always-occupied *outside* row in which every variable is 0.

Nothing here executes repository code: the input is an ``ast`` expression.
"""

import ast
import itertools

from .astutil import src
from .model import Unrecognised

__all__ = ['Term', 'Pred', 'compile_term', 'compile_pred', 'rows', 'patterns', 'truth_vector',
           'equivalent', 'OUTSIDE']

OUTSIDE = '__outside__'


class Term:
    def __init__(self, fn, text, sorts=frozenset()):
        self.fn = fn        # row(dict) -> 0/1
        self.text = text
        self.sorts = sorts  # sorts of the variables mentioned

    def __call__(self, row):
        return self.fn(row)


class Pred:
    def __init__(self, fn, text):
        self.fn = fn        # occupied rows (tuple of dict) -> bool
        self.text = text

    def __call__(self, occupied):
        return self.fn(occupied)


class SortError(Exception):
    def __init__(self, node, left, right):
        super().__init__(f'operands of different sorts in {src(node)}: {sorted(left)} vs {sorted(right)}')
        self.node = node


def compile_term(node, var_of, sort_of=None):
    """AST -> Term.  ``var_of(node)`` names a variable for a leaf expression or returns None."""
    sort_of = sort_of or (lambda v: None)

    def rec(n):
        v = var_of(n)
        if v is not None:
            s = sort_of(v)
            return Term(lambda row, v=v: row[v], v, frozenset([s]) if s else frozenset())
        if isinstance(n, ast.BinOp) and isinstance(n.op, (ast.BitAnd, ast.BitOr, ast.BitXor)):
            l, r = rec(n.left), rec(n.right)
            if l.sorts and r.sorts and l.sorts != r.sorts:
                raise SortError(n, l.sorts, r.sorts)
            op = {ast.BitAnd: lambda a, b: a & b, ast.BitOr: lambda a, b: a | b,
                  ast.BitXor: lambda a, b: a ^ b}[type(n.op)]
            sym = {ast.BitAnd: '&', ast.BitOr: '|', ast.BitXor: '^'}[type(n.op)]
            return Term(lambda row: op(l(row), r(row)), f'({l.text} {sym} {r.text})', l.sorts | r.sorts)
        if isinstance(n, ast.UnaryOp) and isinstance(n.op, ast.Invert):
            t = rec(n.operand)
            return Term(lambda row: 1 - t(row), f'~{t.text}', t.sorts)
        if isinstance(n, ast.Constant) and n.value == 0 and not isinstance(n.value, bool):
            return Term(lambda row: 0, '0')
        if (isinstance(n, ast.UnaryOp) and isinstance(n.op, ast.USub)
                and isinstance(n.operand, ast.Constant) and n.operand.value == 1):
            return Term(lambda row: 1, '-1')  # all ones, sign-extended
        if (isinstance(n, ast.Call) and isinstance(n.func, ast.Attribute) and n.func.attr == 'fromint'
                and len(n.args) == 1 and not n.keywords):
            return rec(n.args[0])  # wrapper: value unchanged (axiom)
        raise Unrecognised(f'not a pointwise bit-vector term: {src(n)}', node=n)

    return rec(node)


def compile_pred(node, var_of, sort_of=None, hook=None):
    """AST (in Boolean position) -> Pred over occupied rows.

    ``hook(node, rec)`` may translate a sub-expression outside the pointwise fragment (a call of another predicate whose
    meaning is known, a comparison of concept-valued expressions) into a Pred; it returns None to decline.
    """

    def term(n):
        return compile_term(n, var_of, sort_of)

    def rec(n):
        if hook is not None:
            h = hook(n, rec)
            if h is not None:
                return h
        if isinstance(n, ast.BoolOp):
            parts = [rec(v) for v in n.values]
            if isinstance(n.op, ast.And):
                return Pred(lambda occ: all(p(occ) for p in parts), '(' + ' and '.join(p.text for p in parts) + ')')
            return Pred(lambda occ: any(p(occ) for p in parts), '(' + ' or '.join(p.text for p in parts) + ')')
        if isinstance(n, ast.UnaryOp) and isinstance(n.op, ast.Not):
            p = rec(n.operand)
            return Pred(lambda occ: not p(occ), f'not {p.text}')
        if isinstance(n, ast.Constant) and isinstance(n.value, bool):
            v = n.value
            return Pred(lambda occ: v, str(v))
        if isinstance(n, ast.Compare):
            items = [n.left] + list(n.comparators)
            terms = [term(x) for x in items]
            parts = []
            for (l, r), op in zip(zip(terms, terms[1:]), n.ops):
                if l.sorts and r.sorts and l.sorts != r.sorts:
                    raise SortError(n, l.sorts, r.sorts)
                if isinstance(op, ast.Eq):
                    parts.append(Pred(lambda occ, l=l, r=r: all(l(row) == r(row) for row in occ), f'{l.text} == {r.text}'))
                elif isinstance(op, ast.NotEq):
                    parts.append(Pred(lambda occ, l=l, r=r: any(l(row) != r(row) for row in occ), f'{l.text} != {r.text}'))
                else:
                    raise Unrecognised(f'comparison operator outside the fragment: {src(n)}', node=n)
            return Pred(lambda occ: all(p(occ) for p in parts), '(' + ' and '.join(p.text for p in parts) + ')')
        if isinstance(n, ast.IfExp):
            t, a, b = rec(n.test), rec(n.body), rec(n.orelse)
            return Pred(lambda occ: a(occ) if t(occ) else b(occ), f'({a.text} if {t.text} else {b.text})')
        if (isinstance(n, ast.Call) and isinstance(n.func, ast.Name) and n.func.id == 'bool'
                and len(n.args) == 1 and not n.keywords):
            return rec(n.args[0])
        t = term(n)
        return Pred(lambda occ: any(t(row) for row in occ), f'truthy({t.text})')

    return rec(node)


def rows(variables, row_ok=None):
    """Admissible universe rows (dicts) over the variables; the outside row is added by :func:`patterns`."""
    out = []
    for bits in itertools.product((0, 1), repeat=len(variables)):
        row = dict(zip(variables, bits))
        row[OUTSIDE] = 0
        if row_ok is None or row_ok(row):
            out.append(row)
    return out


def patterns(variables, row_ok=None, pattern_ok=None, universe_nonempty=True):
    """All admissible occupancy patterns: tuples of rows, always including the outside row."""
    universe = rows(variables, row_ok)
    outside = {v: 0 for v in variables}
    outside[OUTSIDE] = 1
    n = len(universe)
    if n > 16:
        raise Unrecognised(f'{n} admissible rows: too many for exhaustive canonicalisation')
    for mask in range(1 if universe_nonempty else 0, 1 << n):
        occ = tuple(universe[i] for i in range(n) if mask >> i & 1)
        if pattern_ok is None or pattern_ok(occ):
            yield occ + (outside,)


def fix_outside(term_fn):
    return term_fn


def truth_vector(pred, pats):
    return tuple(bool(pred(p)) for p in pats)


def equivalent(pred_a, pred_b, pats):
    """None if equal on all patterns, else the first differing pattern (universe rows only)."""
    for p in pats:
        if bool(pred_a(p)) != bool(pred_b(p)):
            return [r for r in p if not r[OUTSIDE]]
    return None


# Complement: in the outside row every variable is 0 and ``~`` yields 1 — this is what the
# lambda ``1 - t(row)`` computes, since variables read 0 there.  Nothing else is needed.


# ------------------------------------------------------------------------------------------------ concrete refutation

_SAFE = (ast.Expression, ast.BoolOp, ast.And, ast.Or, ast.UnaryOp, ast.Not, ast.Invert, ast.USub, ast.BinOp, ast.BitAnd, ast.BitOr, ast.BitXor,
         ast.Sub, ast.Add, ast.LShift, ast.RShift, ast.Compare, ast.Eq, ast.NotEq, ast.Lt, ast.LtE, ast.Gt, ast.GtE, ast.Name, ast.Load, ast.Constant)


def refute_concrete(expr, bindings, spec, width=4):
    """Search all assignments of ``width``-bit integers for one on which the truth value of the guard expression ``expr``
    (Python integer semantics: ``&``, ``|``, ``~``, ``-``, shifts and *ordering* comparisons included) differs from
    ``spec``.  ``bindings`` yields dicts {source name: int} (the admissible assignments, constraints already applied);
    ``spec(assignment) -> bool``.  Returns a counterexample assignment or None.  Only a refutation is meaningful: a formula
    that agrees on every small assignment is *not* thereby proven for all widths.  The formula is evaluated, never code
    of the package."""
    if any(not isinstance(n, _SAFE) for n in ast.walk(expr)) or any(isinstance(n, ast.Constant) and not isinstance(n.value, (int, bool)) for n in ast.walk(expr)):
        return None
    code = compile(ast.fix_missing_locations(ast.Expression(body=expr)), '<guard>', 'eval')
    names = {n.id for n in ast.walk(expr) if isinstance(n, ast.Name)}
    for env in bindings(width):
        if not names <= set(env):
            return None
        try:
            got = bool(eval(code, {'__builtins__': {}}, dict(env)))
        except Exception:
            return None
        if got != bool(spec(env)):
            return dict(env, found=got, expected=bool(spec(env)))
    return None
