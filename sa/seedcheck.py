"""Developer tool: run every property check against each seeded change (patch.diff) applied to a scratch copy.

    python -m sa.seedcheck /tmp/seeded_out [/verif/seeded]
"""

import json
import pathlib
import shutil
import subprocess
import sys
import tempfile

from . import check
from .model import Model

REPO = pathlib.Path('/repo')


def evaluate(d):
    patch = d / 'patch.diff'
    if not patch.exists():
        return None
    tmp = pathlib.Path(tempfile.mkdtemp(prefix='sa-seed-'))
    try:
        shutil.copytree(REPO / 'concepts', tmp / 'concepts', ignore=shutil.ignore_patterns('__pycache__'))
        r = subprocess.run(['patch', '-p1', '-s', '-i', str(patch)], cwd=tmp, capture_output=True, text=True)
        if r.returncode:
            return {'applied': False, 'err': (r.stdout + r.stderr)[:300]}
        model = Model(tmp)
        res, detail = {}, {}
        for p in sorted(check.PROPS):
            rc, R = check.run_property(p, 'quick', tmp, write=False, quiet=True, model=model)
            res[p] = rc
            if rc:
                detail[p] = [l for l in R.lines if l.startswith(('  concepts/', 'ANALYSIS-ERROR'))][:3]
        return {'applied': True, 'res': res, 'detail': detail}
    finally:
        shutil.rmtree(tmp, ignore_errors=True)


def main(argv):
    rows = []
    for base in argv:
        for d in sorted(pathlib.Path(base).iterdir()):
            if not d.is_dir():
                continue
            r = evaluate(d)
            if r is None:
                continue
            meta = {}
            if (d / 'meta.json').exists():
                try:
                    meta = json.loads((d / 'meta.json').read_text())
                except Exception:
                    pass
            prop = meta.get('property', d.name[:3])
            if not r['applied']:
                print(f'{d.name}: patch does not apply: {r["err"]}')
                continue
            viol = [p for p, rc in r['res'].items() if rc == 1]
            err = [p for p, rc in r['res'].items() if rc == 2]
            status = 'CAUGHT' if prop in viol else ('caught-by-other' if viol else ('UNRECOGNISED' if prop in err or err else 'MISSED'))
            print(f'{d.name} [{prop}] {status}  VIOL={viol} ERR={err}')
            print(f'     {meta.get("summary", "")[:200]}')
            for p in viol + err:
                for l in r['detail'].get(p, [])[:2]:
                    print(f'       {p}: {l[:260]}')
            rows.append((d.name, prop, status))
    n = len(rows)
    print(f'--- {sum(1 for r in rows if r[2] == "CAUGHT")} caught by own property, {sum(1 for r in rows if r[2] == "caught-by-other")} by another, '
          f'{sum(1 for r in rows if r[2] == "UNRECOGNISED")} unrecognised, {sum(1 for r in rows if r[2] == "MISSED")} missed, of {n}')


if __name__ == '__main__':
    main(sys.argv[1:])
