"""Obligations, three-valued verdicts, evidence files, known findings, exit codes."""

import ast
import json
import os
import pathlib
import sys
import time

from . import astutil
from .model import Unrecognised

VERIF = pathlib.Path(__file__).resolve().parent.parent

PASS, VIOLATION, UNRECOGNISED = 'PASS', 'VIOLATION', 'UNRECOGNISED'

AXIOMS = [
    'bitsets 0.8.4 (outside /repo): MemberBits is an int subclass; & | ^ ~ == != hash() bool() are int\'s (sets of different classes with equal bits are equal keys)',
    'bitsets: Cls.fromint wraps without changing the value; supremum = all ones over the domain; infimum = 0',
    'bitsets: frommembers = OR of the members\' atoms (order/duplicates irrelevant, unknown member -> KeyError); '
    'members() = labels of set bits in domain order, each once',
    'bitsets: iter_set() ascending positions; atoms()/atomic(x) ascending atoms; count() popcount; '
    'reduce_or from infimum, reduce_and from supremum',
    'bitsets: shortlex()/longlex() are injective total keys for short-/long-lexicographic positional order; '
    'powerset() yields subsets in shortlex order from the empty set, each once',
    'bitsets: Tuple.frombools maps rows by truthiness; bools()/index_sets() are the row-wise inverse views',
    'stdlib: collections.abc.MutableSet mixins, heapq, itertools.combinations, stable list.sort, '
    'graphviz.Digraph.node/edge/edges emit one statement per call/pair',
    'Python ast semantics of the constructs named in the rule (no code of the repository is executed)',
]


class Ob:
    """One decided rule instance."""

    __slots__ = ('rule', 'func', 'where', 'slot', 'status', 'expected', 'found', 'extra')

    def __init__(self, rule, func, where, slot, status, expected='', found='', extra=None):
        self.rule = rule
        self.func = func
        self.where = where
        self.slot = slot
        self.status = status
        self.expected = expected
        self.found = found
        self.extra = extra

    @property
    def key(self):
        """Finding key: rule + qualified function + slot (no line numbers)."""
        return f'{self.rule}|{self.func}|{self.slot}'

    def asdict(self):
        d = {'rule': self.rule, 'function': self.func, 'where': self.where,
             'slot': self.slot, 'verdict': self.status}
        if self.expected:
            d['expected'] = self.expected
        if self.found:
            d['found'] = self.found
        if self.extra:
            d['extra'] = self.extra
        return d


def _fname(func):
    if func is None:
        return '<package>'
    if isinstance(func, str):
        return func
    return func.key


def _where(func, node):
    if isinstance(node, str):
        return node
    if func is None or isinstance(func, str):
        return getattr(node, 'lineno', '?') and f'?:{getattr(node, "lineno", "?")}'
    return func.where(node)


class Run:

    def __init__(self, prop, tier='quick'):
        self.prop = prop
        self.tier = tier
        self.obs = []
        self.floors = {}
        self.counts = {}
        self.notes = []
        self.analysed = set()
        self.funcs = {}
        self.t0 = time.time()

    # ----------------------------------------------------------------- verdicts

    def _add(self, ob):
        self.obs.append(ob)
        self.counts[ob.rule] = self.counts.get(ob.rule, 0) + 1
        if ob.func:
            self.analysed.add(ob.func)
        return ob

    def _touch(self, func):
        if hasattr(func, 'node') and hasattr(func, 'key'):
            self.funcs[func.key] = func

    def ok(self, rule, func, node, slot, found=''):
        self._touch(func)
        return self._add(Ob(rule, _fname(func), _where(func, node), slot, PASS, found=found))

    def bad(self, rule, func, node, slot, expected, found, extra=None):
        self._touch(func)
        return self._add(Ob(rule, _fname(func), _where(func, node), slot, VIOLATION,
                            expected=expected, found=found, extra=extra))

    def unknown(self, rule, func, node, slot, why):
        self._touch(func)
        return self._add(Ob(rule, _fname(func), _where(func, node), slot, UNRECOGNISED, found=why))

    def check(self, cond, rule, func, node, slot, expected, found=None, extra=None, strict=None):
        """PASS if cond else VIOLATION."""
        if found is None:
            found = astutil.src(node) if hasattr(node, '_fields') else ''
        if cond:
            return self.ok(rule, func, node, slot, found=found if len(str(found)) < 200 else str(found)[:200])
        # three-valued discipline for shape matches: when both the expectation and what was found are code, a
        # VIOLATION needs the same shape with a different slot value; a different shape is a rewrite the rule cannot
        # judge (UNRECOGNISED).  Prose expectations/findings describe a decided semantic slot and stay VIOLATIONs.
        if strict is False:
            return self.unknown(rule, func, node, slot, f'not a recognised form (expected {expected}; found {str(found)[:160]})')
        if strict is None and isinstance(expected, str) and isinstance(found, str):
            wn, fn = astutil.parse_expr(expected), astutil.parse_expr(found)
            if wn is not None and fn is not None and not isinstance(wn, (ast.Name, ast.Constant)):
                if astutil.skeleton(wn) != astutil.skeleton(fn):
                    return self.unknown(rule, func, node, slot, f'shape not recognised (expected {expected}; found {found[:160]})')
        return self.bad(rule, func, node, slot, expected, found, extra)

    def same(self, cond, rule, func, node, slot, expected, found=None):
        """PASS if the construct has the expected shape, else UNRECOGNISED (never a VIOLATION): for shape matches whose
        failure does not by itself show that behaviour changed."""
        if found is None:
            found = astutil.src(node) if hasattr(node, '_fields') else ''
        if cond:
            return self.ok(rule, func, node, slot, found=str(found)[:200])
        return self.unknown(rule, func, node, slot, f'shape not recognised (expected {expected}; found {str(found)[:160]})')

    def expr(self, node, want, rule, func, slot, at=None, consequence=None):
        """Three-valued comparison of an expression with the expected code ``want`` (text):
        equal -> PASS; same shape but a leaf (name, attribute, constant, operator, keyword) differs -> VIOLATION (a
        recognised construct with a wrong slot); different shape -> UNRECOGNISED (a rewrite the rule cannot judge)."""
        found = astutil.src(node) if node is not None and hasattr(node, '_fields') else (node if isinstance(node, str) else 'nothing')
        where = at if at is not None else (node if hasattr(node, '_fields') else (func.node if hasattr(func, 'node') else '?'))
        if found == want:
            return self.ok(rule, func, where, slot, found=found[:200])
        wn = astutil.parse_expr(want)
        fn = node if hasattr(node, '_fields') else astutil.parse_expr(found)
        if wn is not None and fn is not None and astutil.src(fn) == astutil.src(wn):
            return self.ok(rule, func, where, slot, found=found[:200])
        if self._same_call(wn, fn, func):
            return self.ok(rule, func, where, slot, found=found[:200])
        if wn is not None and fn is not None and astutil.skeleton(fn) == astutil.skeleton(wn):
            return self.bad(rule, func, where, slot, want, found[:200], extra={'consequence': consequence} if consequence else None)
        return self.unknown(rule, func, where, slot, f'shape not recognised (expected {want}; found {found[:160]})')

    def _same_call(self, wn, fn, func):
        """Two calls of the same resolved package function that bind every parameter to the same expression (one spelled with
        keywords, the other positionally, or keywords in another order)."""
        import ast
        model = getattr(self, 'model', None)
        if model is None or not (isinstance(wn, ast.Call) and isinstance(fn, ast.Call)) or not hasattr(func, 'module'):
            return False
        if astutil.src(wn.func) != astutil.src(fn.func):
            return False
        try:
            a, b = model.bind(func, wn), model.bind(func, fn)
        except Exception:
            return False
        if a is None or b is None:
            return False
        return {k: astutil.src(v) for k, v in a.items()} == {k: astutil.src(v) for k, v in b.items()}

    def returns(self, func, want, rule, slot, expand=True, consequence=None):
        """The function's single valued return (temporaries expanded) compared with ``want`` by :meth:`expr`."""
        rets = [n for n in astutil.walk(func.body) if isinstance(n, ast.Return) and n.value is not None]
        if len(rets) != 1:
            return self.unknown(rule, func, func.node, slot, f'{len(rets)} valued returns (expected one: {want})')
        value = rets[0].value
        if expand:
            value = astutil.Env(func).expand(value)
        return self.expr(value, want, rule, func, slot, at=rets[0], consequence=consequence)

    def decided(self, cond, rule, func, node, slot, expected, found=None, extra=None):
        """PASS/VIOLATION for a slot decided semantically (truth-table equivalence, table decoding ...): never downgraded."""
        return self.check(cond, rule, func, node, slot, expected, found, extra, strict=True)

    def soft(self, cond, rule, func, node, slot, expected, found=None):
        """An auxiliary shape match (layout detail): PASS when it matches; when it does not, the detail is *not decided* -
        recorded as a note, with no effect on the verdict (the clause is then simply not claimed for this tree)."""
        if found is None:
            found = astutil.src(node) if hasattr(node, '_fields') else ''
        if cond:
            return self.ok(rule, func, node, slot, found=str(found)[:200])
        self.notes.append(f'NOT-DECIDED {rule} {_fname(func)} [{slot}]: shape not recognised (expected {expected}; found {str(found)[:120]})')
        self.undecided = getattr(self, 'undecided', 0) + 1
        return None

    def floor(self, rule, n):
        self.floors[rule] = n

    def note(self, text):
        self.notes.append(text)

    def guard(self, rule, func, slot, fn, *args, **kwargs):
        """Run a rule body; an Unrecognised raised inside becomes an UNRECOGNISED obligation."""
        try:
            return fn(*args, **kwargs)
        except Unrecognised as e:
            f = e.func or func
            self.unknown(rule, f, e.node if e.node is not None else (f.node if hasattr(f, 'node') else '?'), slot, e.what)
            return None

    # ------------------------------------------------------------------ finish

    def finish(self, model, level, explanation, checker_cmd, extra_cov=None, write=True, quiet=False):
        known = load_known()
        violations = [o for o in self.obs if o.status == VIOLATION]
        unrec = [o for o in self.obs if o.status == UNRECOGNISED]
        listed, fresh = [], []
        for o in violations:
            entry = known['open'].get((self.prop, o.key))
            (listed if entry else fresh).append(o)

        floor_errors = []
        for rule, n in self.floors.items():
            got = self.counts.get(rule, 0)
            if got < n:
                floor_errors.append(f'rule {rule}: {got} instances found, floor {n}')

        lines = []
        funcs = sorted(self.analysed)
        lines.append(f'{self.prop} [{self.tier}] analysed {len(model.modules)} modules (digest {model.digest[:12]}), '
                     f'{len(funcs)} functions, {len(self.obs)} obligations')
        for rule in sorted(self.counts):
            npass = sum(1 for o in self.obs if o.rule == rule and o.status == PASS)
            fl = self.floors.get(rule)
            lines.append(f'  rule {rule}: {self.counts[rule]} instances, {npass} pass'
                         + (f' (floor {fl})' if fl is not None else ''))
        for o in listed:
            lines.append(f'KNOWN-FINDING: property={self.prop} {o.rule} {o.func} {o.slot}: {known["open"][(self.prop, o.key)]}')
        replay_dir = VERIF / 'replay'
        if not quiet:
            # replay files of this property are rewritten on every reported run (also for scratch trees: the
            # VIOLATION line must point to an existing file); evidence is only written for /repo
            replay_dir.mkdir(exist_ok=True)
            for old_file in replay_dir.glob(f'{self.prop}-*.json'):
                old_file.unlink()
        for i, o in enumerate(fresh):
            path = replay_dir / f'{self.prop}-{i}.json'
            if not quiet:
                path.write_text(json.dumps({'property': self.prop, **o.asdict(), 'key': o.key,
                                            'tree_digest': model.digest}, indent=1))
            lines.append(f'  {o.where}: {o.rule} in {o.func} [{o.slot}]: expected {o.expected}; found {o.found}'
                         + (f' ({json.dumps(o.extra)})' if o.extra else ''))
            lines.append(f'VIOLATION property={self.prop} replay={path}')
        for o in unrec:
            lines.append(f'ANALYSIS-ERROR property={self.prop} unrecognised {o.rule} in {o.func} [{o.slot}] at {o.where}: {o.found}')
        for e in floor_errors:
            lines.append(f'ANALYSIS-ERROR property={self.prop} {e}')

        discharged = sum(1 for o in self.obs if o.status == PASS)
        samples = [o.asdict() for o in self.obs if o.status != PASS][:40]
        per_rule = {}
        for o in self.obs:
            if o.status == PASS and per_rule.get(o.rule, 0) < 3:
                per_rule[o.rule] = per_rule.get(o.rule, 0) + 1
                samples.append(o.asdict())
        coverage = {
            'obligations': len(self.obs),
            'discharged': discharged,
            'checker_cmd': checker_cmd,
            'trusted_base': AXIOMS,
            'explanation': explanation,
            'rule': 'one obligation per (rule, function, slot) instance found in the parsed source; '
                    'an obligation is non-trivial when it inspects a construct of /repo (all are)',
            'evaluations': len(self.obs),
            'distinct_nontrivial': len({o.key for o in self.obs}),
            'samples': samples,
            'rules': {r: {'instances': self.counts[r], 'floor': self.floors.get(r)} for r in sorted(self.counts)},
            'functions_analysed': funcs,
            'modules': sorted(m.relpath for m in model.modules.values()),
            'tree_digest': model.digest,
            'unrecognised': len(unrec),
            'known_findings_reported': len(listed),
            'notes': self.notes,
            'auxiliary_details_not_decided': getattr(self, 'undecided', 0),
            'exhaustive': False,
        }
        if extra_cov:
            coverage.update(extra_cov)
        evidence = {
            'property_id': self.prop,
            'tier': self.tier,
            'seed': int(os.environ.get('VERIF_SEED', '0') or 0),
            'level': level,
            'coverage': coverage,
            'assumptions': AXIOMS,
            'wall_s': round(time.time() - self.t0, 3),
            'violations': len(fresh),
        }
        if write:
            evdir = VERIF / 'evidence'
            evdir.mkdir(exist_ok=True)
            (evdir / f'{self.prop}.json').write_text(json.dumps(evidence, indent=1) + '\n')
        self.lines = lines
        self.fresh = fresh
        self.unrec = unrec
        self.floor_errors = floor_errors

        if not quiet:
            print('\n'.join(lines))
        if fresh:
            return 1
        if unrec or floor_errors:
            return 2
        if not quiet:
            print(f'{self.prop} OK: {discharged}/{len(self.obs)} obligations discharged'
              + (f', {len(listed)} known finding(s)' if listed else ''))
        return 0


def load_known():
    path = VERIF / 'known_findings.json'
    result = {'open': {}, 'fixed': []}
    if path.exists():
        data = json.loads(path.read_text())
        for e in data.get('open', []):
            result['open'][(e['property'], e['key'])] = e['what']
        result['fixed'] = data.get('fixed', [])
    return result
