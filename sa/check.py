"""Command line: ``python -m sa.check <property> [--tier quick|thorough] [--explain replay.json]``.

Exit 0: every obligation discharged on the current tree.
Exit 1: ``VIOLATION property=<id> replay=<path>`` printed for a recognised-wrong construct.
Exit 2: ``ANALYSIS-ERROR`` (anchor vanished / idiom not recognised / internal error) — never a silent pass.
"""

import argparse
import importlib
import json
import os
import sys
import traceback

from . import report
from .model import Model, Unrecognised

PROPS = {
    'C01': ('c01', 'other'), 'C02': ('c02', 'other'), 'C03': ('c03', 'other'), 'C04': ('c04', 'other'),
    'C05': ('c05', 'other'), 'C06': ('c06', 'other'), 'C07': ('c07', 'other'), 'C08': ('c08', 'proof'),
    'C09': ('c09', 'other'), 'C10': ('c10', 'other'), 'C11': ('c11', 'other'), 'C12': ('c12', 'other'),
    'C13': ('c13', 'other'), 'C14': ('c14', 'other'), 'C16': ('c16', 'other'), 'C17': ('c17', 'other'),
    'C18': ('c18', 'other'), 'C19': ('c19', 'other'), 'C20': ('c20', 'other'),
}


def run_property(prop, tier, root=None, write=True, quiet=False, model=None):
    modname, level = PROPS[prop]
    R = report.Run(prop, tier)
    R.model = model
    R.lines, R.fresh, R.unrec, R.floor_errors = [], [], [], []
    try:
        if model is None:
            model = Model(root)
    except Unrecognised as e:
        R.lines.append(f'ANALYSIS-ERROR property={prop} {e.what}')
        if not quiet:
            print(R.lines[-1])
        return 2, R
    try:
        mod = importlib.import_module(f'sa.rules.{modname}')
        explanation = mod.run(model, R) or mod.__doc__.strip()
        if getattr(mod, 'GENERIC', True):
            from . import generic
            generic.run(model, R)
        if tier == 'thorough' and hasattr(mod, 'thorough'):
            mod.thorough(model, R)
    except Unrecognised as e:
        where = e.func.where(e.node) if e.func is not None and e.node is not None else ''
        R.lines.append(f'ANALYSIS-ERROR property={prop} unrecognised: {e.what} {where}')
        if not quiet:
            print(R.lines[-1])
        return 2, R
    except Exception:
        R.lines.append(traceback.format_exc())
        R.lines.append(f'ANALYSIS-ERROR property={prop} internal error in checker')
        if not quiet:
            print('\n'.join(R.lines[-2:]))
        return 2, R
    cmd = f'/venv/bin/python -m sa.check {prop} --tier {tier}'
    rc = R.finish(model, level, explanation, cmd, write=write, quiet=quiet)
    return rc, R


def explain(prop, path):
    data = json.loads(open(path).read())
    rc, R = run_property(prop, 'quick', write=False, quiet=True)
    key = data.get('key')
    hits = [o for o in R.obs if o.key == key]
    print(f'--- replay of {key}')
    if not hits:
        print('rule instance no longer present on the current tree')
    for o in hits:
        print(json.dumps(o.asdict(), indent=1))
    return 1 if any(o.status == report.VIOLATION for o in hits) else 0


def main(argv=None):
    ap = argparse.ArgumentParser()
    ap.add_argument('prop')
    ap.add_argument('--tier', default=os.environ.get('VERIF_TIER') or 'quick', choices=['quick', 'thorough'])
    ap.add_argument('--explain')
    ap.add_argument('--root')
    args = ap.parse_args(argv)
    if args.prop not in PROPS:
        print(f'ANALYSIS-ERROR unknown property {args.prop}')
        return 2
    if args.explain:
        return explain(args.prop, args.explain)
    rc, R = run_property(args.prop, args.tier, args.root, write=args.root is None and 'SA_REPO' not in os.environ)
    if rc == 0 and args.tier == 'thorough':
        from . import selftest
        rc = selftest.run(args.prop)
        ev = report.VERIF / 'evidence' / f'{args.prop}.json'
        if ev.exists() and args.root is None and 'SA_REPO' not in os.environ:
            data = json.loads(ev.read_text())
            data['coverage']['selftest'] = dict(selftest.STATS)
            data['coverage']['explanation'] += (' Thorough tier: both-ways self-test of the rules on AST-computed variants of the current source and on the '
                                                'stored independent change corpora (seeded/, benign/), see coverage.selftest.')
            data['wall_s'] = round(data.get('wall_s', 0) + 0.0, 3)
            ev.write_text(json.dumps(data, indent=1) + '\n')
    return rc


if __name__ == '__main__':
    try:
        code = main()
    except SystemExit:
        raise
    except BaseException:
        traceback.print_exc(file=sys.stdout)
        print('ANALYSIS-ERROR internal error')
        code = 2
    sys.exit(code)
