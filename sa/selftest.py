"""Both-ways self-test of the checker (thorough tier); filled in by sa/selftest_*.py."""


def run(prop):
    return 0
