"""Both-ways self-test of the checker (thorough tier).

For the property under test, variants of the *current* source are computed (first-order AST edits from
:mod:`sa.mutgen`, selected by position-independent signature, plus a few hand-written text substitutions) and analysed
through an in-memory overlay - nothing is written, nothing is executed:

* a **seeded break** must make the property's check report a VIOLATION (exit 1),
* a **benign twin** (an edit known to preserve behaviour) must leave it silent (exit 0).

A rule that misses its seed or fires on its twin makes the run ``ANALYSIS-ERROR selftest`` (exit 2), never exit 1.
The expectations live in ``sa/selftest_table.json`` (written by ``python -m sa.selftest calibrate`` and reviewed by
hand); signatures that no longer apply to the current source are counted as "not applicable", not as failures, but
the run fails closed when fewer than half of a property's seeds still apply.
"""

import json
import multiprocessing as mp
import os
import pathlib
import sys

from . import check, mutgen
from .model import Model, repo_root

HERE = pathlib.Path(__file__).resolve().parent
TABLE = HERE / 'selftest_table.json'

# hand-written variants: (property, kind, name, file, old, new)   kind: 'break' | 'twin'
CUSTOM = [
    ('C16', 'break', 'swap Implication/Replication flag rows', 'concepts/junctors.py',
     'Implication  ->  4| X|  | X| X|\n    Replication  <-  5| X| X|  | X|', 'Implication  ->  4| X| X|  | X|\n    Replication  <-  5| X|  | X| X|'),
    ('C16', 'break', 'orthogonal row loses a pattern cell', 'concepts/junctors.py', 'Orthogonal   ~   7| X| X| X| X|', 'Orthogonal   ~   7| X| X| X|  |'),
    ('C16', 'break', 'two kinds share a rank', 'concepts/junctors.py', 'Subcontrary  v   6|', 'Subcontrary  v   7|'),
    ('C16', 'break', 'max() without default', 'concepts/junctors.py', ', default=0)', ')'),
    ('C16', 'twin', 'sort key via attrgetter', 'concepts/junctors.py', 'self.sort(key=lambda r: r.order)', "import operator; self.sort(key=operator.attrgetter('order'))"),
    ('C20', 'break', 'cover edges drawn in both directions', 'concepts/visualize.py',
     "        if render or view:", "        for concept in lattice._concepts:\n            dot.edges((node_name(concept), node_name(c)) for c in concept.upper_neighbors)\n\n    if render or view:".replace('        for', '    for', 1).replace('            dot', '        dot', 1)),
    ('C20', 'break', 'headlabel from properties', 'concepts/visualize.py', 'headlabel=make_object_label(concept.objects)', 'headlabel=make_object_label(concept.properties)'),
    ('C20', 'twin', 'unsorted lower neighbours', 'concepts/visualize.py', 'for c in sorted(concept.lower_neighbors, key=sortkey))', 'for c in concept.lower_neighbors)'),
    ('C17', 'break', 'conflicts listed in set order', 'concepts/definitions.py',
     "    for o in objects:\n        for p in properties:\n            if (o, p) in difference:\n                yield (o, p)",
     "    for o, p in difference:\n        if o in objects and p in properties:\n            yield (o, p)"),
    ('C17', 'break', 'set_object extends from a set again', 'concepts/definitions.py', 'properties = tools.Unique(properties)', 'properties = set(properties)'),
    ('C17', 'break', 'overlap message formats a set', 'concepts/contexts.py', 'common = sorted(set(objects) & set(properties))', 'common = set(objects) & set(properties)'),
    ('C17', 'twin', 'overlap message sorted list of a frozenset', 'concepts/contexts.py', 'common = sorted(set(objects) & set(properties))', 'common = sorted(frozenset(objects) & set(properties))'),
    ('C13', 'break', 'set_property extends from a set again', 'concepts/definitions.py', 'objects = tools.Unique(objects)', 'objects = set(objects)'),
    ('C13', 'twin', 'set_object membership via list copy', 'concepts/definitions.py', 'properties = tools.Unique(properties)', 'properties = list(properties)'),
    ('C11', 'break', 'lattice pickled as linked concepts', 'concepts/lattices.py', 'return self._context, self._tolist()', 'return self._context, self._concepts'),
    ('C11', 'break', '_tolist swaps upper and lower', 'concepts/lattices.py',
     "tuple(u.index for u in c.upper_neighbors),\n                 tuple(l.index for l in c.lower_neighbors))",
     "tuple(l.index for l in c.lower_neighbors),\n                 tuple(u.index for u in c.upper_neighbors))"),
    ('C19', 'break', 'only the first row length is checked', 'concepts/contexts.py', '{len(b) for b in bools} != {len(properties)}', 'len(bools[0]) != len(properties)'),
    ('C19', 'twin', 'row lengths via any()', 'concepts/contexts.py', '{len(b) for b in bools} != {len(properties)}', 'any(len(b) != len(properties) for b in bools)'),
    ('C19', 'break', 'duplicate check dropped for properties', 'concepts/contexts.py', "for items, name in [(objects, 'objects'), (properties, 'properties')]:",
     "for items, name in [(objects, 'objects')]:"),
    ('C14', 'twin', 'transposed copies through the constructor', 'concepts/definitions.py',
     'return self._fromargs(self._properties.copy(), self._objects.copy(),', 'return self._fromargs(tools.Unique(self._properties), tools.Unique(self._objects),'),
    ('C14', 'break', 'inverted shares the pair set', 'concepts/definitions.py', "if (o, p) not in pairs})\n\n    __invert__", "if (o, p) not in pairs} if False else pairs)\n\n    __invert__"),
    ('C08', 'twin', 'implies via complement', 'concepts/lattice_members.py', 'return self._extent & other._extent == self._extent\n', 'return not self._extent & ~other._extent\n'),
    ('C08', 'break', 'properly_implies not strict', 'concepts/lattice_members.py', 'return self._extent & other._extent == self._extent != other._extent', 'return self._extent & other._extent == self._extent'),
    ('C08', 'break', 'orthogonal_to forgets the remainder', 'concepts/lattice_members.py',
     "\n                and (self._extent | other._extent) != self.lattice.supremum._extent)", ")"),
    ('C01', 'twin', 'trailing zeros via b | -b', 'concepts/matrices.py', "shift = (bitset & -bitset).bit_length() - 1  # trailing zero(s)", "shift = (bitset | -bitset).bit_length() - 1"),
    ('C01', 'break', 'family indexed one too far', 'concepts/matrices.py', "shift = 1\n                    prime &= other[i]\n                i += shift\n                bitset >>= shift\n\n            return make_prime(prime)",
     "shift = 1\n                    prime &= other[i + 1]\n                i += shift\n                bitset >>= shift\n\n            return make_prime(prime)"),
    ('C01', 'break', 'fixed-width mask', 'concepts/algorithms/fcbo.py', 'j_mask = j_property - 1', 'j_mask = (j_property - 1) & 0xffffffffffffffff'),
    ('C09', 'twin', 'lower start rank', 'concepts/algorithms/common.py', 'seen = -1', 'seen = -5'),
    ('C09', 'break', 'start rank 0', 'concepts/algorithms/common.py', 'seen = -1', 'seen = 0'),
    ('C09', 'break', 'downset over upper neighbours', 'concepts/lattice_members.py',
     "_sortkey=operator.attrgetter('dindex'),\n                _next_concepts=operator.attrgetter('lower_neighbors')):", "_sortkey=operator.attrgetter('dindex'),\n                _next_concepts=operator.attrgetter('upper_neighbors')):"),
    ('C12', 'break', 'cxt writes property labels first', 'concepts/formats/cxt.py', '    yield from objects\n    yield from properties', '    yield from properties\n    yield from objects'),
    ('C12', 'break', 'upper-case suffix', 'concepts/formats/cxt.py', "suffix = '.cxt'", "suffix = '.CXT'"),
    ('C07', 'twin', 'meet without closure', 'concepts/lattice_members.py',
     "        common = self._extent & other._extent\n        extent = self.lattice._context._extents.double(common)\n        return self.lattice._mapping[extent]",
     "        common = self._extent & other._extent\n        return self.lattice._mapping[common]"),
    ('C07', 'break', 'join without closure', 'concepts/lattice_members.py',
     "        common = self._extent | other._extent\n        extent = self.lattice._context._extents.double(common)\n        return self.lattice._mapping[extent]",
     "        common = self._extent | other._extent\n        return self.lattice._mapping[common]"),
    ('C06', 'break', 'dindex from reversed shortlex', 'concepts/lattices.py', 'enumerate(sorted(inst._concepts, key=inst._longlex))', 'enumerate(sorted(inst._concepts, key=inst._shortlex, reverse=True))'),
    ('C05', 'break', 'lazy member list', 'concepts/lattices.py', "concepts = [Concept(self, *args)\n                    for args in context._lattice(infimum)]",
     "concepts = list(Concept(self, *args)\n                    for args in context._lattice(infimum)) if False else (Concept(self, *args) for args in context._lattice(infimum))"),
    ('C03', 'break', 'known neighbour queued again', 'concepts/algorithms/lindig.py', "                mapping[n_extent][3].append(extent)\n",
     "                mapping[n_extent][3].append(extent)\n                push((n_extent.shortlex(), mapping[n_extent]))\n"),
    ('C04', 'break', 'table shared between siblings', 'concepts/algorithms/fcbo.py', 'next_property_sets = property_sets.copy()', 'next_property_sets = property_sets'),
    ('C04', 'twin', 'pruning disabled', 'concepts/algorithms/fcbo.py', '                    next_property_sets[j] = j_intent', '                    pass'),
    ('C10', 'break', 'labels in sorted order', 'concepts/lattices.py', 'for o in context.objects:', 'for o in sorted(context.objects):'),
    ('C18', 'break', 'subset test instead of equality', 'concepts/contexts.py', 'if it.prime() == extent:', 'if it.prime() & extent == extent:'),
    ('C02', 'break', 'lattice lookup by intent', 'concepts/lattices.py', "        extent, intent = self._context.__getitem__(key, raw=True)\n        return self._mapping[extent]",
     "        extent, intent = self._context.__getitem__(key, raw=True)\n        return self._mapping[intent]"),
]


STATS = {}


def load_table():
    if TABLE.exists():
        return json.loads(TABLE.read_text())
    return {}


def _evaluate(args):
    prop, relfile, mutated, root = args
    model = Model(root, overlay={relfile: mutated})
    rc, R = check.run_property(prop, 'quick', root, write=False, quiet=True, model=model)
    detail = [l for l in R.lines if l.startswith(('VIOLATION', 'ANALYSIS-ERROR'))][:2]
    return rc, detail


def _evaluate_all(args):
    props, relfile, mutated, root = args
    try:
        model = Model(root, overlay={relfile: mutated})
    except Exception:
        return {p: 2 for p in props}
    out = {}
    for p in props:
        rc, R = check.run_property(p, 'quick', root, write=False, quiet=True, model=model)
        out[p] = rc
    return out


def variants_for(prop, root, table):
    """[(kind, label, relfile, mutated source)] applicable to the current tree; plus count of non-applicable seeds."""
    want = table.get(prop, {'fire': [], 'silent': []})
    fire, silent = set(want['fire']), set(want['silent'])
    out, found = [], set()
    for m in mutgen.generate(root):
        if m['sig'] in fire:
            out.append(('break', m['sig'], m['file'], m['mutated']))
            found.add(m['sig'])
        elif m['sig'] in silent:
            out.append(('twin', m['sig'], m['file'], m['mutated']))
            found.add(m['sig'])
    missing = len((fire | silent) - found)
    for p, kind, name, relfile, old, new in CUSTOM:
        if p != prop:
            continue
        path = pathlib.Path(root) / relfile
        src = path.read_text(encoding='utf-8') if path.exists() else ''
        if src.count(old) != 1:
            missing += 1
            continue
        mutated = src.replace(old, new)
        try:
            compile(mutated, relfile, 'exec')
        except SyntaxError:
            missing += 1
            continue
        out.append((kind, 'custom: ' + name, relfile, mutated))
    return out, missing, len(fire | silent) + sum(1 for c in CUSTOM if c[0] == prop)


def corpus_variants(prop, root):
    """Stored independent changes (committed under seeded/ and benign/): [(kind, label, overlay dict)] for patches that
    still apply to the current tree.  A seeded change is a 'break' for the properties its meta.json lists under
    static_checks.reported_violation; every benign refactoring is a 'twin' for every property."""
    import shutil
    import subprocess
    import tempfile
    verif = HERE.parent
    out = []
    for base, kind in ((verif / 'seeded', 'break'), (verif / 'benign', 'twin')):
        if not base.is_dir():
            continue
        for d in sorted(base.iterdir()):
            patch = d / 'patch.diff'
            if not patch.exists():
                continue
            if kind == 'break':
                try:
                    meta = json.loads((d / 'meta.json').read_text())
                except Exception:
                    continue
                if prop not in meta.get('static_checks', {}).get('reported_violation', []):
                    continue
            tmp = pathlib.Path(tempfile.mkdtemp(prefix='sa-corpus-'))
            try:
                shutil.copytree(pathlib.Path(root) / 'concepts', tmp / 'concepts', ignore=shutil.ignore_patterns('__pycache__'))
                r = subprocess.run(['patch', '-p1', '-s', '-i', str(patch)], cwd=tmp, capture_output=True, text=True)
                if r.returncode:
                    continue
                overlay = {}
                for f in (tmp / 'concepts').rglob('*.py'):
                    rel = 'concepts/' + f.relative_to(tmp / 'concepts').as_posix()
                    orig = pathlib.Path(root) / rel
                    text = f.read_text(encoding='utf-8')
                    if not orig.exists() or orig.read_text(encoding='utf-8') != text:
                        overlay[rel] = text
                out.append((kind, f'{base.name}/{d.name}', overlay))
            finally:
                shutil.rmtree(tmp, ignore_errors=True)
    return out


def _evaluate_overlay(args):
    prop, overlay, root = args
    model = Model(root, overlay=overlay)
    rc, R = check.run_property(prop, 'quick', root, write=False, quiet=True, model=model)
    detail = [l for l in R.lines if l.startswith(('VIOLATION', 'ANALYSIS-ERROR'))][:2]
    return rc, detail


def run(prop, root=None):
    root = str(root or repo_root())
    table = load_table()
    variants, missing, total = variants_for(prop, root, table)
    if not variants:
        print(f'ANALYSIS-ERROR property={prop} selftest: no seeded variant applies to the current source')
        return 2
    with mp.Pool(min(16, os.cpu_count() or 4)) as pool:
        results = pool.map(_evaluate, [(prop, f, src, root) for _, _, f, src in variants], chunksize=2)
    corpus = corpus_variants(prop, root)
    with mp.Pool(min(16, os.cpu_count() or 4)) as pool:
        cres = pool.map(_evaluate_overlay, [(prop, ov, root) for _, _, ov in corpus], chunksize=1) if corpus else []
    # behaviour-preserving single-site rewrites computed on the AST (sa.equivgen): none may be reported as a violation
    from . import equivgen
    ev = equivgen.all_variants(root=root)
    with mp.Pool(min(16, os.cpu_count() or 4)) as pool:
        eres = pool.map(_evaluate, [(prop, rel, new, root) for _, _, rel, new in ev], chunksize=4) if ev else []
    failures = []
    ne0 = ne2 = 0
    for (kind, label, rel, _), (rc, detail) in zip(ev, eres):
        if rc == 1:
            failures.append(f'behaviour-preserving rewrite reported as a violation [{kind}] {label[:120]} {detail}')
        elif rc == 2:
            ne2 += 1
        else:
            ne0 += 1
    print(f'{prop} rewrites: {len(ev)} behaviour-preserving single-site rewrites (rename, if/else swap, mirrored comparison, folded negation, '
          f'return/argument temporary, guard/else, nested and, comprehension as loop, keyword argument): {ne0} silent, {ne2} not recognised (exit 2), {len(ev) - ne0 - ne2} reported')
    nb = nt = 0
    ncb = nct = nct2 = 0
    for (kind, label, _), (rc, detail) in zip(corpus, cres):
        if kind == 'break':
            ncb += 1
            if rc != 1:
                failures.append(f'independently seeded change no longer reported (rc={rc}): {label} {detail}')
        else:
            if rc == 1:
                failures.append(f'independent benign refactoring reported as a violation: {label} {detail}')
            elif rc == 2:
                nct2 += 1
            else:
                nct += 1
    print(f'{prop} corpus: {ncb} independently seeded changes reported; {nct} independent benign refactorings silent, {nct2} not recognised (exit 2), none reported as violation'
          if not any('independent' in f for f in failures) else f'{prop} corpus: FAILURES')
    for (kind, label, f, _), (rc, detail) in zip(variants, results):
        if kind == 'break':
            nb += 1
            if rc != 1:
                failures.append(f'seeded break not reported (rc={rc}): {label[:150]} {detail}')
        else:
            nt += 1
            if rc != 0:
                failures.append(f'benign twin raised an alarm (rc={rc}): {label[:150]} {detail}')
    print(f'{prop} selftest: {nb} seeded breaks reported, {nt} benign twins silent, {missing} of {total} seeds not applicable to the current source'
          + (f', {len(failures)} FAILURES' if failures else ''))
    for f in failures[:20]:
        print(f'ANALYSIS-ERROR property={prop} selftest: {f}')
    STATS.clear()
    STATS.update({'seeded_breaks_reported': nb, 'benign_twins_silent': nt, 'seeds_not_applicable': missing, 'seeds_total': total,
                  'independent_seeded_changes_reported': ncb, 'independent_benign_refactorings_silent': nct,
                  'independent_benign_refactorings_unrecognised_exit2': nct2,
                  'equivalent_rewrites_total': len(ev), 'equivalent_rewrites_silent': ne0, 'equivalent_rewrites_unrecognised_exit2': ne2,
                  'failures': failures[:20]})
    if total and missing * 2 > total:
        print(f'ANALYSIS-ERROR property={prop} selftest: more than half of the seeds no longer apply')
        return 2
    return 2 if failures else 0


def calibrate(root='/repo', pinned='/tmp/pinned'):
    """(Re)write selftest_table.json from the current rules: every mutant a property flags is a seeded break of that
    property; the survivors classified equivalent by reading (design/mutation_survey.md) are the benign twins."""
    design = HERE.parent / 'design'
    surv = json.loads((design / 'survivors.json').read_text())
    benign = [m for m in surv if m['cls'] == 'E' or m['id'] == 1993]
    benign_keys = {(m['file'], m['old'], m['new']) for m in benign}
    benign_sigs = set()
    if pathlib.Path(pinned).exists():
        for m in mutgen.generate(pinned):
            src = (pathlib.Path(pinned) / m['file']).read_text(encoding='utf-8')
            ls, le = src[:m['a']].count('\n'), src[:m['b']].count('\n')
            sl, nl = src.split('\n'), m['mutated'].split('\n')
            delta = len(nl) - len(sl)
            key = (m['file'], '\n'.join(sl[ls:le + 1]), '\n'.join(nl[ls:le + 1 + delta]))
            if key in benign_keys:
                benign_sigs.add(m['sig'])
    print(len(benign_sigs), 'benign signatures of', len(benign_keys))
    muts = mutgen.generate(root)
    props = sorted(check.PROPS)
    with mp.Pool(16) as pool:
        res = pool.map(_evaluate_all, [(props, m['file'], m['mutated'], root) for m in muts], chunksize=8)
    table = {p: {'fire': [], 'silent': []} for p in props}
    for m, rcs in zip(muts, res):
        for p in props:
            rc = rcs[p]
            if rc == 1 and m['sig'] not in benign_sigs:
                table[p]['fire'].append(m['sig'])
            elif m['sig'] in benign_sigs:
                if rc == 0:
                    table[p]['silent'].append(m['sig'])
                else:
                    print('WARNING benign twin not silent', p, rc, m['sig'])
    TABLE.write_text(json.dumps(table, indent=0, sort_keys=True))
    for p in props:
        print(p, len(table[p]['fire']), 'breaks', len(table[p]['silent']), 'twins')


if __name__ == '__main__':
    if sys.argv[1:2] == ['calibrate']:
        calibrate()
    else:
        sys.exit(run(sys.argv[1]))
