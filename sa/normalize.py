"""Semantics-preserving normalisation of function bodies before the rules look at them.

The rules were written against the idioms of the pinned tree; maintainers rewrite code in equivalent ways.  These
transformations map common equivalent spellings onto one form, so that a behaviour-preserving refactoring is neither
reported nor "unrecognised".  Every transformation is an identity of Python semantics for the constructs it matches
(stated per transformation); anything it does not match is left alone.

T1  ``return a if c else b``                       ->  ``if c: return a`` ; ``return b``
T2  ``if c: x = a  [elif ...] else: x = b`` ; ``return x``   (x a plain local, each leaf ends in ``x = ...``)
                                                    ->  returns pushed into the branches
T3  ``x = list(<e>)`` ; ``x.sort(key=K)``          ->  ``x = sorted(<e>, key=K)``      (adjacent statements, x a local name)
T4  ``f = A if c else B`` ; ``f(args)``            ->  ``if c: A(args)`` ``else: B(args)``   (adjacent, f a local used once)
T6  ``if c: ...; return X`` ``else: REST``         ->  ``if c: ...; return X`` ; REST   (if-body never falls through)
T5  call of a *new* private helper (a ``_name`` function of the same module / class that does not exist on the pinned
    tree) as a whole statement, as the returned value, or as the right-hand side of a plain assignment
                                                    ->  the helper's body, parameters substituted (arguments that are not
        plain names/attribute chains/constants are first bound to fresh locals in call order, as Python evaluates them).
"""

import ast
import copy

from .astutil import chain, stmts, names_loaded

# private helpers that exist on the pinned tree: rules anchor on them, they are never inlined
# nested functions that exist on the pinned tree (anchors of rules): never inlined
PINNED_NESTED = {'prime', 'double', 'doubleprime', '_make_set', 'itersection', 'iterlines', 'get_prop'}

PINNED_PRIVATE = {
    '_fromargs', '_pair_with', '_lattice', '_neighbors', '_minimal', '_minimize', '_make_set', '_fromlist', '_init',
    '_annotate', '_make_mapping', '_tolist', '_eq', '_longlex', '_shortlex', '_call_json', '_get_fileobj', '_from_pair',
    '__init__', '__new__',
}

_counter = [0]

# parameter names of every function on the pinned tree (frozen table, generated once by ``python -m sa.normalize
# --pin``): T12 recognises parameters added later
try:
    import json as _json
    import pathlib as _pathlib
    PINNED_SIGNATURES = _json.loads((_pathlib.Path(__file__).with_name('pinned_signatures.json')).read_text())
except (OSError, ValueError):
    PINNED_SIGNATURES = {}
try:
    PINNED_LOCALS = _json.loads((_pathlib.Path(__file__).with_name('pinned_locals.json')).read_text())
except (OSError, ValueError):
    PINNED_LOCALS = {}
try:
    PINNED_SHAPE = _json.loads((_pathlib.Path(__file__).with_name('pinned_shape.json')).read_text())
except (OSError, ValueError):
    PINNED_SHAPE = {}


def function_shape(node):
    """{gen: is a generator function, deco: decorator names, raises: number of raise statements} of a function definition."""
    own = list(_own_walk(list(node.body)))
    return {'gen': any(isinstance(n, (ast.Yield, ast.YieldFrom)) for n in own),
            'deco': [(chain(d.func if isinstance(d, ast.Call) else d) or ['?'])[-1] for d in node.decorator_list],
            'raises': sum(1 for n in own if isinstance(n, ast.Raise))}


def fresh(prefix):
    _counter[0] += 1
    return f'__{prefix}{_counter[0]}'


def terminates(body):
    return bool(body) and isinstance(body[-1], (ast.Return, ast.Raise, ast.Continue, ast.Break))


# ------------------------------------------------------------------------------------------------- T1, T2, T3, T4

def t1_ifexp_return(body):
    out = []
    for s in body:
        if isinstance(s, ast.Return) and isinstance(s.value, ast.IfExp):
            v = s.value
            a = ast.Return(value=v.body)
            b = ast.Return(value=v.orelse)
            ast.copy_location(a, s)
            ast.copy_location(b, s)
            node = ast.If(test=v.test, body=[a], orelse=[])
            ast.copy_location(node, s)
            out += [node, b]
        else:
            out.append(s)
    return out


def _leaf_blocks(node):
    """Leaf statement lists of an if/elif/else chain; None if some branch has no else."""
    if not node.orelse:
        return None
    blocks = [node.body]
    if len(node.orelse) == 1 and isinstance(node.orelse[0], ast.If):
        sub = _leaf_blocks(node.orelse[0])
        if sub is None:
            return None
        blocks += sub
    else:
        blocks.append(node.orelse)
    return blocks


def t2_sink_return(body):
    if len(body) >= 2 and isinstance(body[-1], ast.Return) and isinstance(body[-1].value, ast.Name) and isinstance(body[-2], ast.If):
        name = body[-1].value.id
        blocks = _leaf_blocks(body[-2])
        if blocks and all(b and isinstance(b[-1], ast.Assign) and len(b[-1].targets) == 1 and isinstance(b[-1].targets[0], ast.Name)
                          and b[-1].targets[0].id == name for b in blocks):
            # the name must not be read elsewhere in the chain (other than being assigned)
            reads = sum(1 for n in ast.walk(body[-2]) if isinstance(n, ast.Name) and n.id == name and isinstance(n.ctx, ast.Load))
            if reads == 0:
                for b in blocks:
                    r = ast.Return(value=b[-1].value)
                    ast.copy_location(r, b[-1])
                    b[-1] = r
                return body[:-1]
    return body


def t2b_return_temp(body, whole):
    """T2b: ``x = E`` ; ``return x``  ->  ``return E``  (adjacent statements, x a plain local that occurs nowhere else in the
    function)."""
    out = []
    i = 0
    while i < len(body):
        s = body[i]
        nxt = body[i + 1] if i + 1 < len(body) else None
        if (isinstance(s, ast.Assign) and len(s.targets) == 1 and isinstance(s.targets[0], ast.Name) and isinstance(nxt, ast.Return)
                and isinstance(nxt.value, ast.Name) and nxt.value.id == s.targets[0].id
                and sum(1 for n in ast.walk(whole) if isinstance(n, ast.Name) and n.id == s.targets[0].id) == 2):
            out.append(ast.copy_location(ast.Return(value=s.value), nxt))
            i += 2
            continue
        out.append(s)
        i += 1
    return out


def t18_append_loop(body, whole):
    """T18: ``x = []`` ; ``for T in IT: [if C: ...] x.append(E)``  ->  ``x = [E for T in IT if C ...]``  (adjacent statements; the loop
    body is only the (guarded) append, x occurs nowhere in E / IT / C, the loop variables occur nowhere else in the function)."""
    out = []
    i = 0
    while i < len(body):
        s = body[i]
        nxt = body[i + 1] if i + 1 < len(body) else None
        done = False
        if (isinstance(s, ast.Assign) and len(s.targets) == 1 and isinstance(s.targets[0], ast.Name) and isinstance(s.value, ast.List) and not s.value.elts
                and isinstance(nxt, ast.For) and not nxt.orelse):
            x = s.targets[0].id
            inner = nxt.body
            conds = []
            while len(inner) == 1 and isinstance(inner[0], ast.If) and not inner[0].orelse:
                conds.append(inner[0].test)
                inner = inner[0].body
            if (len(inner) == 1 and isinstance(inner[0], ast.Expr) and isinstance(inner[0].value, ast.Call) and chain(inner[0].value.func) == [x, 'append']
                    and len(inner[0].value.args) == 1 and not inner[0].value.keywords):
                elt = inner[0].value.args[0]
                parts = [elt, nxt.iter] + conds
                tv = {n.id for n in ast.walk(nxt.target) if isinstance(n, ast.Name)}
                uses_x = any(isinstance(n, ast.Name) and n.id == x for p_ in parts for n in ast.walk(p_))
                inside = sum(1 for n in ast.walk(nxt) if isinstance(n, ast.Name) and n.id in tv)
                total = sum(1 for n in ast.walk(whole) if isinstance(n, ast.Name) and n.id in tv)
                if not uses_x and inside == total and not any(isinstance(n, (ast.Yield, ast.YieldFrom, ast.Await)) for p_ in parts for n in ast.walk(p_)):
                    comp = ast.ListComp(elt=elt, generators=[ast.comprehension(target=nxt.target, iter=nxt.iter, ifs=conds, is_async=0)])
                    new = ast.Assign(targets=s.targets, value=comp)
                    ast.copy_location(new, s)
                    ast.copy_location(comp, nxt)
                    out.append(new)
                    i += 2
                    done = True
        if not done:
            out.append(s)
            i += 1
    return out


def t16_positive_test(body):
    """T16: ``if not c: A else: B``  ->  ``if c: B else: A``  (both arms present, the else arm not an elif chain)."""
    out = []
    for s in body:
        if (isinstance(s, ast.If) and s.orelse and isinstance(s.test, ast.UnaryOp) and isinstance(s.test.op, ast.Not)
                and not (len(s.orelse) == 1 and isinstance(s.orelse[0], ast.If))):
            new = ast.If(test=s.test.operand, body=s.orelse, orelse=s.body)
            out.append(ast.copy_location(new, s))
            continue
        out.append(s)
    return out


def t6_hoist_else(body):
    """``if c: <...; return/raise/continue/break> else: REST``  ->  ``if c: <...>`` ; REST   (the else is only reached when c is false
    and the if-body never falls through)."""
    out = []
    for s in body:
        if isinstance(s, ast.If) and s.orelse and _never_falls_through(s.body):
            rest = s.orelse
            s.orelse = []
            out.append(s)
            out += t6_hoist_else(rest)
        elif (isinstance(s, ast.If) and s.orelse and _never_falls_through(s.orelse) and not _never_falls_through(s.body)
              and not (len(s.orelse) == 1 and isinstance(s.orelse[0], ast.If))):
            # ``if c: REST else: <...; raise>``  ->  ``if not c: <...; raise>`` ; REST
            guard = ast.If(test=ast.UnaryOp(op=ast.Not(), operand=s.test), body=s.orelse, orelse=[])
            ast.copy_location(guard, s)
            ast.copy_location(guard.test, s)
            out.append(guard)
            out += t6_hoist_else(s.body)
        else:
            out.append(s)
    return out


def _never_falls_through(body):
    if not body:
        return False
    last = body[-1]
    if isinstance(last, (ast.Return, ast.Raise, ast.Continue, ast.Break)):
        return True
    if isinstance(last, ast.If) and last.orelse:
        return _never_falls_through(last.body) and _never_falls_through(last.orelse)
    return False


def t3_list_sort(body):
    out = []
    i = 0
    while i < len(body):
        s = body[i]
        nxt = body[i + 1] if i + 1 < len(body) else None
        if (isinstance(s, ast.Assign) and len(s.targets) == 1 and isinstance(s.targets[0], ast.Name)
                and isinstance(s.value, ast.Call) and isinstance(s.value.func, ast.Name) and s.value.func.id == 'list'
                and len(s.value.args) == 1 and not s.value.keywords
                and isinstance(nxt, ast.Expr) and isinstance(nxt.value, ast.Call) and isinstance(nxt.value.func, ast.Attribute)
                and nxt.value.func.attr == 'sort' and isinstance(nxt.value.func.value, ast.Name)
                and nxt.value.func.value.id == s.targets[0].id and not nxt.value.args):
            call = ast.Call(func=ast.Name(id='sorted', ctx=ast.Load()), args=[s.value.args[0]], keywords=nxt.value.keywords)
            new = ast.Assign(targets=s.targets, value=call)
            ast.copy_location(new, s)
            ast.copy_location(call, s.value)
            ast.fix_missing_locations(new)
            out.append(new)
            i += 2
            continue
        out.append(s)
        i += 1
    return out


def t4_alias_call(body, all_stmts_src):
    out = []
    i = 0
    while i < len(body):
        s = body[i]
        nxt = body[i + 1] if i + 1 < len(body) else None
        if (isinstance(s, ast.Assign) and len(s.targets) == 1 and isinstance(s.targets[0], ast.Name) and isinstance(s.value, ast.IfExp)
                and isinstance(nxt, ast.Expr) and isinstance(nxt.value, ast.Call) and isinstance(nxt.value.func, ast.Name)
                and nxt.value.func.id == s.targets[0].id
                and all_stmts_src.count(s.targets[0].id) == 2):
            v = s.value
            ca = ast.Expr(value=ast.Call(func=v.body, args=nxt.value.args, keywords=nxt.value.keywords))
            cb = ast.Expr(value=ast.Call(func=v.orelse, args=copy.deepcopy(nxt.value.args), keywords=copy.deepcopy(nxt.value.keywords)))
            node = ast.If(test=v.test, body=[ca], orelse=[cb])
            for n in (ca, cb, node):
                ast.copy_location(n, nxt)
            ast.fix_missing_locations(node)
            out.append(node)
            i += 2
            continue
        out.append(s)
        i += 1
    return out


def transform_blocks(node, fn):
    """Apply ``fn(list_of_statements) -> list`` to every statement list below ``node`` (not into nested defs)."""
    for field in ('body', 'orelse', 'finalbody'):
        sub = getattr(node, field, None)
        if isinstance(sub, list) and sub and isinstance(sub[0], ast.stmt):
            for s in sub:
                if not isinstance(s, (ast.FunctionDef, ast.AsyncFunctionDef, ast.ClassDef)):
                    transform_blocks(s, fn)
            setattr(node, field, fn(sub))
    for h in getattr(node, 'handlers', []) or []:
        for s in h.body:
            if not isinstance(s, (ast.FunctionDef, ast.AsyncFunctionDef, ast.ClassDef)):
                transform_blocks(s, fn)
        h.body = fn(h.body)


# ---------------------------------------------------------------------------------------------------------- T5

class _Subst(ast.NodeTransformer):
    def __init__(self, mapping):
        self.mapping = mapping

    def _scoped(self, n):
        """A nested function / lambda: its own parameters and locals shadow the names being substituted."""
        a = n.args
        own = {x.arg for x in a.posonlyargs + a.args + a.kwonlyargs}
        if a.vararg:
            own.add(a.vararg.arg)
        if a.kwarg:
            own.add(a.kwarg.arg)
        body = n.body if isinstance(n.body, list) else [n.body]
        if isinstance(n, (ast.FunctionDef, ast.AsyncFunctionDef)):
            nonlocal_ = {x for st in ast.walk(n) if isinstance(st, (ast.Nonlocal, ast.Global)) for x in st.names}
            own |= {x.id for st in body for x in ast.walk(st) if isinstance(x, ast.Name) and isinstance(x.ctx, (ast.Store, ast.Del))} - nonlocal_
        a.defaults = [self.visit(d) for d in a.defaults]
        a.kw_defaults = [self.visit(d) if d is not None else None for d in a.kw_defaults]
        if isinstance(n, (ast.FunctionDef, ast.AsyncFunctionDef)):
            n.decorator_list = [self.visit(d) for d in n.decorator_list]
        inner = _Subst({k: v for k, v in self.mapping.items() if k not in own})
        if isinstance(n.body, list):
            n.body = [inner.visit(st) for st in n.body]
        else:
            n.body = inner.visit(n.body)
        return n

    def visit_FunctionDef(self, n):
        return self._scoped(n)

    def visit_Lambda(self, n):
        return self._scoped(n)

    def visit_Name(self, n):
        if n.id in self.mapping:
            new = copy.deepcopy(self.mapping[n.id])
            if isinstance(new, ast.Name):
                new.ctx = n.ctx
            return ast.copy_location(new, n)
        return n


_EXPLICIT = object()     # marker: every parameter (including self) is passed explicitly


def _simple(arg):
    return isinstance(arg, (ast.Name, ast.Constant)) or chain(arg) is not None


def resolve_helper(model, func, call):
    """A *new* private helper this call refers to (module function or method of the same class family), or None."""
    f = call.func
    name = None
    bound_self = None
    if isinstance(f, ast.Name):
        name = f.id
        # a *new* nested helper of an enclosing function (a sibling closure)
        cur = func
        while cur is not None:
            for holder in (cur, cur.parent):
                if holder is not None and name in holder.nested and name not in PINNED_NESTED and holder.nested[name] is not func:
                    return holder.nested[name], None
            cur = cur.parent
    elif isinstance(f, ast.Attribute) and isinstance(f.value, ast.Name) and func.params and f.value.id in (func.params[0], 'cls', 'self'):
        name, bound_self = f.attr, f.value
    elif (isinstance(f, ast.Attribute) and isinstance(f.value, ast.Name) and f.value.id in func.module.classes
          and f.attr.startswith('_') and not f.attr.startswith('__') and f.attr not in PINNED_PRIVATE):
        # ``ClassName._helper(...)``: looked up on the class - a staticmethod is called as is, a classmethod is bound to
        # the class, a plain function receives its instance as the explicit first argument
        for k in model.mro(func.module.classes[f.value.id]):
            if f.attr in k.methods:
                target = k.methods[f.attr]
                deco = [(chain(d.func if isinstance(d, ast.Call) else d) or [''])[-1] for d in target.node.decorator_list]
                if 'classmethod' in deco:
                    return target, f.value
                return target, _EXPLICIT
        return None, None
    if not name or not name.startswith('_') or name.startswith('__') or name in PINNED_PRIVATE:
        return None, None
    if bound_self is None:
        target = func.module.funcs.get(name)
        if target is not None and target.cls is None and target.parent is None:
            return target, None
        return None, None
    if func.cls is not None:
        for mod in model.modules.values():
            for c in mod.classes.values():
                if func.cls in model.mro(c):
                    for k in model.mro(c):
                        if name in k.methods:
                            return k.methods[name], bound_self
    return None, None


def _own_walk(stmts_):
    """All nodes of the statements, not descending into nested function definitions / lambdas (their bodies are
    other scopes); the definition node itself is yielded."""
    todo = list(stmts_)
    while todo:
        n = todo.pop()
        yield n
        if isinstance(n, (ast.FunctionDef, ast.AsyncFunctionDef, ast.Lambda, ast.ClassDef)) and n not in stmts_:
            continue
        if isinstance(n, (ast.FunctionDef, ast.AsyncFunctionDef, ast.Lambda, ast.ClassDef)):
            continue
        todo.extend(ast.iter_child_nodes(n))


def _is_local(caller, name):
    """``name`` is a parameter of the caller or assigned in the caller's own scope (not a closure / global variable)."""
    if name in caller.params:
        return True
    return any(isinstance(n, ast.Name) and n.id == name and isinstance(n.ctx, ast.Store) for n in _own_walk(list(caller.node.body)))


def _in_loop(caller, call):
    return any(isinstance(n, (ast.For, ast.AsyncFor, ast.While)) and any(c is call for c in ast.walk(n)) for n in ast.walk(caller.node))


def _live_after(caller, call, name):
    """Is ``name`` read in the caller after the call statement (or is the call inside a loop, where "after" wraps around)?"""
    if caller is None:
        return True
    end = (getattr(call, 'end_lineno', call.lineno), getattr(call, 'end_col_offset', 0))
    for n in ast.walk(caller.node):
        if isinstance(n, (ast.For, ast.AsyncFor, ast.While)) and any(c is call for c in ast.walk(n)):
            return True
    for n in ast.walk(caller.node):
        if isinstance(n, ast.Name) and n.id == name and isinstance(n.ctx, ast.Load):
            if (n.lineno, n.col_offset) > end:
                return True
    return False


def inline_call(target, call, bound_self, mode, caller=None, depth=0, generator=False):
    """Statements equivalent to the call.  mode: 'stmt' (value unused), 'return', ('assign', name).  None if not inlinable.
    ``generator``: the statement is ``yield from helper(...)`` inside a generator - the helper's body (a generator body
    whose yields are plain statements) runs in place of the delegation."""
    node = target.node
    a = node.args
    if a.vararg or a.kwarg or a.posonlyargs or any(isinstance(x, ast.Starred) for x in call.args) \
            or any(k.arg is None for k in call.keywords):
        return None
    if any(isinstance(n, (ast.Global, ast.Nonlocal, ast.AsyncFunctionDef, ast.ClassDef)) for n in ast.walk(node)):
        return None
    yields = [n for n in _own_walk(list(node.body)) if isinstance(n, (ast.Yield, ast.YieldFrom))]
    if bool(yields) != bool(generator):
        return None
    if generator:
        plain = {id(st.value) for st in _own_walk(list(node.body)) if isinstance(st, ast.Expr) and isinstance(st.value, (ast.Yield, ast.YieldFrom))}
        if any(id(y) not in plain for y in yields):
            return None     # the value sent into a yield is used
        if any(isinstance(n, ast.Return) and n.value is not None for n in _own_walk(list(node.body))):
            return None
    params = [x.arg for x in a.args]
    deco = [(chain(d.func if isinstance(d, ast.Call) else d) or [''])[-1] for d in node.decorator_list]
    if any(d not in ('staticmethod', 'classmethod') for d in deco):
        return None      # a decorator (cache, property ...) changes what a call means
    args = list(call.args)
    if bound_self is not None and bound_self is not _EXPLICIT and 'staticmethod' not in deco:
        args = [bound_self] + args
    if len(args) > len(params):
        return None
    binding = dict(zip(params, args))
    kwonly = [x.arg for x in a.kwonlyargs]
    for k in call.keywords:
        if k.arg not in params + kwonly or k.arg in binding:
            return None
        binding[k.arg] = k.value
    defaults = dict(zip(params[len(params) - len(a.defaults):], a.defaults))
    defaults.update({x.arg: d for x, d in zip(a.kwonlyargs, a.kw_defaults) if d is not None})
    params = params + kwonly
    for p_ in params:
        if p_ not in binding:
            if p_ not in defaults:
                return None
            binding[p_] = defaults[p_]
    body = copy.deepcopy(target.body)
    own = list(_own_walk(body))
    # names the helper binds in its own scope; nested function definitions keep their name (rules anchor on them) and
    # must not clash with a name of the caller
    assigned = {n.id for n in own if isinstance(n, ast.Name) and isinstance(n.ctx, (ast.Store, ast.Del))}
    nested_names = {n.name for n in own if isinstance(n, ast.FunctionDef)}
    if nested_names:
        if caller is None:
            return None
        caller_names = {n.id for n in ast.walk(caller.node) if isinstance(n, ast.Name)} | set(caller.nested) | set(caller.params)
        if nested_names & (caller_names | assigned | set(params)):
            return None
    pre = []
    mapping = {}
    for p_ in params:
        arg = binding[p_]
        uses = sum(1 for st in body for n in ast.walk(st) if isinstance(n, ast.Name) and n.id == p_)
        if _simple(arg) and p_ not in assigned:
            mapping[p_] = arg
        elif uses <= 1 and p_ not in assigned:
            mapping[p_] = arg      # a non-trivial argument used once: placed at its single use
        elif isinstance(arg, ast.Name) and caller is not None and _is_local(caller, arg.id) \
                and (not _live_after(caller, call, arg.id)
                     or (isinstance(mode, tuple) and isinstance(mode[1], ast.Name) and mode[1].id == arg.id and not _in_loop(caller, call))) \
                and sum(1 for v in binding.values() for n in ast.walk(v) if isinstance(n, ast.Name) and n.id == arg.id) == 1:
            # the helper rebinds its parameter; the caller's own variable is dead after the call, so it can play that role
            mapping[p_] = arg
        else:
            tmp = fresh(p_)
            asg = ast.Assign(targets=[ast.Name(id=tmp, ctx=ast.Store())], value=arg)
            ast.copy_location(asg, call)
            ast.fix_missing_locations(asg)
            pre.append(asg)
            mapping[p_] = ast.Name(id=tmp, ctx=ast.Load())
    # rename the helper's own locals; a local that is just the returned value takes the name it is assigned to at the
    # call (``objects, rows = helper(d)`` with ``return objects_, rows_``), unless that name is read by the helper
    # (as an argument or a free variable) - then a fresh name is the only safe choice
    adopt = {}
    if isinstance(mode, tuple) and mode[0] == 'assign':
        rets0 = [n for n in own if isinstance(n, ast.Return) and n.value is not None]
        tgt = mode[1]
        shapes = set()
        for r in rets0:
            if isinstance(r.value, ast.Name) and isinstance(tgt, ast.Name):
                shapes.add(((r.value.id, tgt.id),))
            elif (isinstance(r.value, ast.Tuple) and isinstance(tgt, ast.Tuple) and len(r.value.elts) == len(tgt.elts)
                  and all(isinstance(e, ast.Name) for e in list(r.value.elts) + list(tgt.elts))):
                shapes.add(tuple((e.id, t.id) for e, t in zip(r.value.elts, tgt.elts)))
            else:
                shapes.add(None)
        if len(shapes) == 1 and None not in shapes:
            pairs = next(iter(shapes))
            read_outside = {n.id for v in binding.values() for n in ast.walk(v) if isinstance(n, ast.Name)}
            free = {n.id for st in body for n in ast.walk(st) if isinstance(n, ast.Name)} - assigned - set(params)
            tnames = [t for _, t in pairs]
            if (len(set(tnames)) == len(tnames) and len({l for l, _ in pairs}) == len(pairs)
                    and all(l in assigned and l not in params for l, _ in pairs) and not (set(tnames) & (read_outside | free))):
                adopt = dict(pairs)
    in_use = getattr(caller, '_names_in_use', None)
    for loc in sorted(assigned - set(params)):
        name = adopt.get(loc)
        if name is None and in_use is not None and loc not in in_use and loc not in nested_names:
            name = loc          # no name of the caller (local, parameter, global it refers to) is shadowed: keep the spelling
        if name is None:
            name = fresh(loc)
        if in_use is not None:
            in_use.add(name)
        mapping[loc] = ast.Name(id=name, ctx=ast.Load())
    body = [_Subst(mapping).visit(st) for st in body]
    relpath = target.module.relpath
    step = 1e-4 ** (depth + 1)
    base = call.lineno
    k = 0
    for st in body:
        for n in ast.walk(st):
            if hasattr(n, 'lineno'):
                k += 1
                if not hasattr(n, '_src'):
                    n._src = (relpath, int(n.lineno))
                n.lineno = n.end_lineno = base + min(k, 9000) * step
    rets = [n for n in _own_walk(body) if isinstance(n, ast.Return)]

    def located(stmts_):
        nonlocal k
        for st in stmts_:
            for n in ast.walk(st):
                if isinstance(n, (ast.stmt, ast.expr)) and not hasattr(n, 'lineno'):
                    k += 1
                    n.lineno = n.end_lineno = base + min(k, 9000) * step
                    n.col_offset = n.end_col_offset = 0
        return stmts_

    if mode == 'return':
        if not body or not _all_paths_return(body):
            body = body + [ast.Return(value=ast.Constant(value=None))]
        return pre + located(body)
    # 'stmt' / assign: returns in tail position become assignments to the target (branches are kept); a return
    # anywhere else (inside a loop, try) cannot be spliced without control-flow surgery
    conv = _tail_returns(body, None if mode == 'stmt' else mode[1])
    if conv is None:
        return None
    # ``x = x`` left over when the helper's result variable took the target's name
    conv = _drop_identity_assign(conv)
    return pre + located(conv)


def _drop_identity_assign(block):
    out = []
    for st in block:
        if isinstance(st, ast.Assign) and len(st.targets) == 1 and ast.dump(st.targets[0]).replace('Store()', 'Load()') == ast.dump(st.value):
            continue
        if isinstance(st, ast.If):
            st.body = _drop_identity_assign(st.body) or [ast.Pass()]
            st.orelse = _drop_identity_assign(st.orelse)
        out.append(st)
    return out


def _tail_returns(body, target):
    """``body`` with every return replaced by ``target = value`` (or dropped), provided each return sits in tail position
    (last statement, possibly under if/else chains, or a guard ``if c: ...; return`` whose continuation moves into an
    ``else``).  None when a return sits elsewhere."""
    def value_stmt(r):
        if target is None:
            return [ast.copy_location(ast.Expr(value=r.value), r)] if r.value is not None and not isinstance(r.value, (ast.Name, ast.Constant)) else []
        asg = ast.Assign(targets=[copy.deepcopy(target)], value=r.value if r.value is not None else ast.Constant(value=None))
        for n in ast.walk(asg.targets[0]):
            ast.copy_location(n, r)
        return [ast.copy_location(asg, r)]

    def has_return(stmts_):
        return any(isinstance(n, ast.Return) for n in _own_walk(list(stmts_)))

    def conv(block):
        out = []
        for i, st in enumerate(block):
            rest = block[i + 1:]
            if isinstance(st, ast.Return):
                return out + value_stmt(st)
            if isinstance(st, ast.If) and has_return([st]):
                if st.orelse:
                    body_c = conv(st.body + ([] if _never_falls_through(st.body) else rest))
                    else_c = conv(st.orelse + ([] if _never_falls_through(st.orelse) else rest))
                else:
                    body_c = conv(st.body + ([] if _never_falls_through(st.body) else rest))
                    else_c = conv(rest)
                if body_c is None or else_c is None:
                    return None
                new = ast.If(test=st.test, body=body_c or [ast.Pass()], orelse=else_c)
                return out + [ast.copy_location(new, st)]
            if has_return([st]):
                return None
            out.append(st)
        if target is not None and not (out and isinstance(out[-1], (ast.Raise, ast.Continue, ast.Break))):
            out += [ast.Assign(targets=[copy.deepcopy(target)], value=ast.Constant(value=None))]
        return out
    return conv(list(body))


def _all_paths_return(body):
    if not body:
        return False
    last = body[-1]
    if isinstance(last, (ast.Return, ast.Raise)):
        return True
    if isinstance(last, ast.If) and last.orelse:
        return _all_paths_return(last.body) and _all_paths_return(last.orelse)
    return False


class _Fold(ast.NodeTransformer):
    """T8: a literal True/False/None substituted for a parameter decides ``A if <const> else B``, ``if <const>:``,
    ``not <const>`` and ``<const> is [not] None`` (only on freshly spliced statements)."""

    @staticmethod
    def _truth(n):
        if isinstance(n, ast.Constant) and (n.value is None or isinstance(n.value, (bool, int, str))):
            return bool(n.value)
        return None

    def visit_UnaryOp(self, n):
        self.generic_visit(n)
        if isinstance(n.op, ast.Not) and self._truth(n.operand) is not None:
            return ast.copy_location(ast.Constant(value=not self._truth(n.operand)), n)
        return n

    def visit_Compare(self, n):
        self.generic_visit(n)
        if (len(n.ops) == 1 and isinstance(n.ops[0], (ast.Is, ast.IsNot)) and isinstance(n.left, ast.Constant)
                and isinstance(n.comparators[0], ast.Constant) and n.comparators[0].value is None):
            r = n.left.value is None
            return ast.copy_location(ast.Constant(value=r if isinstance(n.ops[0], ast.Is) else not r), n)
        return n

    def visit_IfExp(self, n):
        self.generic_visit(n)
        t = self._truth(n.test)
        if t is None:
            return n
        return n.body if t else n.orelse

    def visit_If(self, n):
        self.generic_visit(n)
        t = self._truth(n.test)
        if t is None:
            return n
        return (n.body if t else n.orelse) or [ast.copy_location(ast.Pass(), n)]

    def visit_FunctionDef(self, n):
        return n

    def visit_Lambda(self, n):
        return n


def _fold_constants(block):
    out = []
    for st in block:
        r = _Fold().visit(st)
        out += r if isinstance(r, list) else [r]
    return out


def t5_inline(model, func, body, depth=0):
    out = []
    for s in body:
        call = mode = None
        gen = False
        if isinstance(s, ast.Expr) and isinstance(s.value, ast.Call):
            call, mode = s.value, 'stmt'
        elif isinstance(s, ast.Expr) and isinstance(s.value, ast.YieldFrom) and isinstance(s.value.value, ast.Call):
            call, mode, gen = s.value.value, 'stmt', True
        elif isinstance(s, ast.Return) and isinstance(s.value, ast.Call):
            call, mode = s.value, 'return'
        elif isinstance(s, ast.Assign) and len(s.targets) == 1 and isinstance(s.value, ast.Call):
            call, mode = s.value, ('assign', s.targets[0])
        if call is not None and depth < 3:
            target, bound = resolve_helper(model, func, call)
            if target is not None and target is not func:
                new = inline_call(target, call, bound, mode, caller=func, depth=depth, generator=gen)
                if new is not None:
                    new = _fold_constants(new)
                    for n in new:
                        if not isinstance(n, (ast.FunctionDef, ast.AsyncFunctionDef, ast.ClassDef)):
                            # calls inside the spliced statements' own blocks (loops, branches)
                            transform_blocks(n, lambda b, d=depth + 1: t5_inline(model, func, b, d))
                    out += t5_inline(model, func, new, depth + 1)
                    continue
        out.append(s)
    return out


class _T7(ast.NodeTransformer):
    """T7: ``getattr(x, 'name')`` -> ``x.name``; the statement ``setattr(x, 'name', v)`` -> ``x.name = v`` (literal
    identifier, no default argument): the same operation by the data model."""

    @staticmethod
    def _ident(n):
        return isinstance(n, ast.Constant) and isinstance(n.value, str) and n.value.isidentifier() and not n.value.startswith('__')

    def visit_Call(self, n):
        self.generic_visit(n)
        if isinstance(n.func, ast.Name) and n.func.id == 'getattr' and len(n.args) == 2 and not n.keywords and self._ident(n.args[1]):
            return ast.copy_location(ast.Attribute(value=n.args[0], attr=n.args[1].value, ctx=ast.Load()), n)
        return n

    def visit_Expr(self, s):
        self.generic_visit(s)
        n = s.value
        if (isinstance(n, ast.Call) and isinstance(n.func, ast.Name) and n.func.id == 'setattr' and len(n.args) == 3 and not n.keywords
                and self._ident(n.args[1])):
            tgt = ast.Attribute(value=n.args[0], attr=n.args[1].value, ctx=ast.Store())
            return ast.copy_location(ast.Assign(targets=[tgt], value=n.args[2]), s)
        return s


def t9_unpack_forward(body, whole):
    """T9: ``a, b = X`` ; ``P, Q = a, b``  ->  ``P, Q = X``  (adjacent statements; a, b plain locals that occur nowhere
    else in the function): unpacking into temporaries that are only passed on is unpacking into the final targets -
    X is evaluated and unpacked once either way, and a length mismatch raises the same ValueError before any target is
    bound... provided P, Q are bound left to right exactly as a, b were, which tuple assignment does."""
    out = []
    i = 0
    while i < len(body):
        s = body[i]
        nxt = body[i + 1] if i + 1 < len(body) else None
        if (isinstance(s, ast.Assign) and len(s.targets) == 1 and isinstance(s.targets[0], ast.Tuple)
                and all(isinstance(e, ast.Name) for e in s.targets[0].elts)
                and isinstance(nxt, ast.Assign) and len(nxt.targets) == 1 and isinstance(nxt.targets[0], ast.Tuple)
                and isinstance(nxt.value, ast.Tuple) and len(nxt.value.elts) == len(s.targets[0].elts)
                and len(nxt.targets[0].elts) == len(nxt.value.elts)
                and all(isinstance(v, ast.Name) and v.id == t.id for v, t in zip(nxt.value.elts, s.targets[0].elts))):
            temps = [t.id for t in s.targets[0].elts]
            uses = sum(1 for n in ast.walk(whole) if isinstance(n, ast.Name) and n.id in temps)
            if len(set(temps)) == len(temps) and uses == 2 * len(temps):
                new = ast.Assign(targets=nxt.targets, value=s.value)
                out.append(ast.copy_location(new, nxt))
                i += 2
                continue
        out.append(s)
        i += 1
    return out


def ordered_locals(node):
    """Names bound in the function's own scope (assignment, loop, with, except, import targets), in order of first binding."""
    a = node.args
    params = {x.arg for x in a.posonlyargs + a.args + a.kwonlyargs} | {x.arg for x in (a.vararg, a.kwarg) if x}
    seen = []

    def visit(n):
        if isinstance(n, (ast.FunctionDef, ast.AsyncFunctionDef, ast.ClassDef, ast.Lambda, ast.ListComp, ast.SetComp, ast.DictComp, ast.GeneratorExp)):
            return
        if isinstance(n, ast.Name) and isinstance(n.ctx, ast.Store) and n.id not in params and n.id not in seen:
            seen.append(n.id)
        for c in ast.iter_child_nodes(n):
            visit(c)
    for st in node.body:
        visit(st)
    return seen


def t15_restore_local_names(func, node):
    """T15: a local variable that was merely renamed gets back the name it has on today's tree (frozen table
    pinned_locals.json: per function the locals in order of first binding).  The current and the pinned name lists are
    aligned; only 1:1 substitutions are undone, and only when the old name is free in the function."""
    pinned = PINNED_LOCALS.get(func.key)
    if not pinned:
        return
    cur = ordered_locals(node)
    if cur == pinned:
        return
    import difflib
    used = {n.id for n in ast.walk(node) if isinstance(n, ast.Name)} | {a.arg for x in ast.walk(node) if isinstance(x, ast.arguments)
                                                                       for a in x.posonlyargs + x.args + x.kwonlyargs}
    mapping = {}
    for tag, i1, i2, j1, j2 in difflib.SequenceMatcher(None, pinned, cur, autojunk=False).get_opcodes():
        if tag == 'replace' and i2 - i1 == j2 - j1:
            for old, new in zip(pinned[i1:i2], cur[j1:j2]):
                if old not in used and new not in pinned and old not in mapping.values() and new != '_' and old != '_':
                    mapping[new] = old
    if not mapping:
        return

    def rename(n, shadow):
        if isinstance(n, (ast.FunctionDef, ast.AsyncFunctionDef, ast.Lambda)) and n is not node:
            a = n.args
            own = {x.arg for x in a.posonlyargs + a.args + a.kwonlyargs} | {x.arg for x in (a.vararg, a.kwarg) if x}
            body = n.body if isinstance(n.body, list) else [n.body]
            own |= {x.id for st in body for x in ast.walk(st) if isinstance(x, ast.Name) and isinstance(x.ctx, ast.Store)}
            shadow = shadow | own
        if isinstance(n, ast.Name) and n.id in mapping and n.id not in shadow:
            n.id = mapping[n.id]
        for c in ast.iter_child_nodes(n):
            rename(c, shadow)
    rename(node, frozenset())


def _resolve_callee(model, func, call):
    """Package function a call certainly refers to: ``f(...)``, ``module.f(...)``, ``Class.m(...)``, ``self.m(...)``,
    ``cls.m(...)``.  Returns (Func, number of leading parameters bound by the receiver) or (None, 0)."""
    f = call.func
    mod = func.module

    def method(cls_, name, via_instance):
        owner, target = model.lookup(cls_, name)
        if not hasattr(target, 'node'):
            return None, 0
        deco = [(chain(d.func if isinstance(d, ast.Call) else d) or [''])[-1] for d in target.node.decorator_list]
        if any(d not in ('staticmethod', 'classmethod') for d in deco):
            return None, 0
        if 'staticmethod' in deco:
            return target, 0
        if 'classmethod' in deco or via_instance:
            return target, 1
        return target, 0

    if isinstance(f, ast.Name):
        cur = func
        while cur is not None:
            if f.id in cur.nested:
                return cur.nested[f.id], 0
            cur = cur.parent
        if f.id in mod.funcs and mod.funcs[f.id].cls is None and mod.funcs[f.id].parent is None:
            return mod.funcs[f.id], 0
        imp = mod.imports.get(f.id)
        if imp and imp.startswith('pkg:'):
            modname, _, fname = imp[4:].rpartition('.')
            m = model.modules.get(modname)
            target = m.funcs.get(fname) if m is not None else None
            if target is not None and target.cls is None and target.parent is None:
                return target, 0
        return None, 0
    if (isinstance(f, ast.Attribute) and isinstance(f.value, ast.Attribute) and isinstance(f.value.value, ast.Name)):
        # module.Class.method(...)
        imp = mod.imports.get(f.value.value.id)
        if imp and imp.startswith('pkg:') and imp[4:] in model.modules:
            m = model.modules[imp[4:]]
            if f.value.attr in m.classes:
                return method(m.classes[f.value.attr], f.attr, False)
        return None, 0
    if isinstance(f, ast.Attribute) and isinstance(f.value, ast.Name):
        base = f.value.id
        if func.cls is not None and func.params and base == func.params[0] and base in ('self', 'cls'):
            # the concrete class may override: only when every class of the family resolves the name to the same function
            found = set()
            for m in model.modules.values():
                for c in m.classes.values():
                    if func.cls in model.mro(c):
                        found.add(model.lookup(c, f.attr)[1])
            found.discard(None)
            if len(found) == 1 and hasattr(next(iter(found)), 'node'):
                target = next(iter(found))
                deco = [(chain(d.func if isinstance(d, ast.Call) else d) or [''])[-1] for d in target.node.decorator_list]
                if any(d not in ('staticmethod', 'classmethod') for d in deco):
                    return None, 0
                return target, (0 if 'staticmethod' in deco else 1)
            return None, 0
        if base in mod.classes:
            return method(mod.classes[base], f.attr, False)
        imp = mod.imports.get(base)
        if imp and imp.startswith('pkg:'):
            key = imp[4:]
            if key in model.modules:
                target = model.modules[key].funcs.get(f.attr)
                if target is not None and target.cls is None and target.parent is None:
                    return target, 0
                return None, 0
            modname, _, cname = key.rpartition('.')
            m = model.modules.get(modname)
            if m is not None and cname in m.classes:
                return method(m.classes[cname], f.attr, False)
    return None, 0


def t10_keywords_to_positional(model, func, node):
    """T10: ``f(a, y=b)`` -> ``f(a, b)`` when the call certainly refers to a package function whose next positional
    parameter is ``y`` (keywords are moved only while they continue the positional prefix; argument evaluation order
    is the written order either way because keywords follow positionals)."""
    for call in [n for n in ast.walk(node) if isinstance(n, ast.Call)]:
        if not call.keywords or any(k.arg is None for k in call.keywords) or any(isinstance(a, ast.Starred) for a in call.args):
            continue
        target, skip = _resolve_callee(model, func, call)
        if target is None:
            continue
        a = target.node.args
        if a.vararg is not None or a.posonlyargs:
            continue
        params = [x.arg for x in a.args][skip:]
        kw = {k.arg: k for k in call.keywords}
        moved = []
        i = len(call.args)
        # keywords must keep their relative order when moved, or evaluation order would change
        order = [k.arg for k in call.keywords]
        while i < len(params) and params[i] in kw and order and order[0] == params[i]:
            moved.append(kw[params[i]].value)
            order.pop(0)
            i += 1
        if moved:
            call.args = list(call.args) + moved
            call.keywords = [k for k in call.keywords if k.arg in order]


def t11_yield_from_genexp(body):
    """T11: the statement ``yield from (E for x in IT if C)`` -> ``for x in IT: if C: yield E`` (single generator; the
    delegating form yields exactly the elements the loop yields, in the same order and as lazily)."""
    out = []
    for s in body:
        v = s.value if isinstance(s, ast.Expr) else None
        if (isinstance(v, ast.YieldFrom) and isinstance(v.value, ast.GeneratorExp) and len(v.value.generators) == 1
                and not v.value.generators[0].is_async):
            g = v.value.generators[0]
            inner = [ast.copy_location(ast.Expr(value=ast.copy_location(ast.Yield(value=v.value.elt), s)), s)]
            for c in reversed(g.ifs):
                inner = [ast.copy_location(ast.If(test=c, body=inner, orelse=[]), s)]
            loop = ast.For(target=g.target, iter=g.iter, body=inner, orelse=[])
            for n in ast.walk(loop.target):
                if isinstance(n, ast.Name):
                    n.ctx = ast.Store()
            out.append(ast.copy_location(loop, s))
            continue
        out.append(s)
    return out


def _passed_somewhere(model, func, name, index):
    """Does any call in the package that may refer to ``func`` (matched by name, conservatively) pass parameter ``name``
    (by keyword, by position, or through * / ** unpacking)?"""
    callee = func.cls.name if (func.cls is not None and func.name == '__init__') else func.name
    for mod in model.modules.values():
        for n in ast.walk(mod.tree):
            if not isinstance(n, ast.Call) or (chain(n.func) or [''])[-1] != callee:
                continue
            if any(k.arg == name or k.arg is None for k in n.keywords) or any(isinstance(a, ast.Starred) for a in n.args):
                return True
            if index is not None and len(n.args) >= index:      # index counts self/cls: conservative for bound calls
                return True
    return False


def _genexp_function(target):
    """(target, iter, condition or None, element) if the function is nothing but ``for T in IT: [if C:] yield E``."""
    body = [st for st in target.node.body if not (isinstance(st, ast.Expr) and isinstance(st.value, ast.Constant))]
    a = target.node.args
    if len(body) != 1 or not isinstance(body[0], ast.For) or body[0].orelse or a.vararg or a.kwarg or a.kwonlyargs or a.defaults or target.node.decorator_list:
        return None
    loop = body[0]
    inner = loop.body
    cond = None
    if len(inner) == 1 and isinstance(inner[0], ast.If) and not inner[0].orelse:
        cond, inner = inner[0].test, inner[0].body
    if len(inner) != 1 or not (isinstance(inner[0], ast.Expr) and isinstance(inner[0].value, ast.Yield) and inner[0].value.value is not None):
        return None
    return loop.target, loop.iter, cond, inner[0].value.value


class _T14(ast.NodeTransformer):
    """T14: a call of a *new* generator function that is only ``for T in IT: [if C:] yield E`` -> the generator expression
    ``(E for T in IT if C)`` with the arguments substituted (plain-name arguments only); ``list(<genexp>)`` -> list
    comprehension."""

    def __init__(self, model, func):
        self.model, self.func = model, func

    def visit_Call(self, n):
        self.generic_visit(n)
        if isinstance(n.func, ast.Name) and n.func.id == 'list' and len(n.args) == 1 and not n.keywords and isinstance(n.args[0], ast.GeneratorExp):
            g = n.args[0]
            return ast.copy_location(ast.ListComp(elt=g.elt, generators=g.generators), n)
        if n.keywords or any(not isinstance(a, (ast.Name, ast.Attribute, ast.Constant)) for a in n.args):
            return n
        target, skip = _resolve_callee(self.model, self.func, n)
        if target is None or skip or target.key in PINNED_SIGNATURES or target is self.func:
            return n
        shape = _genexp_function(target)
        if shape is None or len(n.args) != len(target.params):
            return n
        tgt, it, cond, elt = (copy.deepcopy(x) if x is not None else None for x in shape)
        locals_ = {x.id for x in ast.walk(tgt) if isinstance(x, ast.Name)}
        if locals_ & {x.id for a in n.args for x in ast.walk(a) if isinstance(x, ast.Name)}:
            return n
        mapping = dict(zip(target.params, n.args))
        sub = _Subst(mapping)
        comp = ast.comprehension(target=tgt, iter=sub.visit(it), ifs=[sub.visit(cond)] if cond is not None else [], is_async=0)
        new = ast.GeneratorExp(elt=sub.visit(elt), generators=[comp])
        ast.copy_location(new, n)
        for x in ast.walk(new):
            if not hasattr(x, 'lineno') and isinstance(x, (ast.expr, ast.stmt)):
                ast.copy_location(x, n)
        return self.visit_Call_again(new, n)

    def visit_Call_again(self, new, n):
        return new


def t12_new_parameters(model, func, node):
    """T12: a parameter that the pinned tree's signature of this function does not have, that has a literal default and is
    never rebound, is replaced by that default (then folded).  The properties quantify over the API as it is documented
    today; what a *new* optional argument does when it is given is outside every property, what the function does when
    it is not given is exactly this specialisation."""
    pinned = PINNED_SIGNATURES.get(func.key)
    if pinned is None:
        return False
    a = node.args
    changed = False
    pos_defaults = dict(zip([x.arg for x in a.args][len(a.args) - len(a.defaults):], a.defaults))
    kw_defaults = {x.arg: d for x, d in zip(a.kwonlyargs, a.kw_defaults) if d is not None}
    stored = {n.id for n in ast.walk(node) if isinstance(n, ast.Name) and isinstance(n.ctx, (ast.Store, ast.Del))}
    mapping = {}
    positions = {x.arg: i for i, x in enumerate(a.args)}
    for name, d in list(pos_defaults.items()) + list(kw_defaults.items()):
        if name in pinned or name in stored or not isinstance(d, ast.Constant):
            continue
        if _passed_somewhere(model, func, name, positions.get(name)):
            continue        # an internal caller chooses a value: that path is part of the package's behaviour
        mapping[name] = d
    if not mapping:
        return False
    node.body = [_Subst(mapping).visit(st) for st in node.body]
    node.body = _fold_constants(node.body)
    return True


# ------------------------------------------------------------------------------------------------------ driver

def normalize_function(model, func):
    """Return a normalised deep copy of ``func.node`` (the original is left untouched)."""
    node = copy.deepcopy(func.node)
    holder = ast.Module(body=[node], type_ignores=[])
    t15_restore_local_names(func, node)
    func._names_in_use = ({n.id for n in ast.walk(node) if isinstance(n, ast.Name)} | {a.arg for n in ast.walk(node) if isinstance(n, ast.arguments)
                                                                                      for a in n.posonlyargs + n.args + n.kwonlyargs + [x for x in (n.vararg, n.kwarg) if x]}
                          | {n.name for n in ast.walk(node) if isinstance(n, (ast.FunctionDef, ast.ClassDef))})
    cur = func.parent
    while cur is not None:      # closure variables of enclosing functions the body may come to read
        func._names_in_use |= {n.id for n in ast.walk(cur.node) if isinstance(n, ast.Name)} | set(cur.params)
        cur = cur.parent

    def passes(block):
        block = t5_inline(model, func, block)
        block = t11_yield_from_genexp(block)
        block = t9_unpack_forward(block, node)
        block = t3_list_sort(block)
        text = ast.unparse(ast.Module(body=block, type_ignores=[]))
        block = t4_alias_call(block, text)
        block = t16_positive_test(block)
        block = t18_append_loop(block, node)
        block = t1_ifexp_return(block)
        block = t2_sink_return(block)
        block = t2b_return_temp(block, node)
        block = t6_hoist_else(block)
        return block

    t12_new_parameters(model, func, node)
    node = _T14(model, func).visit(node)
    node = _T14(model, func).visit(node)      # list(<the generator expression just produced>)
    holder.body = [node]
    transform_blocks(node, passes)
    node = _T7().visit(node)
    t10_keywords_to_positional(model, func, node)
    ast.fix_missing_locations(holder)
    return node


if __name__ == '__main__':
    import sys
    if '--pin' in sys.argv:
        import json
        import pathlib
        from .model import Model
        m = Model()
        table = {}
        for f in m.all_funcs():
            a = f.orig.args if hasattr(f, 'orig') and f.orig is not None else f.node.args
            table[f.key] = [x.arg for x in a.posonlyargs + a.args + a.kwonlyargs] + [x.arg for x in (a.vararg, a.kwarg) if x]
        pathlib.Path(__file__).with_name('pinned_signatures.json').write_text(json.dumps(table, indent=0, sort_keys=True))
        print(len(table), 'signatures pinned')
        locs = {}
        for f in m.all_funcs():
            node = f.orig if getattr(f, 'orig', None) is not None else f.node
            names = ordered_locals(node)
            if names:
                locs[f.key] = names
        pathlib.Path(__file__).with_name('pinned_locals.json').write_text(json.dumps(locs, indent=0, sort_keys=True))
        print(len(locs), 'local-name lists pinned')
        shapes = {f.key: function_shape(f.orig if getattr(f, 'orig', None) is not None else f.node) for f in m.all_funcs()}
        pathlib.Path(__file__).with_name('pinned_shape.json').write_text(json.dumps(shapes, indent=0, sort_keys=True))
        print(len(shapes), 'function shapes pinned')
