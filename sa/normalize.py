"""Semantics-preserving normalisation of function bodies before the rules look at them.

The rules were written against the idioms of the pinned tree; maintainers rewrite code in equivalent ways.  These
transformations map common equivalent spellings onto one form, so that a behaviour-preserving refactoring is neither
reported nor "unrecognised".  Every transformation is an identity of Python semantics for the constructs it matches
(stated per transformation); anything it does not match is left alone.

T1  ``return a if c else b``                       ->  ``if c: return a`` ; ``return b``
T2  ``if c: x = a  [elif ...] else: x = b`` ; ``return x``   (x a plain local, each leaf ends in ``x = ...``)
                                                    ->  returns pushed into the branches
T3  ``x = list(<e>)`` ; ``x.sort(key=K)``          ->  ``x = sorted(<e>, key=K)``      (adjacent statements, x a local name)
T4  ``f = A if c else B`` ; ``f(args)``            ->  ``if c: A(args)`` ``else: B(args)``   (adjacent, f a local used once)
T6  ``if c: ...; return X`` ``else: REST``         ->  ``if c: ...; return X`` ; REST   (if-body never falls through)
T5  call of a *new* private helper (a ``_name`` function of the same module / class that does not exist on the pinned
    tree) as a whole statement, as the returned value, or as the right-hand side of a plain assignment
                                                    ->  the helper's body, parameters substituted (arguments that are not
        plain names/attribute chains/constants are first bound to fresh locals in call order, as Python evaluates them).
"""

import ast
import copy

from .astutil import chain, stmts, names_loaded

# private helpers that exist on the pinned tree: rules anchor on them, they are never inlined
# nested functions that exist on the pinned tree (anchors of rules): never inlined
PINNED_NESTED = {'prime', 'double', 'doubleprime', '_make_set', 'itersection', 'iterlines', 'get_prop'}

PINNED_PRIVATE = {
    '_fromargs', '_pair_with', '_lattice', '_neighbors', '_minimal', '_minimize', '_make_set', '_fromlist', '_init',
    '_annotate', '_make_mapping', '_tolist', '_eq', '_longlex', '_shortlex', '_call_json', '_get_fileobj', '_from_pair',
    '__init__', '__new__',
}

_counter = [0]


def fresh(prefix):
    _counter[0] += 1
    return f'__{prefix}{_counter[0]}'


def terminates(body):
    return bool(body) and isinstance(body[-1], (ast.Return, ast.Raise, ast.Continue, ast.Break))


# ------------------------------------------------------------------------------------------------- T1, T2, T3, T4

def t1_ifexp_return(body):
    out = []
    for s in body:
        if isinstance(s, ast.Return) and isinstance(s.value, ast.IfExp):
            v = s.value
            a = ast.Return(value=v.body)
            b = ast.Return(value=v.orelse)
            ast.copy_location(a, s)
            ast.copy_location(b, s)
            node = ast.If(test=v.test, body=[a], orelse=[])
            ast.copy_location(node, s)
            out += [node, b]
        else:
            out.append(s)
    return out


def _leaf_blocks(node):
    """Leaf statement lists of an if/elif/else chain; None if some branch has no else."""
    if not node.orelse:
        return None
    blocks = [node.body]
    if len(node.orelse) == 1 and isinstance(node.orelse[0], ast.If):
        sub = _leaf_blocks(node.orelse[0])
        if sub is None:
            return None
        blocks += sub
    else:
        blocks.append(node.orelse)
    return blocks


def t2_sink_return(body):
    if len(body) >= 2 and isinstance(body[-1], ast.Return) and isinstance(body[-1].value, ast.Name) and isinstance(body[-2], ast.If):
        name = body[-1].value.id
        blocks = _leaf_blocks(body[-2])
        if blocks and all(b and isinstance(b[-1], ast.Assign) and len(b[-1].targets) == 1 and isinstance(b[-1].targets[0], ast.Name)
                          and b[-1].targets[0].id == name for b in blocks):
            # the name must not be read elsewhere in the chain (other than being assigned)
            reads = sum(1 for n in ast.walk(body[-2]) if isinstance(n, ast.Name) and n.id == name and isinstance(n.ctx, ast.Load))
            if reads == 0:
                for b in blocks:
                    r = ast.Return(value=b[-1].value)
                    ast.copy_location(r, b[-1])
                    b[-1] = r
                return body[:-1]
    return body


def t6_hoist_else(body):
    """``if c: <...; return/raise/continue/break> else: REST``  ->  ``if c: <...>`` ; REST   (the else is only reached when c is false
    and the if-body never falls through)."""
    out = []
    for s in body:
        if isinstance(s, ast.If) and s.orelse and _never_falls_through(s.body):
            rest = s.orelse
            s.orelse = []
            out.append(s)
            out += t6_hoist_else(rest)
        else:
            out.append(s)
    return out


def _never_falls_through(body):
    if not body:
        return False
    last = body[-1]
    if isinstance(last, (ast.Return, ast.Raise, ast.Continue, ast.Break)):
        return True
    if isinstance(last, ast.If) and last.orelse:
        return _never_falls_through(last.body) and _never_falls_through(last.orelse)
    return False


def t3_list_sort(body):
    out = []
    i = 0
    while i < len(body):
        s = body[i]
        nxt = body[i + 1] if i + 1 < len(body) else None
        if (isinstance(s, ast.Assign) and len(s.targets) == 1 and isinstance(s.targets[0], ast.Name)
                and isinstance(s.value, ast.Call) and isinstance(s.value.func, ast.Name) and s.value.func.id == 'list'
                and len(s.value.args) == 1 and not s.value.keywords
                and isinstance(nxt, ast.Expr) and isinstance(nxt.value, ast.Call) and isinstance(nxt.value.func, ast.Attribute)
                and nxt.value.func.attr == 'sort' and isinstance(nxt.value.func.value, ast.Name)
                and nxt.value.func.value.id == s.targets[0].id and not nxt.value.args):
            call = ast.Call(func=ast.Name(id='sorted', ctx=ast.Load()), args=[s.value.args[0]], keywords=nxt.value.keywords)
            new = ast.Assign(targets=s.targets, value=call)
            ast.copy_location(new, s)
            ast.copy_location(call, s.value)
            ast.fix_missing_locations(new)
            out.append(new)
            i += 2
            continue
        out.append(s)
        i += 1
    return out


def t4_alias_call(body, all_stmts_src):
    out = []
    i = 0
    while i < len(body):
        s = body[i]
        nxt = body[i + 1] if i + 1 < len(body) else None
        if (isinstance(s, ast.Assign) and len(s.targets) == 1 and isinstance(s.targets[0], ast.Name) and isinstance(s.value, ast.IfExp)
                and isinstance(nxt, ast.Expr) and isinstance(nxt.value, ast.Call) and isinstance(nxt.value.func, ast.Name)
                and nxt.value.func.id == s.targets[0].id
                and all_stmts_src.count(s.targets[0].id) == 2):
            v = s.value
            ca = ast.Expr(value=ast.Call(func=v.body, args=nxt.value.args, keywords=nxt.value.keywords))
            cb = ast.Expr(value=ast.Call(func=v.orelse, args=copy.deepcopy(nxt.value.args), keywords=copy.deepcopy(nxt.value.keywords)))
            node = ast.If(test=v.test, body=[ca], orelse=[cb])
            for n in (ca, cb, node):
                ast.copy_location(n, nxt)
            ast.fix_missing_locations(node)
            out.append(node)
            i += 2
            continue
        out.append(s)
        i += 1
    return out


def transform_blocks(node, fn):
    """Apply ``fn(list_of_statements) -> list`` to every statement list below ``node`` (not into nested defs)."""
    for field in ('body', 'orelse', 'finalbody'):
        sub = getattr(node, field, None)
        if isinstance(sub, list) and sub and isinstance(sub[0], ast.stmt):
            for s in sub:
                if not isinstance(s, (ast.FunctionDef, ast.AsyncFunctionDef, ast.ClassDef)):
                    transform_blocks(s, fn)
            setattr(node, field, fn(sub))
    for h in getattr(node, 'handlers', []) or []:
        for s in h.body:
            if not isinstance(s, (ast.FunctionDef, ast.AsyncFunctionDef, ast.ClassDef)):
                transform_blocks(s, fn)
        h.body = fn(h.body)


# ---------------------------------------------------------------------------------------------------------- T5

class _Subst(ast.NodeTransformer):
    def __init__(self, mapping):
        self.mapping = mapping

    def visit_Name(self, n):
        if n.id in self.mapping:
            new = copy.deepcopy(self.mapping[n.id])
            if isinstance(new, ast.Name):
                new.ctx = n.ctx
            return ast.copy_location(new, n)
        return n


def _simple(arg):
    return isinstance(arg, (ast.Name, ast.Constant)) or chain(arg) is not None


def resolve_helper(model, func, call):
    """A *new* private helper this call refers to (module function or method of the same class family), or None."""
    f = call.func
    name = None
    bound_self = None
    if isinstance(f, ast.Name):
        name = f.id
        # a *new* nested helper of an enclosing function (a sibling closure)
        cur = func
        while cur is not None:
            for holder in (cur, cur.parent):
                if holder is not None and name in holder.nested and name not in PINNED_NESTED and holder.nested[name] is not func:
                    return holder.nested[name], None
            cur = cur.parent
    elif isinstance(f, ast.Attribute) and isinstance(f.value, ast.Name) and func.params and f.value.id in (func.params[0], 'cls', 'self'):
        name, bound_self = f.attr, f.value
    if not name or not name.startswith('_') or name.startswith('__') or name in PINNED_PRIVATE:
        return None, None
    if bound_self is None:
        target = func.module.funcs.get(name)
        if target is not None and target.cls is None and target.parent is None:
            return target, None
        return None, None
    if func.cls is not None:
        for mod in model.modules.values():
            for c in mod.classes.values():
                if func.cls in model.mro(c):
                    for k in model.mro(c):
                        if name in k.methods:
                            return k.methods[name], bound_self
    return None, None


def inline_call(target, call, bound_self, mode):
    """Statements equivalent to the call.  mode: 'stmt' (value unused), 'return', ('assign', name).  None if not inlinable."""
    node = target.node
    a = node.args
    if a.vararg or a.kwarg or a.kwonlyargs or a.posonlyargs or any(isinstance(x, ast.Starred) for x in call.args) \
            or any(k.arg is None for k in call.keywords):
        return None
    if any(isinstance(n, (ast.Yield, ast.YieldFrom, ast.Global, ast.Nonlocal)) for n in ast.walk(node)):
        return None
    if any(isinstance(n, (ast.FunctionDef, ast.AsyncFunctionDef, ast.ClassDef, ast.Lambda)) for s in node.body for n in ast.walk(s)):
        return None
    params = [x.arg for x in a.args]
    deco = [(chain(d.func if isinstance(d, ast.Call) else d) or [''])[-1] for d in node.decorator_list]
    if any(d not in ('staticmethod', 'classmethod') for d in deco):
        return None      # a decorator (cache, property ...) changes what a call means
    args = list(call.args)
    if bound_self is not None and 'staticmethod' not in deco:
        args = [bound_self] + args
    if len(args) > len(params):
        return None
    binding = dict(zip(params, args))
    for k in call.keywords:
        if k.arg not in params or k.arg in binding:
            return None
        binding[k.arg] = k.value
    defaults = dict(zip(params[len(params) - len(a.defaults):], a.defaults))
    for p_ in params:
        if p_ not in binding:
            if p_ not in defaults:
                return None
            binding[p_] = defaults[p_]
    body = copy.deepcopy(target.body)
    # parameters assigned inside the helper, or non-simple arguments, get a fresh local
    assigned = {n.id for s in body for n in ast.walk(s) if isinstance(n, ast.Name) and isinstance(n.ctx, (ast.Store, ast.Del))}
    pre = []
    mapping = {}
    for p_ in params:
        arg = binding[p_]
        uses = sum(1 for s in body for n in ast.walk(s) if isinstance(n, ast.Name) and n.id == p_)
        if _simple(arg) and p_ not in assigned:
            mapping[p_] = arg
        elif uses <= 1 and p_ not in assigned:
            mapping[p_] = arg      # a non-trivial argument used once: placed at its single use
        else:
            tmp = fresh(p_)
            asg = ast.Assign(targets=[ast.Name(id=tmp, ctx=ast.Store())], value=arg)
            ast.copy_location(asg, call)
            ast.fix_missing_locations(asg)
            pre.append(asg)
            mapping[p_] = ast.Name(id=tmp, ctx=ast.Load())
    # rename the helper's own locals
    for loc in sorted(assigned - set(params)):
        mapping[loc] = ast.Name(id=fresh(loc), ctx=ast.Load())
    body = [_Subst(mapping).visit(s) for s in body]
    rets = [n for s in body for n in ast.walk(s) if isinstance(n, ast.Return)]
    if mode == 'return':
        if not body or not _all_paths_return(body):
            body = body + [ast.copy_location(ast.Return(value=ast.Constant(value=None)), call)]
        return pre + body
    # 'stmt' / assign: only a single trailing return (or none) can be spliced without control-flow surgery
    if any(r is not body[-1] for r in rets):
        return None
    if mode == 'stmt':
        if rets:
            last = ast.Expr(value=body[-1].value) if body[-1].value is not None else ast.Pass()
            body[-1] = ast.copy_location(last, body[-1])
        return pre + body
    if isinstance(mode, tuple) and mode[0] == 'assign':
        value = body[-1].value if rets and body[-1].value is not None else ast.Constant(value=None)
        asg = ast.Assign(targets=[mode[1]], value=value)
        ast.copy_location(asg, call)
        ast.fix_missing_locations(asg)
        return pre + (body[:-1] if rets else body) + [asg]
    return None


def _all_paths_return(body):
    if not body:
        return False
    last = body[-1]
    if isinstance(last, (ast.Return, ast.Raise)):
        return True
    if isinstance(last, ast.If) and last.orelse:
        return _all_paths_return(last.body) and _all_paths_return(last.orelse)
    return False


def t5_inline(model, func, body, depth=0):
    out = []
    for s in body:
        call = mode = None
        if isinstance(s, ast.Expr) and isinstance(s.value, ast.Call):
            call, mode = s.value, 'stmt'
        elif isinstance(s, ast.Return) and isinstance(s.value, ast.Call):
            call, mode = s.value, 'return'
        elif isinstance(s, ast.Assign) and len(s.targets) == 1 and isinstance(s.value, ast.Call):
            call, mode = s.value, ('assign', s.targets[0])
        if call is not None and depth < 3:
            target, bound = resolve_helper(model, func, call)
            if target is not None and target is not func:
                new = inline_call(target, call, bound, mode)
                if new is not None:
                    for n in new:
                        ast.fix_missing_locations(n)
                    out += t5_inline(model, func, new, depth + 1)
                    continue
        out.append(s)
    return out


# ------------------------------------------------------------------------------------------------------ driver

def normalize_function(model, func):
    """Return a normalised deep copy of ``func.node`` (the original is left untouched)."""
    node = copy.deepcopy(func.node)
    holder = ast.Module(body=[node], type_ignores=[])

    def passes(block):
        block = t5_inline(model, func, block)
        block = t3_list_sort(block)
        text = ast.unparse(ast.Module(body=block, type_ignores=[]))
        block = t4_alias_call(block, text)
        block = t1_ifexp_return(block)
        block = t2_sink_return(block)
        block = t6_hoist_else(block)
        return block

    transform_blocks(node, passes)
    ast.fix_missing_locations(holder)
    return node
