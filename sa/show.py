"""Developer tool: print the normalised source of a function, optionally with a patch applied to a scratch copy.

    python -m sa.show definitions.MutableMixin.set_object [--patch /path/patch.diff]
"""
import ast
import pathlib
import shutil
import subprocess
import sys
import tempfile

from .model import Model


def main(argv):
    key = argv[0]
    root = None
    tmp = None
    if '--patch' in argv:
        patch = argv[argv.index('--patch') + 1]
        tmp = pathlib.Path(tempfile.mkdtemp(prefix='sa-show-'))
        shutil.copytree('/repo/concepts', tmp / 'concepts', ignore=shutil.ignore_patterns('__pycache__'))
        subprocess.run(['patch', '-p1', '-s', '-i', patch], cwd=tmp, check=True)
        root = tmp
    try:
        m = Model(root)
        print(ast.unparse(m.func(key).node))
    finally:
        if tmp:
            shutil.rmtree(tmp, ignore_errors=True)


if __name__ == '__main__':
    main(sys.argv[1:])
