"""E6: guard predicates as propositional formulas over canonical atoms, compared by truth table."""

import ast
import itertools

from .astutil import src
from .model import Unrecognised

__all__ = ['Formula', 'compile_formula', 'equivalent', 'atoms_of']


class Formula:
    def __init__(self, fn, atoms, text):
        self.fn = fn          # assignment dict atom -> bool  ->  bool
        self.atoms = atoms    # ordered list of atom keys
        self.text = text

    def __call__(self, env):
        return self.fn(env)


def compile_formula(node, atomizer):
    """``atomizer(node)`` -> (atom_key, polarity) for a leaf test, or None (then: Unrecognised).

    and/or/not and chained comparisons are handled here; everything else must be an atom.
    """
    atoms = []

    def rec(n):
        if isinstance(n, ast.BoolOp):
            parts = [rec(v) for v in n.values]
            if isinstance(n.op, ast.And):
                return lambda env: all(p(env) for p in parts)
            return lambda env: any(p(env) for p in parts)
        if isinstance(n, ast.UnaryOp) and isinstance(n.op, ast.Not):
            p = rec(n.operand)
            return lambda env: not p(env)
        if isinstance(n, ast.Constant) and isinstance(n.value, bool):
            v = n.value
            return lambda env: v
        if isinstance(n, ast.Compare) and len(n.ops) > 1:
            items = [n.left] + list(n.comparators)
            parts = [rec(ast.Compare(left=l, ops=[op], comparators=[r]))
                     for l, op, r in zip(items, n.ops, items[1:])]
            return lambda env: all(p(env) for p in parts)
        a = atomizer(n)
        if a is None:
            raise Unrecognised(f'guard atom not in the idiom table: {src(n)}', node=n)
        key, pol = a
        if key not in atoms:
            atoms.append(key)
        return (lambda env: env[key]) if pol else (lambda env: not env[key])

    fn = rec(node)
    return Formula(fn, atoms, src(node))


def equivalent(formula, spec_fn, spec_atoms, constraint=None):
    """Compare on all assignments of the union of atoms; returns None or a differing assignment."""
    atoms = list(dict.fromkeys(list(formula.atoms) + list(spec_atoms)))
    for bits in itertools.product((False, True), repeat=len(atoms)):
        env = dict(zip(atoms, bits))
        if constraint is not None and not constraint(env):
            continue
        if bool(formula(env)) != bool(spec_fn(env)):
            return env
    return None


def atoms_of(formula):
    return list(formula.atoms)
