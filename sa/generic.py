"""E10 generic rules, run by every property over the modules its anchors name.

UNDEFINED-NAME      a name loaded in a function that no scope binds (NameError on that path - typically a rarely
                    taken path the tests never reach); names injected into ``junctors`` by RelationMeta are computed
                    from the decoded docstring tables, not whitelisted by hand.
DEGENERATE-OPERAND  identical pure operands of a comparison / set operator / augmented assignment
                    (``self.x == self.x``, ``left._objects & left._objects``, ``f &= f``).
"""

import ast
import builtins
import json

from .astutil import chain, src, walk, stmts, Env
from .report import VERIF

BUILTINS = set(dir(builtins))


def anchor_modules(model, prop):
    """Module names (relative to the package) listed in the property's anchors."""
    for line in (VERIF / 'properties.jsonl').read_text().splitlines():
        p = json.loads(line)
        if p['id'] == prop:
            out = []
            for f in p['anchors']['files']:
                if f.startswith('concepts/') and f.endswith('.py'):
                    name = f[len('concepts/'):-3].replace('/', '.')
                    if name.endswith('.__init__'):
                        name = name[:-len('.__init__')]
                    if name in model.modules:
                        out.append(name)
            return out
    return []


def injected_names(model):
    """Class names RelationMeta.__init__ injects into junctors' globals (row names of the docstring tables)."""
    names = set()
    mod = model.modules.get('junctors')
    if mod is None:
        return names
    for cname in ('Unary', 'Binary'):
        cls = mod.classes.get(cname)
        if cls is None or not cls.docstring:
            continue
        table = cls.docstring.strip().partition('\n\n')[2].strip().splitlines()
        for l in table[1:]:
            parts = l.strip().strip('|').partition('|')[0].split()
            if parts:
                names.add(parts[0])
    return names


def bound_in(node):
    """Names bound anywhere inside a function/class/module body (not descending into nested function bodies)."""
    out = set()
    todo = list(ast.iter_child_nodes(node))
    while todo:
        n = todo.pop()
        if isinstance(n, (ast.FunctionDef, ast.AsyncFunctionDef, ast.ClassDef)):
            out.add(n.name)
            # decorators / defaults are evaluated in this scope but bind nothing
            continue
        if isinstance(n, ast.Lambda):
            continue
        if isinstance(n, ast.Name) and isinstance(n.ctx, (ast.Store, ast.Del)):
            out.add(n.id)
        elif isinstance(n, (ast.Import, ast.ImportFrom)):
            for a in n.names:
                out.add((a.asname or a.name).split('.')[0])
        elif isinstance(n, ast.ExceptHandler) and n.name:
            out.add(n.name)
        elif isinstance(n, (ast.Global, ast.Nonlocal)):
            out.update(n.names)
        todo.extend(ast.iter_child_nodes(n))
    return out


def params_of(fn):
    a = fn.args
    names = [x.arg for x in a.posonlyargs + a.args + a.kwonlyargs]
    if a.vararg:
        names.append(a.vararg.arg)
    if a.kwarg:
        names.append(a.kwarg.arg)
    return set(names)


def undefined_names(model, R, scope):
    injected = injected_names(model)
    n_funcs = 0
    cache = {}
    for func in scope:
        mod = func.module
        if mod.name not in cache:
            names = bound_in(mod.tree) | BUILTINS | {'__name__', '__file__', '__doc__', '__all__', '__class__'}
            if mod.name == 'junctors':
                names |= injected
            cache[mod.name] = names
        module_names = cache[mod.name]
        if True:
            n_funcs += 1
            scopes = set(module_names)
            cur = func
            chain_funcs = []
            while cur is not None:
                chain_funcs.append(cur)
                cur = cur.parent
            for f in chain_funcs:
                scopes |= params_of(f.node) | bound_in(f.node)
            bad = []
            # loads in the body, including lambdas and comprehensions (their targets are in bound_in via Store ctx)
            for node in ast.walk(func.node):
                if isinstance(node, (ast.FunctionDef, ast.AsyncFunctionDef)) and node is not func.node:
                    continue
                if isinstance(node, ast.Lambda):
                    scopes |= params_of(node)
            nested_nodes = set()
            for sub in ast.walk(func.node):
                if isinstance(sub, (ast.FunctionDef, ast.AsyncFunctionDef)) and sub is not func.node:
                    for x in ast.walk(sub):
                        if x is not sub:
                            nested_nodes.add(x)
            for node in ast.walk(func.node):
                if node in nested_nodes:
                    continue
                if isinstance(node, ast.Name) and isinstance(node.ctx, ast.Load) and node.id not in scopes:
                    bad.append(node)
            for node in bad:
                R.bad('UNDEFINED-NAME', func, node, f'name {node.id} is bound in some enclosing scope', 'a bound name',
                      f'{node.id} is not defined anywhere (NameError when this path runs)')
    R.ok('UNDEFINED-NAME', 'examined functions', 'concepts/', f'{n_funcs} functions scanned')


def degenerate_operands(model, R, scope):
    n = 0
    for func in scope:
        if True:
            for node in walk(func.body):
                pairs = []
                if isinstance(node, ast.Compare) and len(node.ops) == 1 and isinstance(node.ops[0], (ast.Eq, ast.NotEq, ast.Lt, ast.Gt, ast.LtE, ast.GtE)):
                    pairs.append((node.left, node.comparators[0]))
                elif isinstance(node, ast.BinOp) and isinstance(node.op, (ast.BitAnd, ast.BitOr, ast.BitXor, ast.Sub)):
                    pairs.append((node.left, node.right))
                elif isinstance(node, ast.AugAssign) and isinstance(node.op, (ast.BitAnd, ast.BitOr, ast.BitXor, ast.Sub)):
                    pairs.append((node.target, node.value))
                for l, r in pairs:
                    cl, cr = chain(l), chain(r)
                    if cl and cr:
                        n += 1
                        if cl == cr and len(cl) >= 1 and not (len(cl) == 1 and isinstance(node, ast.BinOp)):
                            R.bad('DEGENERATE-OPERAND', func, node, 'two different operands', 'distinct operands',
                                  f'{src(node)[:70]} combines an operand with itself')
    R.ok('DEGENERATE-OPERAND', 'examined functions', 'concepts/', f'{n} operand pairs scanned')


def empty_reduce(model, R, scope):
    """max()/min() of one possibly-empty iterable without default=, outside try/except ValueError."""
    n = 0
    for func in scope:
        if True:
            parents = {}
            for x in ast.walk(func.node):
                for c in ast.iter_child_nodes(x):
                    parents[c] = x
            for node in walk(func.body):
                if not (isinstance(node, ast.Call) and isinstance(node.func, ast.Name) and node.func.id in ('max', 'min') and len(node.args) == 1):
                    continue
                n += 1
                if any(k.arg == 'default' for k in node.keywords):
                    continue
                arg = node.args[0]
                if isinstance(arg, (ast.List, ast.Tuple, ast.Set)) and arg.elts and not any(isinstance(e, ast.Starred) for e in arg.elts):
                    continue
                guarded, cur = False, node
                argname = arg.id if isinstance(arg, ast.Name) else None

                def truthy_test(t):
                    # ``x`` / ``len(x)`` / ``len(x) > 0`` of the reduced collection
                    if isinstance(t, ast.Compare) and len(t.ops) == 1 and isinstance(t.ops[0], (ast.Gt, ast.NotEq, ast.GtE)):
                        t = t.left
                    if isinstance(t, ast.Call) and isinstance(t.func, ast.Name) and t.func.id == 'len' and t.args:
                        t = t.args[0]
                    return argname is not None and isinstance(t, ast.Name) and t.id == argname
                while cur in parents:
                    par = parents[cur]
                    if isinstance(par, ast.Try) and cur in par.body and any(
                            h.type is None or any(x in src(h.type) for x in ('ValueError', 'Exception')) for h in par.handlers):
                        guarded = True
                    if isinstance(par, ast.BoolOp) and isinstance(par.op, ast.And) and cur in par.values:
                        if any(truthy_test(v) for v in par.values[:par.values.index(cur)]):
                            guarded = True
                    if isinstance(par, (ast.If, ast.IfExp)) and truthy_test(par.test) and (cur in par.body if isinstance(par, ast.If) else cur is par.body):
                        guarded = True
                    cur = par
                if not guarded:
                    R.bad('EMPTY-REDUCE', func, node, f'{node.func.id}() of a possibly empty iterable has a default', 'default=... or a ValueError handler',
                          f'{src(node)[:80]} raises ValueError for an empty collection (an empty row / nothing to list is valid input)')
    R.ok('EMPTY-REDUCE', 'examined functions', 'concepts/', f'{n} max()/min() reductions scanned')


def lazy_generator(model, R, scope):
    """A cached attribute (lazyproperty / functools.cache*) must not hold a one-shot iterator: every later reader gets
    the exhausted remainder."""
    n = 0
    gens = {f.key for f in model.all_funcs() if any(isinstance(x, (ast.Yield, ast.YieldFrom)) for x in walk(f.body))}
    for func in scope:
        deco = [(chain(d.func if isinstance(d, ast.Call) else d) or [''])[-1] for d in func.node.decorator_list]
        if not any(d in ('lazyproperty', 'cached_property', 'lru_cache', 'cache') for d in deco):
            continue
        n += 1
        if func.key in gens:
            R.bad('LAZY-GENERATOR', func, func.node, 'a cached value is not a one-shot iterator', 'no caching of a generator function',
                  f'generator function {func.name} is cached by @{deco[0]}: the cache stores the generator, the first caller exhausts it and '
                  'every later caller with the same arguments sees nothing')
            continue
        for node in walk(func.body):
            if isinstance(node, ast.Return) and node.value is not None:
                v = node.value
                one_shot = isinstance(v, ast.GeneratorExp)
                if isinstance(v, ast.Call):
                    name = (chain(v.func) or [''])[-1]
                    if name in ('iter', 'map', 'filter', 'zip', 'enumerate', 'reversed'):
                        one_shot = True
                    for g in gens:
                        if g.split('.')[-1] == name:
                            one_shot = True
                if one_shot:
                    R.bad('LAZY-GENERATOR', func, node, 'a cached value is not a one-shot iterator', 'a materialised value (tuple/list) or no caching',
                          f'{src(v)[:80]} is cached by @{deco[0]}: the second reader sees an exhausted iterator')
    R.ok('LAZY-GENERATOR', 'examined functions', 'concepts/', f'{n} cached functions scanned')


def mutate_while_iterating(model, R, scope):
    """``for x in C: ... C.remove(x)`` (also insert/append/pop/discard/add on the very collection being iterated): list-backed
    collections skip the element after each removal, sets raise RuntimeError."""
    n = 0
    for func in scope:
        for loop in walk(func.body):
            if not isinstance(loop, (ast.For, ast.AsyncFor)):
                continue
            it = loop.iter
            key = '.'.join(chain(it)) if chain(it) else None
            if key is None:
                continue
            n += 1
            for node in walk(loop.body):
                if (isinstance(node, ast.Call) and isinstance(node.func, ast.Attribute)
                        and node.func.attr in ('remove', 'discard', 'pop', 'insert', 'append', 'add', 'clear', 'extend', 'move', 'replace')
                        and chain(node.func.value) and '.'.join(chain(node.func.value)) == key):
                    R.bad('MUTATE-WHILE-ITERATING', func, node, f'{key} is not modified while it is iterated', f'iterate over a copy (list({key}))',
                          f'for ... in {key}: ... {src(node)[:60]}',
                          extra={'consequence': 'after each removal the next element is skipped (list-backed) or RuntimeError is raised (set)'})
    R.ok('MUTATE-WHILE-ITERATING', 'examined functions', 'concepts/', f'{n} loops over named collections scanned')


# -- ONE-SHOT: typestate of parameters that may be one-shot iterators ------------------------------------------------------
def lazy_callsite_params(model, func):
    """Parameters of ``func`` that some call site in the package feeds with a lazily produced sequence (generator
    expression, map/zip/filter/...): matched by the callee's (class) name and argument position/keyword."""
    name = func.cls.name if (func.cls is not None and func.name == '__init__') else func.name
    params = [p for p in func.params]
    if func.cls is not None and params:
        params = params[1:]
    out = {}
    for g in model.all_funcs():
        for node in ast.walk(g.node):
            if not isinstance(node, ast.Call) or (chain(node.func) or [''])[-1] != name:
                continue
            ch = chain(node.func)
            if func.cls is None or func.name == '__init__':
                if not (len(ch) == 1 or (len(ch) == 2 and ch[0] in model.modules) or (len(ch) == 2 and ch[0].lstrip('_') in model.modules)):
                    continue
            elif not (len(ch) == 2 and g.params and ch[0] == g.params[0] and g.cls is not None):
                continue
            bound = list(zip(params, node.args)) + [(k.arg, k.value) for k in node.keywords if k.arg in params]
            for param, arg in bound:
                if isinstance(arg, ast.GeneratorExp) or (isinstance(arg, ast.Call) and (chain(arg.func) or [''])[-1] in LAZY):
                    out.setdefault(param, f'{g.key}:{node.lineno} passes {src(arg)[:50]}')
    return out


#: confirmed by reading: (function, parameter) -> reason the rule does not apply
ONE_SHOT_EXCEPT = {
    ('contexts.PrimeMixin.__getitem__', 'items'):
        'documented objects-then-properties fallback re-reads the key after KeyError; C02 quantifies over collections, not iterators',
}
NON_CONSUMING = ('isinstance', 'callable', 'type', 'id', 'bool', 'len', 'hasattr', 'repr', 'iter')
LAZY = ('map', 'filter', 'zip', 'iter', 'enumerate', 'chain', 'reversed', 'islice', 'starmap')


class _OneShot:
    """Count, over every path of a function, how often a tracked name is read (= may be consumed).  ``if`` arms are
    alternatives, a ``try`` handler continues from the end of the body, a read inside a loop body or a comprehension
    element counts twice.  Rebinding the name ends tracking; a lazily evaluated expression over a tracked name makes the
    bound name tracked as well."""

    def __init__(self, names):
        self.count = {n: 0 for n in names}
        self.where = {n: [] for n in names}
        self.worst = {}

    def snapshot(self):
        return dict(self.count), {k: list(v) for k, v in self.where.items()}

    def restore(self, snap):
        self.count, self.where = dict(snap[0]), {k: list(v) for k, v in snap[1].items()}

    def merge(self, snaps):
        live = [s for s in snaps if s is not None]
        if not live:
            return None
        count, where = {}, {}
        for c, w in live:
            for k, v in c.items():
                if v >= count.get(k, -1):
                    count[k], where[k] = v, w[k]
        return count, where

    def use(self, name, node, weight=1):
        if name in self.count and name in self.where:
            self.count[name] += weight
            self.where[name].append(node)
            if self.count[name] > self.worst.get(name, (0, None))[0]:
                self.worst[name] = (self.count[name], list(self.where[name]))

    def expr(self, node, weight=1):
        if node is None:
            return
        if isinstance(node, ast.Name):
            if isinstance(node.ctx, ast.Load):
                self.use(node.id, node, weight)
            return
        if isinstance(node, ast.Compare) and len(node.ops) == 1 and isinstance(node.ops[0], (ast.Is, ast.IsNot)):
            return
        if isinstance(node, ast.Call):
            name = (chain(node.func) or [''])[-1]
            if name == 'len' and isinstance(node.func, ast.Name) and len(node.args) == 1 and isinstance(node.args[0], ast.Name):
                # len() raises TypeError on an iterator: past this point the value is a sized container
                self.count.pop(node.args[0].id, None)
                self.where.pop(node.args[0].id, None)
                return
            if name in NON_CONSUMING and isinstance(node.func, ast.Name):
                return
        if isinstance(node, ast.UnaryOp) and isinstance(node.op, ast.Not) and isinstance(node.operand, ast.Name):
            return
        if isinstance(node, (ast.ListComp, ast.SetComp, ast.GeneratorExp, ast.DictComp)):
            gens = node.generators
            self.expr(gens[0].iter, weight)
            inner = 2 * weight
            for g in gens[1:]:
                self.expr(g.iter, inner)
            for g in gens:
                for c in g.ifs:
                    self.expr(c, inner)
            for part in ([node.key, node.value] if isinstance(node, ast.DictComp) else [node.elt]):
                self.expr(part, inner)
            return
        if isinstance(node, ast.Lambda):
            self.expr(node.body, weight)
            return
        for child in ast.iter_child_nodes(node):
            if isinstance(child, ast.expr_context) or isinstance(child, ast.operator):
                continue
            if isinstance(child, (ast.expr, ast.keyword, ast.comprehension, ast.Starred, ast.FormattedValue, ast.JoinedStr)):
                self.expr(child.value if isinstance(child, ast.keyword) else child, weight)

    def lazy_over(self, value):
        if isinstance(value, ast.GeneratorExp):
            return [n.id for n in ast.walk(value.generators[0].iter) if isinstance(n, ast.Name) and n.id in self.count]
        if isinstance(value, ast.Call) and (chain(value.func) or [''])[-1] in LAZY:
            return [a.id for a in value.args if isinstance(a, ast.Name) and a.id in self.count]
        return []

    def bind(self, target, value):
        for n in ast.walk(target):
            if isinstance(n, ast.Name) and isinstance(n.ctx, ast.Store):
                if isinstance(target, ast.Name) and value is not None and self.lazy_over(value):
                    self.count[n.id] = 0
                    self.where[n.id] = []
                elif n.id in self.count:
                    del self.count[n.id]
                    self.where.pop(n.id, None)

    def block(self, body, weight=1):
        """Returns False when every path through ``body`` left the function."""
        for st in body:
            if not self.stmt(st, weight):
                return False
        return True

    def stmt(self, st, weight):
        if isinstance(st, (ast.FunctionDef, ast.AsyncFunctionDef, ast.ClassDef)):
            for n in ast.walk(st):
                if isinstance(n, ast.Name) and isinstance(n.ctx, ast.Load):
                    self.use(n.id, n, weight)
            return True
        if isinstance(st, (ast.Return, ast.Raise)):
            self.expr(getattr(st, 'value', None) or getattr(st, 'exc', None), weight)
            return False
        if isinstance(st, (ast.Continue, ast.Break)):
            return True
        if isinstance(st, ast.Assign):
            lazy = self.lazy_over(st.value)
            self.expr(st.value, weight)
            for t in st.targets:
                self.bind(t, st.value)
            return True
        if isinstance(st, (ast.AnnAssign, ast.AugAssign)):
            self.expr(st.value, weight)
            if isinstance(st, ast.AnnAssign):
                self.bind(st.target, st.value)
            return True
        if isinstance(st, ast.If):
            self.expr(st.test, weight)
            start = self.snapshot()
            a = self.snapshot() if self.block(st.body, weight) else None
            self.restore(start)
            b = self.snapshot() if self.block(st.orelse, weight) else None
            m = self.merge([a, b])
            if m is None:
                return False
            self.restore(m)
            return True
        if isinstance(st, (ast.For, ast.AsyncFor, ast.While)):
            self.expr(st.iter if not isinstance(st, ast.While) else st.test, weight)
            if not isinstance(st, ast.While):
                self.bind(st.target, None)
            start = self.snapshot()
            self.block(st.body, 2 * weight)
            after = self.snapshot()
            self.restore(self.merge([start, after]))
            self.block(st.orelse, weight)
            return True
        if isinstance(st, ast.Try):
            before_body = self.snapshot()
            alive = self.block(st.body, weight)
            after_body = self.snapshot()
            outs = []
            if alive:
                ok = self.block(st.orelse, weight)
                outs.append(self.snapshot() if ok else None)
            for h in st.handlers:
                self.restore(after_body)
                for nm_ in getattr(self, 'handler_alternative', ()):
                    # reads inside the try body do not count on the path through this handler
                    if nm_ in self.count and nm_ in before_body[0]:
                        self.count[nm_] = before_body[0][nm_]
                        self.where[nm_] = list(before_body[1].get(nm_, []))
                outs.append(self.snapshot() if self.block(h.body, weight) else None)
            m = self.merge(outs)
            if m is None:
                return self.block(st.finalbody, weight) and False
            self.restore(m)
            return self.block(st.finalbody, weight)
        if isinstance(st, (ast.With, ast.AsyncWith)):
            for item in st.items:
                self.expr(item.context_expr, weight)
            return self.block(st.body, weight)
        for child in ast.iter_child_nodes(st):
            if isinstance(child, ast.expr):
                self.expr(child, weight)
        return True


def one_shot(model, R, scope):
    """A parameter the signature promises to accept as ``Iterable`` (or that the package itself feeds from a generator)
    is read at most once on every path before it is rebound: a second read of a one-shot iterator sees what the first
    left over (``x in concepts`` followed by a loop over ``concepts`` silently drops the elements up to the match)."""
    n = 0
    for func in scope:
        names = []
        a = func.node.args
        for arg in a.posonlyargs + a.args + a.kwonlyargs:
            ann = arg.annotation
            if isinstance(ann, ast.Constant) and isinstance(ann.value, str):
                try:
                    ann = ast.parse(ann.value, mode='eval').body
                except SyntaxError:
                    ann = None
            outer = ann.value if isinstance(ann, ast.Subscript) else ann
            if outer is not None and (chain(outer) or [''])[-1] in ('Iterable', 'Iterator', 'Generator'):
                names.append(arg.arg)
        fed = lazy_callsite_params(model, func) if func.name not in ('__getitem__', '__call__', '__contains__', '__iter__') else {}
        for extra in fed:
            if extra not in names:
                names.append(extra)
        # documented objects-then-properties fallback of Context.__getitem__: the key is read again only in the KeyError handler -
        # for these parameters the handler is an alternative to the body, not its continuation
        relaxed = {p for p in names if (func.key, p) in ONE_SHOT_EXCEPT}
        if not names:
            continue
        # a str is itself an iterable of (one-character) labels: special-casing it changes what such an argument means
        for node in walk(func.body):
            if (isinstance(node, ast.Call) and isinstance(node.func, ast.Name) and node.func.id == 'isinstance' and len(node.args) == 2
                    and isinstance(node.args[0], ast.Name) and node.args[0].id in names and (chain(node.args[1]) or [''])[-1] in ('str', 'bytes')):
                R.bad('ONE-SHOT', func, node, f'{node.args[0].id}: every iterable of labels is treated alike', 'no special case for str',
                      src(node), extra={'consequence': "a string argument used to be the collection of its characters ('AB' = labels A and B, '' = the empty "
                                                       'collection); it now means one label'})
        st = _OneShot(names)
        st.handler_alternative = relaxed
        st.block(func.body)
        for p in names:
            n += 1
        for name, (cnt, nodes) in sorted(st.worst.items()):
            if cnt >= 2:
                second = nodes[1] if len(nodes) > 1 else nodes[0]
                origin = name if name in names else f'{name} (lazily derived from a parameter)'
                if name in fed:
                    origin += f' [{fed[name]}]'
                R.bad('ONE-SHOT', func, second, f'{origin} is consumed at most once on every path', 'one read, or tuple()/list() first',
                      'read at lines ' + ', '.join(str(getattr(x, 'lineno', '?')) for x in nodes[:4]),
                      extra={'consequence': 'a generator argument is partly or wholly exhausted by the first read; the second read sees the rest'})
    R.ok('ONE-SHOT', 'examined functions', 'concepts/', f'{n} iterable parameters tracked')


# -- UNUSED-PARAMETER ---------------------------------------------------------------------------------------------------
#: confirmed by reading on today's tree: parameters that are deliberately not read (protocol slots, abstract methods)
UNUSED_OK = {
    ('formats.base.FormatMeta.__init__', 'bases'): 'metaclass protocol',
    ('junctors.RelationMeta.__init__', 'bases'): 'metaclass protocol',
    ('formats.base.FormatMeta.infer_format', 'frmat'): 'kept for call compatibility, inference uses the filename only',
    ('formats.base.Format.loadf', 'file'): 'abstract method', ('formats.base.Format.loadf', 'kwargs'): 'abstract method',
    ('formats.base.Format.dumpf', 'file'): 'abstract method', ('formats.base.Format.dumpf', 'objects'): 'abstract method',
    ('formats.base.Format.dumpf', 'properties'): 'abstract method', ('formats.base.Format.dumpf', 'bools'): 'abstract method',
    ('formats.base.Format.dumpf', '_serialized'): 'abstract method', ('formats.base.Format.dumpf', 'kwargs'): 'abstract method',
    ('formats.csv_context.Csv.dumpf', '_serialized'): 'uniform dumper signature; only python-literal uses the dict form',
    ('formats.cxt.Cxt.dumpf', '_serialized'): 'uniform dumper signature', ('formats.table.dump_file', '_serialized'): 'uniform dumper signature',
    ('formats.wiki_table.dump_file', '_serialized'): 'uniform dumper signature', ('formats.fimi.dump_file', '_serialized'): 'uniform dumper signature',
    ('formats.fimi.dump_file', 'objects'): 'FIMI rows carry no labels', ('formats.fimi.dump_file', 'properties'): 'FIMI rows carry no labels',
    ('tools.lazyproperty.__get__', 'owner'): 'descriptor protocol',
    ('tools.write_csv', 'dialect'): 'not on any path of a claimed property (write_csv_file is what the csv format uses)',
}


def unused_parameters(model, R, scope):
    """A named parameter that the function never reads: whatever the caller passes is silently dropped (typically a flag
    that should have been forwarded to the function doing the work).  Judged on the source as written."""
    n = 0
    for func in scope:
        node = func.orig if getattr(func, 'orig', None) is not None else func.node
        a = node.args
        names = [x.arg for x in a.posonlyargs + a.args + a.kwonlyargs] + [x.arg for x in (a.vararg, a.kwarg) if x]
        if func.cls is not None and names and not any((chain(d) or [''])[-1] == 'staticmethod' for d in node.decorator_list):
            names = names[1:]
        if func.name.startswith('__') and func.name.endswith('__'):
            # protocol methods receive what the protocol dictates (metaclass __init__(name, bases, dct), __get__(obj, owner),
            # __exit__(*exc) ...): only the constructors of ordinary classes have parameters of their own choosing
            meta = func.cls is not None and any((chain(b) or [''])[-1] == 'type' for b in func.cls.node.bases)
            if meta or func.name not in ('__init__', '__new__', '__call__'):
                continue
        body_is_stub = all(isinstance(st, (ast.Pass, ast.Raise)) or (isinstance(st, ast.Expr) and isinstance(st.value, ast.Constant)) for st in node.body)
        used = {x.id for x in ast.walk(node) if isinstance(x, ast.Name)}
        for name in names:
            n += 1
            if name in used or name.startswith('_') and name != '_serialized' or body_is_stub or (func.key, name) in UNUSED_OK:
                continue
            R.bad('UNUSED-PARAMETER', func, node, f'parameter {name} is read somewhere in {func.name}', f'{name} used or forwarded',
                  f'{name} is accepted and never read', extra={'consequence': f'the value the caller passes for {name} has no effect'})
    R.ok('UNUSED-PARAMETER', 'examined functions', 'concepts/', f'{n} parameters scanned')


def id_keyed(model, R, scope):
    """``id(x)`` used as a mapping key or set member: the address is only unique among objects that are alive at the same time,
    so an entry outlives its object and is found again for a *different* object created at the same address."""
    n = 0
    for func in scope:
        if func.name == '__repr__':
            continue
        parents = {}
        for x in ast.walk(func.node):
            for c in ast.iter_child_nodes(x):
                parents[c] = x
        for node in walk(func.body):
            if not (isinstance(node, ast.Call) and isinstance(node.func, ast.Name) and node.func.id == 'id' and len(node.args) == 1):
                continue
            n += 1
            names = set()
            par = parents.get(node)
            keyed = isinstance(par, ast.Subscript) and par.slice is node
            if isinstance(par, ast.Assign) and len(par.targets) == 1 and isinstance(par.targets[0], ast.Name):
                names.add(par.targets[0].id)
            if isinstance(par, ast.Call) and isinstance(par.func, ast.Attribute) and par.func.attr in ('get', 'setdefault', 'pop', 'add', '__contains__', '__getitem__'):
                keyed = True
            if names:
                for x in walk(func.body):
                    if isinstance(x, ast.Subscript) and isinstance(x.slice, ast.Name) and x.slice.id in names:
                        keyed = True
                    if isinstance(x, ast.Compare) and isinstance(x.ops[0], (ast.In, ast.NotIn)) and isinstance(x.left, ast.Name) and x.left.id in names:
                        keyed = True
                    if (isinstance(x, ast.Call) and isinstance(x.func, ast.Attribute) and x.func.attr in ('get', 'setdefault', 'pop', 'add')
                            and x.args and isinstance(x.args[0], ast.Name) and x.args[0].id in names):
                        keyed = True
            if keyed:
                R.bad('ID-KEY', func, node, 'no table is keyed by the address of an object', 'a key derived from the value (or a weak reference)', src(par)[:80],
                      extra={'consequence': 'after the object is freed a new object can get the same id(): the stale entry is returned for it'})
    R.ok('ID-KEY', 'examined functions', 'concepts/', f'{n} id() calls scanned')


def mask_sum(model, R, scope):
    """``sum(map(<BitSet>._map.__getitem__, labels))``: the library's way to turn labels into a bit vector adds the members'
    masks, which is only the union when every member occurs once - the collection must be de-duplicated (``set(labels)``)
    first.  (bitsets' own frommembers does exactly that.)"""
    from .astutil import Env
    n = 0
    for func in scope:
        env = None
        for node in walk(func.body):
            if not (isinstance(node, ast.Call) and isinstance(node.func, ast.Name) and node.func.id == 'sum' and len(node.args) >= 1):
                continue
            arg = node.args[0]
            if isinstance(arg, ast.Name):
                env = env or Env(func)
                arg = env.expand(arg)
            coll = None
            if isinstance(arg, ast.Call) and isinstance(arg.func, ast.Name) and arg.func.id == 'map' and len(arg.args) == 2:
                c = chain(arg.args[0])
                if c and len(c) >= 2 and c[-1] == '__getitem__' and c[-2] == '_map':
                    coll = arg.args[1]
            elif isinstance(arg, ast.GeneratorExp) and len(arg.generators) == 1 and isinstance(arg.elt, ast.Subscript):
                c = chain(arg.elt.value)
                if c and c[-1] == '_map':
                    coll = arg.generators[0].iter
            if coll is None:
                continue
            n += 1
            if isinstance(coll, ast.Name):
                env = env or Env(func)
                coll = env.expand(coll)
            dedup = isinstance(coll, (ast.Set, ast.SetComp)) or (isinstance(coll, ast.Call) and isinstance(coll.func, ast.Name) and coll.func.id in ('set', 'frozenset'))
            R.decided(dedup, 'MASK-SUM', func, node, 'member masks are added only for distinct members', 'sum(map(cls._map.__getitem__, set(members)))',
                      src(node)[:90], extra={'consequence': 'a label given twice contributes its bit twice: the sum carries into another position '
                                                             '(a different member, or beyond the table)'} if not dedup else None)
    R.ok('MASK-SUM', 'examined functions', 'concepts/', f'{n} mask sums scanned')


CACHE_DECORATORS = ('lazyproperty', 'cached_property', 'lru_cache', 'cache')
MUTABLE_MAKERS = ('list', 'dict', 'set', 'sorted', 'bools', 'copy', 'deepcopy', 'defaultdict', 'OrderedDict')


def _mutable_value(v):
    if isinstance(v, (ast.List, ast.Dict, ast.Set, ast.ListComp, ast.DictComp, ast.SetComp)):
        return True
    return isinstance(v, ast.Call) and (chain(v.func) or ['?'])[-1] in MUTABLE_MAKERS


def _shared_memo_over_bitsets(model, R, func, node, cur, deco):
    """``lru_cache``/``cache`` on a function that is not bound to one object (classmethod, staticmethod, module function) keeps
    ONE table for the whole process, keyed by the arguments' ``==``/``hash``.  A raw bit set (``x._extent`` / ``x._intent``)
    is an ``int`` subclass that inherits both from ``int`` (axiom about bitsets 0.8.4): the sets of two different contexts
    with the same bit pattern are the same key.  Decided when a call site on the current tree passes such a field as an
    argument and no argument identifies the context; returns False (not judged) otherwise."""
    if func.cls is not None and not ({'classmethod', 'staticmethod'} & set(cur['deco'])):
        return False
    sites = []
    for g in model.all_funcs():
        gnode = g.node
        for c in ast.walk(gnode):
            if isinstance(c, ast.Call) and isinstance(c.func, (ast.Attribute, ast.Name)) and (chain(c.func) or ['?'])[-1] == func.name:
                raw = [a for a in c.args if isinstance(a, ast.Attribute) and a.attr in ('_extent', '_intent')]
                ctx = [a for a in c.args if chain(a) and chain(a)[-1] in ('_context', 'context', 'lattice', 'self')]
                if raw and not ctx:
                    sites.append((g, c, raw))
    if not sites:
        return False
    g, c, raw = sites[0]
    R.bad('NEW-CACHE', func, node, f'{func.name}: one result per context',
          'no process-wide memo keyed by raw bit sets (they compare and hash as plain ints, whatever context they belong to)',
          f'@{deco} added; called with {", ".join(src(a) for a in raw)} at {g.key}:{c.lineno}',
          extra={'consequence': 'a second context whose concept has the same bit patterns gets the value computed for the first one '
                                '(a member of the other context\'s classes, with the other context\'s labels)'})
    return True


def _memo_param(h):
    """Index of the parameter that alone keys a home-made memo table in method ``h`` (``T[p] = <call>`` under try/except or
    a membership test, ``T`` not chosen by ``p``), else None."""
    hnode = h.node
    params = list(h.params)
    env = Env(h)
    for x in ast.walk(hnode):
        if not (isinstance(x, ast.Assign) and isinstance(x.value, ast.Call)):
            continue
        for t in x.targets:
            if isinstance(t, ast.Subscript) and isinstance(t.slice, ast.Name) and t.slice.id in params[1:]:
                table = env.expand(t.value)
                if any(isinstance(n_, ast.Name) and n_.id == t.slice.id for n_ in ast.walk(table)):
                    continue
                guarded = any((isinstance(g, ast.Try) or (isinstance(g, ast.If) and isinstance(g.test, ast.Compare)
                                                         and isinstance(g.test.ops[0], (ast.In, ast.NotIn))))
                              and any(y is x for y in ast.walk(g)) for g in ast.walk(hnode))
                if guarded:
                    return params.index(t.slice.id)
    return None


def _memo_mixing_sorts(R, func, node):
    """A method of the same class that memoises by one bare argument is called from this function with an object set at one
    site and a property set at another: raw bit sets of the two classes with the same bits are equal dictionary keys (axiom
    about bitsets), so one query is answered with the value stored for the other.  Decided from the two-sorted typing of the
    caller (sorts.Sorter); silent when only one sort reaches the memo."""
    if func.cls is None or not func.params:
        return
    from .sorts import Sorter
    self_ = func.params[0]
    by_h = {}
    for c in ast.walk(node):
        if isinstance(c, ast.Call) and isinstance(c.func, ast.Attribute) and isinstance(c.func.value, ast.Name) and c.func.value.id == self_:
            h = func.cls.methods.get(c.func.attr) if hasattr(func.cls, 'methods') else None
            if h is None or h is func:
                continue
            i = _memo_param(h)
            if i is None or i - 1 >= len(c.args) or not isinstance(c.args[i - 1], ast.Name):
                continue
            by_h.setdefault(c.func.attr, []).append((c, c.args[i - 1].id, h))
    if not by_h:
        return
    types = Sorter(func).types
    for hname, sites in by_h.items():
        sorts = {types.get(a) for _, a, _ in sites}
        if {'O', 'P'} <= sorts:
            c_o = next(c for c, a, _ in sites if types.get(a) == 'O')
            c_p = next(c for c, a, _ in sites if types.get(a) == 'P')
            R.bad('CACHE-KEY', func, c_p, f'{hname}: one memo entry per query',
                  'a key that tells an object set from a property set (or one table per class)',
                  f'{hname}() keeps one table keyed by its bare argument; called with an object set (line {c_o.lineno}) and a property set (line {c_p.lineno})',
                  extra={'consequence': 'bit sets of the two classes with the same bit pattern are equal keys: after an object query the property '
                                        'query with the same bits returns the stored pair with its sides swapped (and vice versa)'})


def shape_changes(model, R, scope):
    """Against the frozen table of today's function shapes (pinned_shape.json):
    KIND-CHANGE   a public function became a generator function or stopped being one - its body (argument checks, the
                  snapshot of its arguments) now runs at the first next() instead of at the call, or the other way round;
    NEW-CACHE     a memoising decorator was added, or the function keeps its result in an attribute/table and hands the
                  same object out again: decided when the value is a mutable container (every caller gets - and can edit -
                  the one cached object), otherwise not judged (staleness depends on what the value is derived from);
    NEW-RAISE     the function raises at more places than today: whether the new condition can be met by well-formed input
                  is not judged (exit 2, never silent)."""
    from .normalize import PINNED_SHAPE, function_shape
    n = 0
    for func in scope:
        node = func.orig if getattr(func, 'orig', None) is not None else func.node
        pinned = PINNED_SHAPE.get(func.key)
        cur = function_shape(node)
        n += 1
        public = not func.name.startswith('_') or (func.name.startswith('__') and func.name.endswith('__'))
        rets = [x.value for x in walk(node.body) if isinstance(x, ast.Return) and x.value is not None]
        own_params = [q for q in (func.params[1:] if func.cls is not None else func.params)]
        if pinned is not None and public and func.parent is None and pinned['gen'] != cur['gen'] and not own_params:
            # nothing but self is captured: deferring the body is only observable if the object changes in between - not judged
            R.unknown('KIND-CHANGE', func, node, f'{func.name} stays a {"generator" if pinned["gen"] else "plain"} function',
                      'the function changed between generator and plain function; it takes no arguments whose reading could be deferred')
        elif pinned is not None and public and func.parent is None and pinned['gen'] != cur['gen']:
            R.bad('KIND-CHANGE', func, node, f'{func.name} stays a {"generator" if pinned["gen"] else "plain"} function',
                  'generator function' if pinned['gen'] else 'a function whose body runs at the call',
                  'generator function (body deferred to the first next())' if cur['gen'] else 'plain function',
                  extra={'consequence': 'the arguments are read (and checked) at another time than documented: a collection changed between the call and '
                                        'the iteration, or an error raised only on iteration, behave differently'})
        added = [d for d in cur['deco'] if d in CACHE_DECORATORS and (pinned is None or d not in pinned['deco'])]
        # home-made memo: the function assigns self.<attr> / <table>[...] and returns that very object
        stored = {}
        for x in walk(node.body):
            if isinstance(x, ast.Assign):
                for t in x.targets:
                    if isinstance(t, ast.Attribute) and isinstance(t.value, ast.Name) and func.params and t.value.id == func.params[0]:
                        stored[src(t)] = x.value
                    if isinstance(t, ast.Subscript):
                        stored[src(t)] = x.value
                    if isinstance(t, ast.Name) and len(x.targets) > 1:
                        stored[t.id] = x.value
        handed_out = [r for r in rets if src(r) in stored]
        memo = bool(handed_out) and (pinned is None or func.name not in ('__init__',)) and any(
            isinstance(x, ast.Try) or (isinstance(x, ast.If) and isinstance(x.test, ast.Compare) and isinstance(x.test.ops[0], (ast.In, ast.NotIn, ast.Is, ast.IsNot)))
            for x in walk(node.body))
        # a table filled under "if key not in table" / try-except and keyed by a tuple: the key must name every parameter the cached
        # computation reads
        for x in walk(node.body):
            if not (isinstance(x, ast.Assign) and len(x.targets) == 1 and isinstance(x.targets[0], ast.Subscript) and isinstance(x.value, ast.Call)):
                continue
            keyx = x.targets[0].slice
            env_ = Env(func) if isinstance(keyx, ast.Name) else None
            keyv = env_.expand(keyx) if env_ is not None else keyx
            guarded = any(isinstance(g, ast.If) and isinstance(g.test, ast.Compare) and isinstance(g.test.ops[0], (ast.NotIn, ast.In)) and any(y is x for y in ast.walk(g))
                          for g in walk(node.body)) or any(isinstance(g, ast.Try) and any(y is x for y in ast.walk(g)) for g in walk(node.body))
            if not guarded or not isinstance(keyv, ast.Tuple):
                continue
            params_ = set(func.params[1:] if func.cls is not None else func.params)
            a_ = node.args
            params_ |= {q.arg for q in a_.kwonlyargs} | ({a_.kwarg.arg} if a_.kwarg else set()) | ({a_.vararg.arg} if a_.vararg else set())
            in_key = {n_.id for n_ in ast.walk(keyv) if isinstance(n_, ast.Name)}
            read = {n_.id for n_ in ast.walk(x.value) if isinstance(n_, ast.Name)} & params_
            missing = sorted(read - in_key)
            if missing:
                R.bad('CACHE-KEY', func, x, f'{func.name}: the cache key names every parameter the cached value depends on', 'key including ' + ', '.join(sorted(read)),
                      f'key {src(keyv)[:80]} omits {", ".join(missing)}',
                      extra={'consequence': f'a later call that differs only in {", ".join(missing)} gets the value computed for the earlier call'})
        if added or memo:
            values = rets if added else [stored[src(r)] for r in handed_out]
            what = f'@{added[0]} added' if added else f'result kept in {src(handed_out[0])} and returned again'
            if any(_mutable_value(v) for v in values):
                R.bad('NEW-CACHE', func, node, f'{func.name}: every call returns its own container', 'a fresh list/dict per call (or an immutable value)',
                      f'{what}: the cached container itself is handed to every caller',
                      extra={'consequence': 'a caller that edits the returned container changes what every later call (and the object itself) reports'})
            elif added and added[0] in ('lru_cache', 'cache') and _shared_memo_over_bitsets(model, R, func, node, cur, added[0]):
                pass
            elif pinned is None or added:
                R.unknown('NEW-CACHE', func, node, f'{func.name}: memoisation', f'{what}: whether the value can go stale or be edited is not judged')
        _memo_mixing_sorts(R, func, node)
        if pinned is not None and cur['raises'] > pinned['raises']:
            R.unknown('NEW-RAISE', func, node, f'{func.name}: rejects only what it rejects today',
                      f'{cur["raises"]} raise statements (today: {pinned["raises"]}): whether well-formed input can meet the new condition is not judged')
    R.ok('SHAPE', 'examined functions', 'concepts/', f'{n} function shapes compared with the frozen table')


def signature_order(model, R, scope):
    """Public functions keep the positional order of the parameters they have today (frozen table pinned_signatures.json):
    callers pass them by position.  New parameters may only follow the existing positional ones (or be keyword-only).
    Private helpers (leading underscore) are exempt: their call sites are all in the package and are checked as they are."""
    from .normalize import PINNED_SIGNATURES
    n = 0
    for func in scope:
        if func.parent is not None or (func.name.startswith('_') and not (func.name.startswith('__') and func.name.endswith('__'))):
            continue
        pinned = PINNED_SIGNATURES.get(func.key)
        if pinned is None:
            continue
        node = func.orig if getattr(func, 'orig', None) is not None else func.node
        a = node.args
        now = [x.arg for x in a.posonlyargs + a.args]
        kwonly = {x.arg for x in a.kwonlyargs}
        old_pos = [p for p in pinned if p in now]                 # pinned parameters that are still positional
        n += 1
        kept = [p for p in now if p in pinned]
        reordered = kept != old_pos
        inserted = [p for i, p in enumerate(now) if p not in pinned and any(q in pinned for q in now[i + 1:])]
        if reordered or inserted:
            R.bad('SIGNATURE-ORDER', func, node, f'{func.name}: positional parameters keep their documented order',
                  '(' + ', '.join(p for p in pinned if p not in kwonly) + ')', '(' + ', '.join(now) + ')',
                  extra={'consequence': 'a caller passing arguments by position in the documented order now binds them to other parameters'})
    R.ok('SIGNATURE-ORDER', 'examined functions', 'concepts/', f'{n} public signatures compared with the frozen table')


def bitlength_index(model, R, scope):
    """``seq[x.bit_length() - 1]``: for x == 0 the index is -1, silently the *last* element.  The subscript must sit on a path
    that tests x (truthiness, ``x != 0``, ``x > 0``) or x must be a value that cannot be 0 (``x & -x`` of a tested value)."""
    from .astutil import context_of
    n = 0
    for func in scope:
        for sub in walk(func.body):
            if not isinstance(sub, ast.Subscript):
                continue
            idx = sub.slice
            if not (isinstance(idx, ast.BinOp) and isinstance(idx.op, ast.Sub) and isinstance(idx.right, ast.Constant) and idx.right.value == 1
                    and isinstance(idx.left, ast.Call) and isinstance(idx.left.func, ast.Attribute) and idx.left.func.attr == 'bit_length' and not idx.left.args):
                continue
            n += 1
            x = idx.left.func.value
            # the lowest set bit of b ( b & -b ) is non-zero exactly when b is: test b instead
            xe = Env(func).expand(x) if isinstance(x, ast.Name) else x
            if (isinstance(xe, ast.BinOp) and isinstance(xe.op, ast.BitAnd)
                    and any(isinstance(q, ast.UnaryOp) and isinstance(q.op, ast.USub) and src(q.operand) == src(r_) for q, r_ in ((xe.left, xe.right), (xe.right, xe.left)))):
                x = xe.right if isinstance(xe.left, ast.UnaryOp) else xe.left
            elif not isinstance(x, (ast.Name, ast.Attribute)):
                R.unknown('NEGATIVE-INDEX', func, sub, f'{src(x)[:40]} is known to be non-zero where it is used as a position', 'expression form not judged')
                continue
            ctx = context_of(func.body, sub)
            tested = False
            for c in ctx or []:
                if c[0] in ('if', 'guard', 'while'):
                    t = c[1]
                    pol = c[2] if len(c) > 2 else True
                    inner = t.operand if isinstance(t, ast.UnaryOp) and isinstance(t.op, ast.Not) else t
                    neg = inner is not t
                    if src(inner) == src(x) and (pol != neg):
                        tested = True
                    if isinstance(t, ast.Compare) and src(t.left) == src(x) and pol and isinstance(t.ops[0], (ast.NotEq, ast.Gt)) and const_is(t.comparators[0], 0):
                        tested = True
            R.decided(tested, 'NEGATIVE-INDEX', func, sub, f'{src(x)} is known to be non-zero where {src(sub)[:50]} is evaluated', f'a test of {src(x)} on the path',
                      'no such test' if not tested else '', extra={'consequence': 'for 0 the index is -1: the last element is used silently'} if not tested else None)
    R.ok('NEGATIVE-INDEX', 'examined functions', 'concepts/', f'{n} bit_length()-1 subscripts scanned')


def const_is(node, value):
    return isinstance(node, ast.Constant) and node.value == value and not isinstance(node.value, bool)


def run(model, R):
    """Generic rules over exactly the functions the property's own rules examined (and their nested functions), so a
    defect elsewhere in the same module is reported by the property it belongs to and by no other."""
    funcs = {}
    for key, f in list(R.funcs.items()):
        funcs[key] = f
        todo = list(f.nested.values())
        while todo:
            g = todo.pop()
            funcs[g.key] = g
            todo.extend(g.nested.values())
    if not funcs:
        return
    # one hop along ``self.<name>``: helpers of the same class family that an examined function reads
    for f in list(funcs.values()):
        if f.cls is None or not f.params:
            continue
        me = f.params[0]
        names = {n.attr for n in ast.walk(f.node) if isinstance(n, ast.Attribute) and isinstance(n.value, ast.Name) and n.value.id == me}
        for mod in model.modules.values():
            for c in mod.classes.values():
                if f.cls in model.mro(c):
                    for k in model.mro(c):
                        for name in names:
                            g = k.methods.get(name)
                            if g is not None and g.key not in funcs:
                                funcs[g.key] = g
    scope = sorted(funcs.values(), key=lambda f: f.key)
    undefined_names(model, R, scope)
    degenerate_operands(model, R, scope)
    empty_reduce(model, R, scope)
    lazy_generator(model, R, scope)
    mutate_while_iterating(model, R, scope)
    one_shot(model, R, scope)
    unused_parameters(model, R, scope)
    bitlength_index(model, R, scope)
    signature_order(model, R, scope)
    id_keyed(model, R, scope)
    mask_sum(model, R, scope)
    shape_changes(model, R, scope)
