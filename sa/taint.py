"""E5: order-taint analysis.

Values of static type ``set``/``frozenset`` have a hash-seed dependent iteration order.  Any
ordered view of such a value (``list(s)``, ``for x in s``, ``[.. for x in s]``, ``iter(s)``,
``permutations(s)`` ...) is *tainted*.  A tainted order must not reach an order-sensitive sink
(an ordered collection that is observable: ``Unique(...)``/``Unique |=``, ``join``, string
formatting, ``yield``/``return`` of a public function, ``append`` in a loop ...) unless it passes a
sanitiser (``sorted``, a heap keyed by unique ranks, a commutative reduction, a loop whose body is
commutative).

Kinds: SET (unordered container), TSEQ (ordered view with tainted order), HEAP (list of
``(rank, item)`` tuples that was heapified: pops are clean, direct iteration is tainted).
"""

import ast

from .astutil import chain, src, walk, stmts, targets_of
from .model import Unrecognised

SET, TSEQ, HEAP, ORD = 'SET', 'TSEQ', 'HEAP', 'ORD'   # ORD: an ordered collection whose order is observable (Unique / list field)

SET_FIELDS = {'_pairs', '_seen'}
SET_CTORS = {'set', 'frozenset'}
SET_METHODS_RET_SET = {'copy', 'union', 'intersection', 'difference', 'symmetric_difference'}
NEUTRAL_FUNCS = {'len', 'set', 'frozenset', 'sorted', 'any', 'all', 'bool', 'min', 'max', 'sum', 'isinstance', 'id', 'type'}
NEUTRAL_METHODS = {'add', 'discard', 'remove', 'update', 'isdisjoint', 'issubset', 'issuperset', 'copy', 'clear',
                   'difference_update', 'intersection_update', 'symmetric_difference_update', '__contains__',
                   'union', 'intersection', 'difference', 'symmetric_difference', 'get', 'count', 'index', 'pop'}
# order-preserving transformers: a tainted iterable in -> a tainted iterable out
TRANSFORMERS = {'list', 'tuple', 'iter', 'reversed', 'enumerate', 'zip', 'map', 'filter', 'permutations', 'combinations',
                'groupby', 'starmap', 'chain', 'itertools.permutations', 'itertools.combinations', 'itertools.groupby',
                'itertools.starmap', 'itertools.chain', 'product', 'itertools.product', 'dict.fromkeys', 'next', 'islice'}
# commutative consumers of an iterable (result independent of order)
COMMUTATIVE_METHODS = {'reduce_or', 'reduce_and', 'frommembers', 'update', 'issuperset', 'issubset', 'isdisjoint',
                       'difference_update', 'intersection_update', 'symmetric_difference_update', 'union', 'intersection',
                       'difference'}
SINK_FUNCS = {'Unique', 'tools.Unique', 'print', 'repr', 'str', 'format', 'json.dumps', 'collections.OrderedDict', 'dict',
              'OrderedDict'}
SINK_METHODS = {'join', 'extend', 'format', 'write', 'writelines', 'writerow', 'writerows', 'append', 'insert'}
PUBLIC_MODULES = {'definitions', 'contexts', 'lattices', 'lattice_members', 'junctors'}   # classes whose public methods are the API
ORDERED_FIELDS = {'_objects', '_properties', '_items'}   # Unique / list typed fields: |= keeps insertion order


class Finding:
    def __init__(self, kind, func, node, what, detail):
        self.kind = kind      # 'ok' | 'bad' | 'unknown'
        self.func = func
        self.node = node
        self.what = what
        self.detail = detail


class Analysis:

    def __init__(self, model, rank_keys=('index', 'dindex')):
        self.model = model
        self.rank_keys = set(rank_keys)
        self.summaries = {}      # func.key -> {'returns': kind|None, 'yields_tainted': bool}
        self.findings = []
        self.sources = 0
        self._cache = {}
        # fixpoint over return summaries
        for _ in range(4):
            changed = False
            for func in model.all_funcs():
                s = self._summary(func)
                if self.summaries.get(func.key) != s:
                    self.summaries[func.key] = s
                    changed = True
            if not changed:
                break

    # --------------------------------------------------------------- typing

    def local_types(self, func, param_types=None):
        """May-typing of local names: name -> kind."""
        types = dict(param_types or {})
        if func.cls is not None and func.cls.name == 'Unique' and func.params and func.params[0] == 'self':
            types.setdefault('self', ORD)
        # default values of parameters (``indexes=set(indexes)``)
        for name, d in func.defaults().items():
            k = self.kind(d, func, {})
            if k and name not in types:
                types[name] = k
        for _ in range(4):
            before = dict(types)
            for s in stmts(func.body):
                if isinstance(s, ast.Assign):
                    k = self.kind(s.value, func, types)
                    if k:
                        for t in s.targets:
                            if isinstance(t, ast.Name):
                                types[t.id] = k
                            elif isinstance(t, ast.Tuple) and isinstance(k, tuple) and k[0] == 'T' and len(k) - 1 == len(t.elts):
                                for tt, kk in zip(t.elts, k[1:]):
                                    if isinstance(tt, ast.Name) and kk is not None:
                                        types[tt.id] = kk
                    # chained: self._seen = seen = set()
                elif isinstance(s, ast.AugAssign) and isinstance(s.target, ast.Name):
                    k = self.kind(s.value, func, types)
                    if k == SET and types.get(s.target.id) is None and isinstance(s.op, (ast.BitOr, ast.BitAnd, ast.BitXor, ast.Sub)):
                        pass  # Unique |= set stays a Unique: handled as a sink at the AugAssign
                elif isinstance(s, (ast.For, ast.AsyncFor)):
                    pass
            # heapified lists
            for n in walk(func.body):
                if isinstance(n, ast.Call) and (chain(n.func) or [''])[-1] == 'heapify' and n.args and isinstance(n.args[0], ast.Name):
                    if types.get(n.args[0].id) == TSEQ:
                        types[n.args[0].id] = HEAP
            if types == before:
                break
        return types

    def kind(self, node, func, types):
        """Kind of an expression, or None for untainted / unknown."""
        if node is None:
            return None
        if isinstance(node, (ast.Set, ast.SetComp)):
            return SET
        if isinstance(node, ast.Tuple) and node.elts and not any(isinstance(e, ast.Starred) for e in node.elts):
            ks = tuple(self.kind(e, func, types) for e in node.elts)
            if any(k is not None for k in ks):
                return ('T',) + ks
            return None
        if isinstance(node, ast.Name):
            return types.get(node.id)
        if isinstance(node, ast.Attribute):
            c = chain(node)
            if c and c[-1] in SET_FIELDS:
                return SET
            if c and c[-1] in ORDERED_FIELDS:
                return ORD
            return None
        if isinstance(node, ast.BinOp) and isinstance(node.op, (ast.BitAnd, ast.BitOr, ast.BitXor, ast.Sub)):
            l, r = self.kind(node.left, func, types), self.kind(node.right, func, types)
            if l == SET or r == SET:
                # Unique & set -> Unique (ordered by the left operand) : only a SET left operand makes a set
                if l == SET or (r == SET and l is None and not self._ordered_field(node.left)):
                    return SET if l == SET else None
            return None
        if isinstance(node, ast.IfExp):
            return self.kind(node.body, func, types) or self.kind(node.orelse, func, types)
        if isinstance(node, (ast.ListComp, ast.GeneratorExp)):
            k = self.kind(node.generators[0].iter, func, types)
            if k in (SET, TSEQ, HEAP):
                return TSEQ
            return None
        if isinstance(node, ast.Call):
            name = '.'.join(chain(node.func) or [])
            short = name.split('.')[-1]
            if name in SET_CTORS:
                return SET
            if isinstance(node.func, ast.Attribute) and node.func.attr in SET_METHODS_RET_SET:
                if self.kind(node.func.value, func, types) == SET:
                    return SET
            if name == 'sorted':
                return None
            if name in TRANSFORMERS or short in TRANSFORMERS:
                for a in node.args:
                    if isinstance(a, ast.Starred):
                        a = a.value
                    if self.kind(a, func, types) in (SET, TSEQ, HEAP):
                        return TSEQ
                return None
            callee = self.resolve(node, func)
            if callee is not None:
                s = self.summaries.get(callee.key)
                if s and s['returns']:
                    return s['returns']
            return None
        return None

    def _operator_override(self, dunder):
        """The package's own definition of a set operator on tools.Unique (None: the collections.abc mixin applies, whose
        behaviour is tabulated in _consume)."""
        mod = self.model.modules.get('tools')
        cls = mod.classes.get('Unique') if mod is not None else None
        return cls.methods.get(dunder) if cls is not None else None

    def _via_override(self, dunder, func, k, ok, unk):
        ov = self._operator_override(dunder)
        if ov is None:
            return None
        if len(ov.params) < 2:
            return unk(f'tools.Unique.{dunder} with an unexpected signature')
        self.analyse(ov, {ov.params[1]: k if k != HEAP else TSEQ}, via=f'{func.key} -> {ov.key}({ov.params[1]})')
        return ok(f'operator implemented by {ov.key}; analysed with the operand tainted')

    def _ordered_field(self, node):
        c = chain(node)
        return bool(c) and c[-1] in ORDERED_FIELDS

    def resolve(self, call, func):
        """Resolve a call to a package function (module function, imported name, self.method)."""
        f = call.func
        mod = func.module
        if isinstance(f, ast.Name):
            # nested function of the enclosing function, module function, imported function
            cur = func
            while cur is not None:
                if f.id in cur.nested:
                    return cur.nested[f.id]
                cur = cur.parent
            if f.id in mod.funcs:
                return mod.funcs[f.id]
            imp = mod.imports.get(f.id)
            if imp and imp.startswith('pkg:'):
                try:
                    return self.model.func(imp[4:])
                except Unrecognised:
                    return None
        elif isinstance(f, ast.Attribute):
            c = chain(f)
            if c and len(c) == 2:
                imp = mod.imports.get(c[0])
                if imp and imp.startswith('pkg:'):
                    target = self.model.modules.get(imp[4:])
                    if target is not None:
                        if c[1] in target.funcs:
                            return target.funcs[c[1]]
                        # re-exported name (algorithms.iterunion)
                        imp2 = target.imports.get(c[1])
                        if imp2 and imp2.startswith('pkg:'):
                            try:
                                return self.model.func(imp2[4:])
                            except Unrecognised:
                                return None
                if c[0] in ('self', 'cls', 'inst') and func.cls is not None:
                    # method on the concrete classes that mix this class in
                    for concrete in self._concretes(func.cls):
                        owner, target = self.model.lookup(concrete, c[1])
                        if hasattr(target, 'node'):
                            return target
        return None

    def _concretes(self, cls):
        out = []
        for mod in self.model.modules.values():
            for c in mod.classes.values():
                if cls in self.model.mro(c):
                    out.append(c)
        return sorted(out, key=lambda c: -len(self.model.mro(c)))

    # ------------------------------------------------------------- summaries

    def _summary(self, func):
        types = self.local_types(func)
        returns = None
        yields_tainted = False
        is_gen = any(isinstance(n, (ast.Yield, ast.YieldFrom)) for n in walk(func.body))
        for n in walk(func.body):
            if isinstance(n, ast.Return) and n.value is not None:
                k = self.kind(n.value, func, types)
                if isinstance(k, tuple):
                    returns = k
                elif k == SET and returns is None:
                    returns = SET
                elif k in (TSEQ, HEAP):
                    returns = TSEQ
            elif isinstance(n, ast.YieldFrom):
                if self.kind(n.value, func, types) in (SET, TSEQ, HEAP):
                    yields_tainted = True
        # yields inside a loop over a tainted iterable
        for s in stmts(func.body):
            if isinstance(s, (ast.For, ast.AsyncFor)) and self.kind(s.iter, func, types) in (SET, TSEQ, HEAP):
                if any(isinstance(n, (ast.Yield, ast.YieldFrom)) for n in walk(s.body)):
                    yields_tainted = True
        if is_gen and yields_tainted:
            returns = TSEQ
        return {'returns': returns, 'yields_tainted': yields_tainted}

    # --------------------------------------------------------------- consumers

    def analyse(self, func, param_types=None, via=None):
        key = (func.key, tuple(sorted((param_types or {}).items())))
        if key in self._cache:
            return
        self._cache[key] = True
        types = self.local_types(func, param_types)
        parents = {}
        for n in ast.walk(func.node):
            for c in ast.iter_child_nodes(n):
                parents[c] = n
        nested = set()
        for sub in func.nested.values():
            for n in ast.walk(sub.node):
                nested.add(n)
        for n in walk(func.body):
            if n in nested:
                continue
            k = self.kind(n, func, types)
            if isinstance(n, ast.Call) and not isinstance(n.func, ast.Attribute):
                self._ordered_args(func, n, types, via)
            if k is None or k == ORD or isinstance(k, tuple):
                continue
            if isinstance(n, ast.Name) and isinstance(n.ctx, ast.Store):
                continue
            par = parents.get(n)
            self._consume(func, n, k, par, parents, types, via)
        # ordered <&|^> parameter of a public method: the Set mixin iterates the right operand, i.e. the caller's collection - which may be a set
        if (param_types is None or not param_types) and func.parent is None and func.cls is not None and not func.name.startswith('_') \
                and func.module.name in PUBLIC_MODULES:
            pnames = set(func.params[1:])
            rebound = {t.id for s_ in stmts(func.body) if isinstance(s_, ast.Assign) for t in s_.targets if isinstance(t, ast.Name)}
            for n in walk(func.body):
                if (isinstance(n, ast.BinOp) and isinstance(n.op, (ast.BitAnd, ast.BitXor)) and isinstance(n.right, ast.Name) and n.right.id in pnames - rebound
                        and (self._ordered_field(n.left) or self.kind(n.left, func, types) == ORD)
                        and self._operator_override('__and__' if isinstance(n.op, ast.BitAnd) else '__xor__') is None):
                    self._emit('bad', func, n, f'caller-supplied collection {n.right.id}',
                               f'ordered {src(n.left)} {"&" if isinstance(n.op, ast.BitAnd) else "^"} {n.right.id}: the Set mixin builds the result by iterating the right '
                               'operand - the order is the caller\'s (hash order when a set is passed); "&=" keeps the order of the left operand', via)
        # default-argument sources
        for name, d in func.defaults().items():
            if self.kind(d, func, {}) == SET:
                self.sources += 1

    def _ordered_args(self, func, call, types, via):
        """A private helper that receives an ordered collection is analysed with that parameter typed ORD."""
        callee = self.resolve(call, func)
        if callee is None:
            return
        params = callee.params
        ptypes = {}
        for i, a in enumerate(call.args):
            if i < len(params) and self.kind(a, func, types) == ORD:
                ptypes[params[i]] = ORD
        if ptypes:
            self.analyse(callee, ptypes, via=f'{func.key} -> {callee.key}({", ".join(ptypes)})')

    def _emit(self, kind, func, node, what, detail, via=None):
        if via:
            detail = f'{detail} (reached via {via})'
        self.findings.append(Finding(kind, func, node, what, detail))

    def _consume(self, func, n, k, par, parents, types, via):
        """Classify the consumer (syntactic parent) of a SET/TSEQ/HEAP-kinded expression ``n``."""
        text = src(n)[:60]
        is_source = isinstance(n, (ast.Set, ast.SetComp)) or (isinstance(n, ast.Call) and '.'.join(chain(n.func) or []) in SET_CTORS)
        if is_source:
            self.sources += 1
        ok = lambda why: self._emit('ok', func, n, f'{k} value {text}', why, via)
        bad = lambda why: self._emit('bad', func, n, f'{k} value {text}', why, via)
        unk = lambda why: self._emit('unknown', func, n, f'{k} value {text}', why, via)

        if par is None:
            return
        # --- propagation (the parent expression has a kind itself and is classified on its own)
        if isinstance(par, ast.expr) and self.kind(par, func, types) is not None and not isinstance(par, ast.Call):
            return
        if isinstance(par, ast.Call) and self.kind(par, func, types) is not None and n in par.args:
            return
        if isinstance(par, ast.Starred):
            gp = parents.get(par)
            if isinstance(gp, ast.Call) and self.kind(gp, func, types) is not None:
                return
            return bad(f'unpacked with * into {src(gp)[:50]}') if k != SET or True else None
        if isinstance(par, ast.comprehension):
            if par.iter is n:
                owner = parents.get(par)
                if isinstance(owner, (ast.SetComp, ast.DictComp)) and isinstance(owner, ast.SetComp):
                    return ok('iterated by a set comprehension (result unordered)')
                if isinstance(owner, ast.DictComp):
                    return bad('iterated by a dict comprehension: insertion order of the dict follows the set order')
                if self.kind(owner, func, types) is not None:
                    return  # ListComp/GeneratorExp over it: the comprehension itself is TSEQ and classified by its consumer
                return ok('iterated by a comprehension consumed as untainted')
            return ok('used inside a comprehension filter')
        # --- assignments
        if isinstance(par, ast.Assign):
            for t in par.targets:
                if isinstance(t, ast.Attribute):
                    c = chain(t)
                    if k in (TSEQ, HEAP) and c:
                        return bad(f'tainted order stored in attribute {".".join(c)}')
                    if c and c[-1] in ORDERED_FIELDS:
                        return bad(f'set stored in ordered field {".".join(c)}')
            return ok('bound to a name / set-typed field (propagated)')
        if isinstance(par, ast.AugAssign):
            if par.value is n:
                tk = self.kind(par.target, func, types)
                if tk == SET:
                    return ok('set algebra into a set (unordered)')
                if tk == ORD or tk is None:
                    dunder = {ast.BitAnd: '__iand__', ast.Sub: '__isub__', ast.BitOr: '__ior__', ast.BitXor: '__ixor__'}.get(type(par.op))
                    r = self._via_override(dunder, func, k, ok, unk) if dunder else None
                    if r is not None or (dunder and self._operator_override(dunder) is not None):
                        return r
                if isinstance(par.op, (ast.BitAnd, ast.Sub)) and k == SET:
                    return ok('restricts a collection (membership only: MutableSet.__iand__/__isub__ discard from the left operand)')
                if tk == ORD:
                    if isinstance(par.op, (ast.BitOr, ast.BitXor, ast.Add)):
                        return bad(f'{src(par.target)} {"|=" if isinstance(par.op, ast.BitOr) else "op="} <{k}>: an ordered collection is extended in hash order')
                    return unk(f'augmented assignment {src(par)[:60]}')
                if isinstance(par.target, ast.Name) and par.target.id in func.params and func.name.startswith('_'):
                    return ok(f'in-place update of parameter {par.target.id} of a private helper (decided at its call sites with the argument kinds)')
                return unk(f'augmented assignment into a collection of unknown kind: {src(par)[:60]}')
            return ok('in-place update of the set itself')
        if isinstance(par, ast.Return):
            if k == SET:
                return ok('returned as a set (summarised: callers see a SET)')
            if (func.parent is None and not func.name.startswith('_') and func.cls is not None and func.module.name in PUBLIC_MODULES
                    and not any(isinstance(x, (ast.Yield, ast.YieldFrom)) for x in walk(func.body))):
                return bad(f'returned by the public method {func.cls.name}.{func.name}: the caller sees a sequence in hash order')
            return ok('returned tainted (summarised: callers see a tainted order)')
        if isinstance(par, (ast.Yield,)):
            return bad('yielded value embeds a hash-ordered collection') if k != SET else ok('a set is yielded as a value')
        if isinstance(par, ast.YieldFrom):
            return ok('re-yielded (summarised: callers see a tainted order)')
        # --- tests and comparisons
        if isinstance(par, ast.Compare):
            return ok('comparison / membership test')
        if isinstance(par, (ast.If, ast.While, ast.IfExp, ast.Assert)) and getattr(par, 'test', None) is n:
            return ok('truth test')
        if isinstance(par, ast.BoolOp) or (isinstance(par, ast.UnaryOp) and isinstance(par.op, ast.Not)):
            return ok('truth test')
        if isinstance(par, ast.BinOp):
            if isinstance(par.op, ast.Mod):
                return bad('%-formatted')
            if isinstance(par.op, (ast.BitAnd, ast.BitOr, ast.BitXor, ast.Sub)):
                other = par.right if par.left is n else par.left
                if par.right is n and (self._ordered_field(par.left) or self.kind(par.left, func, types) == ORD):
                    dunder = {ast.BitAnd: '__and__', ast.Sub: '__sub__', ast.BitOr: '__or__', ast.BitXor: '__xor__'}[type(par.op)]
                    if self._operator_override(dunder) is not None:
                        return self._via_override(dunder, func, k, ok, unk)
                    if isinstance(par.op, ast.BitOr):
                        return bad(f'ordered {src(par.left)} | <{k}>: new members appended in hash order')
                    if isinstance(par.op, (ast.BitAnd, ast.BitXor)):
                        # collections.abc.Set.__and__: self._from_iterable(value for value in other if value in self)
                        return bad(f'ordered {src(par.left)} {"&" if isinstance(par.op, ast.BitAnd) else "^"} <{k}>: '
                                   'the Set mixin builds the result by iterating the right operand (hash order)')
                    return ok('ordered - set: the Set mixin iterates the left operand (membership test only)')
                return ok('set algebra')
            return unk(f'operator {src(par)[:50]}')
        if isinstance(par, ast.FormattedValue) or isinstance(par, ast.JoinedStr):
            return bad('formatted into a string (the text depends on the hash order)')
        # --- loops
        if isinstance(par, (ast.For, ast.AsyncFor)) and par.iter is n:
            verdict, why = commutative_body(par)
            if verdict is True:
                return ok(f'loop with commutative body ({why})')
            if verdict is False:
                s = self.summaries.get(func.key) or {}
                if why.startswith('yield'):
                    return ok('yields in loop order (summarised: callers see a tainted order)')
                return bad(f'loop over a hash-ordered collection with an order-sensitive body: {why}')
            return unk(f'loop body not classified: {why}')
        # --- attribute access / method call on the value
        if isinstance(par, ast.Attribute) and par.value is n:
            gp = parents.get(par)
            if isinstance(gp, ast.Call) and gp.func is par:
                if par.attr in NEUTRAL_METHODS:
                    if par.attr == 'pop' and k == SET:
                        return bad('set.pop() returns an arbitrary (hash-order) element')
                    return ok(f'.{par.attr}()')
                return unk(f'method .{par.attr}() on a {k}')
            if par.attr in ('__contains__', 'add', 'discard', 'remove'):
                return ok(f'bound method .{par.attr}')
            return unk(f'attribute .{par.attr} of a {k}')
        if isinstance(par, ast.Subscript) and par.value is n:
            if k == HEAP:
                return ok('heap entry access')
            return unk('subscript')
        if isinstance(par, ast.Subscript) and par.slice is n:
            return ok('used as a key')
        if isinstance(par, ast.Tuple) and isinstance(self.kind(par, func, types), tuple):
            return ok('component of a tuple (followed position by position)')
        if isinstance(par, (ast.Tuple, ast.List)):
            return ok('stored as an element') if k == SET else bad('tainted order embedded in a sequence')
        if isinstance(par, ast.Dict):
            return ok('dict key/value') if k == SET else bad('tainted order embedded in a dict')
        if isinstance(par, ast.keyword):
            gp = parents.get(par)
            return self._call_arg(func, n, k, gp, par.arg, types, via, ok, bad, unk)
        if isinstance(par, ast.Call) and (n in par.args):
            return self._call_arg(func, n, k, par, par.args.index(n), types, via, ok, bad, unk)
        if isinstance(par, ast.Expr):
            return ok('discarded')
        if isinstance(par, ast.arguments):
            return ok('default value of a parameter (bound to a name)')
        return unk(f'consumer {type(par).__name__}: {src(par)[:50]}')

    def _local_callee_name(self, func, name):
        """``push, pop = heapq.heappush, heapq.heappop`` / ``push = functools.partial(heapq.heappush, heap)``."""
        for s in stmts(func.body):
            if not isinstance(s, ast.Assign):
                continue
            for t in s.targets:
                if isinstance(t, ast.Name) and t.id == name:
                    v = s.value
                    if isinstance(v, ast.Call) and (chain(v.func) or [''])[-1] == 'partial' and v.args:
                        v = v.args[0]
                    return '.'.join(chain(v) or [])
                if isinstance(t, ast.Tuple) and isinstance(s.value, ast.Tuple) and len(t.elts) == len(s.value.elts):
                    for tt, vv in zip(t.elts, s.value.elts):
                        if isinstance(tt, ast.Name) and tt.id == name:
                            return '.'.join(chain(vv) or [])
        return None

    def _call_arg(self, func, n, k, call, pos, types, via, ok, bad, unk):
        name = '.'.join(chain(call.func) or [])
        if isinstance(call.func, ast.Name):
            name = self._local_callee_name(func, call.func.id) or name
        short = name.split('.')[-1]
        if short == 'partial' and call.args and (chain(call.args[0]) or [''])[-1] in ('heappush', 'heappop') and pos == 1:
            return ok('heap operation bound with functools.partial')
        if short in ('heappush', 'heappop'):
            return ok('heap operation')
        if name in NEUTRAL_FUNCS or short in ('heapify',):
            if short == 'heapify':
                return self._heap_ok(func, n, types, ok, bad, unk)
            if name in ('min', 'max') and k != SET:
                return ok(f'{name}() (order-independent for a total key)')
            return ok(f'{name}()')
        if isinstance(call.func, ast.Attribute):
            recv_kind = self.kind(call.func.value, func, types)
            attr = call.func.attr
            if attr in COMMUTATIVE_METHODS:
                if attr == 'update' and recv_kind != SET and self._ordered_field(call.func.value):
                    return bad(f'{src(call.func.value)}.update(<{k}>): ordered collection extended in hash order')
                return ok(f'.{attr}() (order-independent)')
            if attr in ('heappush', 'heappop'):
                return ok('heap operation')
            if attr in SINK_METHODS:
                if attr in ('append', 'insert') and k == SET:
                    return ok('a set stored as one element')
                return bad(f'.{attr}(<{k}>): order-sensitive sink')
        if name in SINK_FUNCS or short in ('Unique',):
            return bad(f'{name}(<{k}>): ordered collection built in hash order')
        if name in ('heapq.heappush', 'push', 'heappush'):
            return ok('heap operation')
        callee = self.resolve(call, func)
        if callee is not None:
            params = callee.params
            if callee.cls is not None and params and params[0] in ('self', 'cls'):
                if isinstance(call.func, ast.Attribute):
                    params = params[1:]
            pname = pos if isinstance(pos, str) else (params[pos] if isinstance(pos, int) and pos < len(params) else None)
            if pname is None:
                return unk(f'cannot bind argument of {name}')
            before = len(self.findings)
            self.analyse(callee, {pname: k if k != HEAP else TSEQ}, via=f'{func.key} -> {callee.key}({pname})')
            inner_bad = [f for f in self.findings[before:] if f.kind == 'bad']
            s = self.summaries.get(callee.key) or {}
            return ok(f'passed to {callee.key}({pname}); analysed with that parameter tainted'
                      + (': order-sensitive use inside' if inner_bad else ''))
        return unk(f'argument of unknown callee {name}()')

    def _heap_ok(self, func, n, types, ok, bad, unk):
        """heapify(heap) where heap = [(rank, item) for item in <tainted>] with a unique rank."""
        if not isinstance(n, ast.Name):
            return unk('heapify of a non-name')
        values = [s.value for s in stmts(func.body) if isinstance(s, ast.Assign)
                  and any(isinstance(t, ast.Name) and t.id == n.id for t in s.targets)]
        for v in values:
            if not (isinstance(v, ast.ListComp) and isinstance(v.elt, ast.Tuple) and len(v.elt.elts) == 2):
                return unk(f'heap built as {src(v)[:50]}')
            key = v.elt.elts[0]
            kc = chain(key)
            if kc and kc[-1] in self.rank_keys:
                continue
            if isinstance(key, ast.Call) and isinstance(key.func, ast.Name) and key.func.id in func.params:
                continue  # sortkey(c): uniqueness of the rank is the obligation of the call sites (C09)
            return bad(f'heap key {src(key)} is not a unique rank: ties are broken by hash order')
        return ok('heapified by unique rank: pop order independent of the input order')


def commutative_body(loop):
    """(True, why) if the loop body's effect does not depend on iteration order; (False, why) for a recognised
    order-sensitive statement; (None, why) when not classified."""
    var = loop.target
    names = {n.id for n in ast.walk(var) if isinstance(n, ast.Name)}

    def stmt_ok(s):
        if isinstance(s, (ast.Pass, ast.Continue)):
            return True, 'pass'
        if isinstance(s, ast.Assign):
            for t in s.targets:
                if isinstance(t, ast.Attribute) and isinstance(t.value, ast.Name) and t.value.id in names:
                    used = {n.id for n in ast.walk(s.value) if isinstance(n, ast.Name)}
                    if used <= names | {'tuple', 'list', 'sorted', 'len', 'set', 'frozenset'}:
                        continue
                    return None, f'assignment reads other names: {src(s)[:50]}'
                if isinstance(t, ast.Subscript):
                    return False, f'item assignment {src(s)[:50]} (insertion order)'
                return None, f'assignment {src(s)[:50]}'
            return True, 'writes only attributes of the loop variable'
        if isinstance(s, ast.Expr):
            v = s.value
            if isinstance(v, (ast.Yield, ast.YieldFrom)):
                return False, 'yield inside the loop'
            if isinstance(v, ast.Call) and isinstance(v.func, ast.Attribute):
                if v.func.attr in ('add', 'discard', 'update', 'difference_update'):
                    return True, f'.{v.func.attr}() on a set'
                if v.func.attr == 'remove' and len(v.args) == 1 and isinstance(v.args[0], ast.Name) and v.args[0].id in names:
                    # removing a set of distinct elements, one per iteration: the remaining ones keep their relative order
                    return True, '.remove(<loop variable>): the survivors do not depend on the removal order'
                if v.func.attr in ('append', 'extend', 'insert', 'write', 'writerow', 'node', 'edge'):
                    return False, f'.{v.func.attr}() inside the loop'
            if isinstance(v, ast.Call) and (chain(v.func) or [''])[-1] in ('push', 'heappush'):
                return True, 'heap push (order restored by the key)'
            if (isinstance(v, ast.Call) and isinstance(v.func, ast.Name) and v.func.id == 'setattr' and len(v.args) == 3
                    and isinstance(v.args[0], ast.Name) and v.args[0].id in names):
                stored = {n.id for b in loop.body for n in ast.walk(b) if isinstance(n, ast.Name) and isinstance(n.ctx, ast.Store)}
                used = {n.id for a in v.args[1:] for n in ast.walk(a) if isinstance(n, ast.Name)}
                if not (used & stored - names) and not any(isinstance(n, ast.Call) and (chain(n.func) or [''])[-1] not in
                                                         ('tuple', 'list', 'sorted', 'len', 'set', 'frozenset', 'getattr') for a in v.args[1:] for n in ast.walk(a)):
                    return True, 'setattr on the loop variable from its own state'
            return None, f'expression statement {src(s)[:50]}'
        if isinstance(s, ast.AugAssign):
            if isinstance(s.op, (ast.BitOr, ast.BitAnd, ast.BitXor)) or (isinstance(s.op, ast.Add) and isinstance(s.value, ast.Constant)):
                return True, 'commutative accumulation'
            return None, f'accumulation {src(s)[:50]}'
        if isinstance(s, ast.If):
            for sub in s.body + s.orelse:
                v, why = stmt_ok(sub)
                if v is not True:
                    return v, why
            return True, 'conditional commutative statements'
        if isinstance(s, ast.Raise):
            return False, 'raise inside the loop (which element is reported depends on the order)'
        if isinstance(s, ast.Return):
            return False, 'return inside the loop (which element wins depends on the order)'
        if isinstance(s, (ast.For, ast.While)):
            for sub in s.body:
                v, why = stmt_ok(sub)
                if v is not True:
                    return v, why
            return True, 'nested commutative loop'
        return None, f'{type(s).__name__}'

    why_all = []
    for s in loop.body:
        v, why = stmt_ok(s)
        if v is not True:
            return v, why
        why_all.append(why)
    return True, '; '.join(dict.fromkeys(why_all))
