"""First-order AST mutant generator (used by the thorough-tier self-test: variants are computed from the
current source, never stored as patches).  Port of design/survey_tools/mutgen.py."""
import ast, sys, os, json, pathlib


SWAP_ATTR = {'_extents':'_intents','_intents':'_extents','upper_neighbors':'lower_neighbors','lower_neighbors':'upper_neighbors',
 'index':'dindex','dindex':'index','shortlex':'longlex','longlex':'shortlex','_Objects':'_Properties','_Properties':'_Objects',
 'supremum':'infimum','infimum':'supremum','prime':'double','double':'prime','reduce_or':'reduce_and','reduce_and':'reduce_or',
 '_objects':'_properties','_properties':'_objects','objects':'properties','properties':'objects','_extent':'_intent','_intent':'_extent',
 'add':'discard','atoms':'inatoms','atomic':'inatomic','issuperset':'issubset','remove':'discard','update':'difference_update',
 'difference_update':'update','_shortlex':'_longlex','_longlex':'_shortlex','headlabel':'taillabel','append':'extend'}
SWAP_NAME = {'extent':'intent','intent':'extent','objects':'properties','properties':'objects','upper':'lower','lower':'upper',
 'shortlex':'longlex','longlex':'shortlex','left':'right','right':'left','self':'other','other':'self','x':'y','y':'x',
 'Prime':'Double','Double':'Prime','make_prime':'make_double','make_double':'make_prime','old':'new','new':'old',
 'property_sets':'next_property_sets','next_property_sets':'property_sets','object_sets':'next_object_sets','next_object_sets':'object_sets',
 'j_extent':'j_intent','j_intent':'j_extent','o':'p','p':'o','obj':'prop','prop':'obj'}
BINOP = {ast.BitAnd:['|','^'], ast.BitOr:['&'], ast.Add:['-'], ast.Sub:['+'], ast.LShift:['>>'], ast.RShift:['<<'], ast.BitXor:['&','|']}
OPSTR = {ast.BitAnd:'&', ast.BitOr:'|', ast.Add:'+', ast.Sub:'-', ast.LShift:'<<', ast.RShift:'>>', ast.BitXor:'^', ast.Mult:'*', ast.Mod:'%'}
CMP = {ast.Eq:['!='], ast.NotEq:['=='], ast.Lt:['<=','>'], ast.LtE:['<'], ast.Gt:['>=','<'], ast.GtE:['>'], ast.Is:['is not'], ast.IsNot:['is'], ast.In:['not in'], ast.NotIn:['in']}
CMPSTR = {ast.Eq:'==', ast.NotEq:'!=', ast.Lt:'<', ast.LtE:'<=', ast.Gt:'>', ast.GtE:'>=', ast.Is:'is', ast.IsNot:'is not', ast.In:'in', ast.NotIn:'not in'}

def seg(src_lines, node):
    return ast.get_source_segment('\n'.join(src_lines), node)

class Gen(ast.NodeVisitor):
    def __init__(self, path, src):
        self.path=path; self.src=src; self.lines=src.split('\n'); self.muts=[]; self.func=[]; self.in_ann=0
        # line offsets
        self.offs=[0]
        for l in self.lines: self.offs.append(self.offs[-1]+len(l)+1)
    def pos(self, lineno, col):  # col is utf8 byte offset
        line=self.lines[lineno-1]
        return self.offs[lineno-1]+len(line.encode()[:col].decode())
    def span(self, node): return self.pos(node.lineno,node.col_offset), self.pos(node.end_lineno,node.end_col_offset)
    def add(self, kind, a, b, new, node):
        if not self.func: return
        self.muts.append(dict(file=str(self.path), func='.'.join(self.func), line=node.lineno, kind=kind, a=a, b=b, new=new, old=self.src[a:b]))
    def text(self,node): a,b=self.span(node); return self.src[a:b]
    def visit_FunctionDef(self, node):
        if node.name in ('render_all',): return
        self.func.append(node.name)
        body=node.body
        if body and isinstance(body[0],ast.Expr) and isinstance(body[0].value,ast.Constant) and isinstance(body[0].value.value,str): body=body[1:]
        for d in node.args.defaults+node.args.kw_defaults:
            if d is not None: self.visit(d)
        for s in body: self.visit(s)
        self.func.pop()
    visit_AsyncFunctionDef=visit_FunctionDef
    def visit_ClassDef(self,node):
        self.func.append(node.name)
        for s in node.body:
            if isinstance(s,ast.Expr) and isinstance(s.value,ast.Constant): continue
            if isinstance(s,(ast.FunctionDef,ast.ClassDef)): self.visit(s)
            elif isinstance(s,ast.Assign):
                self.func.append('<classbody>'); self.visit(s); self.func.pop()
        self.func.pop()
    def visit_AnnAssign(self,node):
        if node.value: self.visit(node.value)
    def opspan(self, left, right):
        a=self.span(left)[1]; b=self.span(right)[0]; return a,b
    def visit_BinOp(self,node):
        t=type(node.op)
        if t in BINOP and not (isinstance(node.left,ast.Constant) and isinstance(node.left.value,str)):
            a,b=self.opspan(node.left,node.right); mid=self.src[a:b]
            if OPSTR[t] in mid:
                for n in BINOP[t]: self.add('binop',a,b,mid.replace(OPSTR[t],n,1),node)
        self.generic_visit(node)
    def visit_AugAssign(self,node):
        t=type(node.op)
        a,b=self.opspan(node.target,node.value); mid=self.src[a:b]
        if t in BINOP and OPSTR[t]+'=' in mid:
            for n in BINOP[t]: self.add('augop',a,b,mid.replace(OPSTR[t]+'=',n+'=',1),node)
        a,b=self.span(node); self.add('delstmt',a,b,'pass',node)
        self.generic_visit(node)
    def visit_Compare(self,node):
        items=[node.left]+node.comparators
        for i,op in enumerate(node.ops):
            a,b=self.opspan(items[i],items[i+1]); mid=self.src[a:b]; s=CMPSTR.get(type(op))
            if s and s in mid:
                for n in CMP[type(op)]: self.add('cmp',a,b,mid.replace(s,n,1),node)
        self.generic_visit(node)
    def visit_BoolOp(self,node):
        s='and' if isinstance(node.op,ast.And) else 'or'; n='or' if s=='and' else 'and'
        for l,r in zip(node.values,node.values[1:]):
            a,b=self.opspan(l,r); mid=self.src[a:b]
            if s in mid: self.add('boolop',a,b,mid.replace(s,n,1),node)
        self.generic_visit(node)
    def visit_UnaryOp(self,node):
        a,b=self.span(node); oa,ob=self.span(node.operand)
        if isinstance(node.op,(ast.Not,ast.Invert,ast.USub)): self.add('unary',a,b,'('+self.src[oa:ob]+')',node)
        self.generic_visit(node)
    def visit_Constant(self,node):
        a,b=self.span(node); v=node.value
        if v is True: self.add('const',a,b,'False',node)
        elif v is False: self.add('const',a,b,'True',node)
        elif isinstance(v,int) and not isinstance(v,bool):
            for n in {0:[1],1:[0,2],-1:[0]}.get(v,[v+1]): self.add('const',a,b,str(n),node)
        elif v is None: pass
    def visit_Expr(self,node):
        if isinstance(node.value,ast.Call):
            a,b=self.span(node); self.add('delstmt',a,b,'pass',node)
        if isinstance(node.value,(ast.Yield,ast.YieldFrom)):
            a,b=self.span(node); self.add('delyield',a,b,'pass',node)
        self.generic_visit(node)
    def visit_Assign(self,node):
        a,b=self.span(node)
        if len(node.targets)==1 and isinstance(node.targets[0],(ast.Attribute,ast.Subscript)): self.add('delstmt',a,b,'pass',node)
        if len(node.targets)==1 and isinstance(node.targets[0],ast.Tuple) and isinstance(node.value,(ast.Tuple,ast.Call,ast.Name)) and len(node.targets[0].elts)==2:
            t=node.targets[0]; x,y=t.elts; ta,tb=self.span(t)
            self.add('swaptargets',ta,tb,self.text(y)+', '+self.text(x),node)
        self.generic_visit(node)
    def visit_Continue(self,node): a,b=self.span(node); self.add('delstmt',a,b,'pass',node)
    def visit_Break(self,node): a,b=self.span(node); self.add('delstmt',a,b,'pass',node)
    def visit_Return(self,node):
        if node.value is None: a,b=self.span(node); self.add('delstmt',a,b,'pass',node)
        elif isinstance(node.value,ast.Tuple) and len(node.value.elts)==2:
            x,y=node.value.elts; a,b=self.span(node.value); self.add('swapret',a,b,self.text(y)+', '+self.text(x),node)
        self.generic_visit(node)
    def visit_If(self,node):
        a,b=self.span(node.test); self.add('negif',a,b,'not ('+self.src[a:b]+')',node)
        self.generic_visit(node)
    def visit_While(self,node): self.generic_visit(node)
    def visit_IfExp(self,node):
        a,b=self.span(node.test); self.add('negif',a,b,'not ('+self.src[a:b]+')',node); self.generic_visit(node)
    def visit_comprehension(self,node):
        for c in node.ifs:
            a,b=self.span(c); self.add('negfilter',a,b,'not ('+self.src[a:b]+')',c); self.add('dropfilter',a,b,'True',c)
        self.generic_visit(node)
    def visit_Call(self,node):
        f=node.func
        if isinstance(f,ast.Attribute) and f.attr=='copy' and not node.args:
            a,b=self.span(node); self.add('dropcopy',a,b,self.text(f.value),node)
        if isinstance(f,ast.Name) and f.id in ('sorted','reversed','tuple','list','set','frozenset') and len(node.args)>=1 and f.id in ('sorted','reversed'):
            a,b=self.span(node); self.add('drop'+f.id,a,b,self.text(node.args[0]),node)
        if isinstance(f,ast.Name) and f.id=='set' and len(node.args)==1:
            a,b=self.span(node); self.add('dropset',a,b,'list('+self.text(node.args[0])+')',node)
        if len(node.args)==2 and not node.keywords and not any(isinstance(x,ast.Starred) for x in node.args):
            x,y=node.args; a=self.span(x)[0]; b=self.span(y)[1]; self.add('swapargs',a,b,self.text(y)+', '+self.text(x),node)
        for kw in node.keywords:
            if kw.arg in ('key','default') :
                pass
        self.generic_visit(node)
    def visit_Subscript(self,node):
        if isinstance(node.slice,ast.Slice) and node.slice.lower is None and node.slice.upper is None and node.slice.step is None:
            a,b=self.span(node); self.add('dropcopy',a,b,self.text(node.value),node)
        self.generic_visit(node)
    def visit_Attribute(self,node):
        if node.attr in SWAP_ATTR:
            a,b=self.span(node); va,vb=self.span(node.value)
            self.add('attrswap',vb,b,'.'+SWAP_ATTR[node.attr],node)
        self.generic_visit(node)
    def visit_Name(self,node):
        if node.id in SWAP_NAME and isinstance(node.ctx,ast.Load):
            a,b=self.span(node); self.add('nameswap',a,b,SWAP_NAME[node.id],node)



def generate(root):
    """All compiling first-order mutants of <root>/concepts as dicts with a position-independent signature."""
    root = pathlib.Path(root)
    pkg = root / 'concepts'
    out = []
    for p in sorted(pkg.rglob('*.py')):
        if p.name == '_example.py':
            continue
        src = p.read_text(encoding='utf-8')
        tree = ast.parse(src)
        g = Gen(p.relative_to(root), src)
        for s in tree.body:
            if isinstance(s, (ast.FunctionDef, ast.ClassDef)):
                g.visit(s)
            elif isinstance(s, ast.Assign):
                g.func.append('<module>')
                g.visit(s)
                g.func.pop()
        seen = {}
        for m in g.muts:
            new = src[:m['a']] + m['new'] + src[m['b']:]
            try:
                compile(new, str(p), 'exec')
            except SyntaxError:
                continue
            key = (m['file'], m['func'], m['kind'], m['old'], m['new'])
            k = seen.get(key, 0)
            seen[key] = k + 1
            m['sig'] = '|'.join([m['file'], m['func'], m['kind'], m['old'], m['new'], str(k)])
            m['mutated'] = new
            out.append(m)
    return out
