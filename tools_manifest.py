"""Regenerate MANIFEST.json from the table below (run: /venv/bin/python tools_manifest.py)."""
import json
import pathlib

HERE = pathlib.Path(__file__).resolve().parent

# property -> (category, technique, text, note, design_ref)
CLAIMED = {
    'C08': ('proof', 'AST extraction + exhaustive Boolean canonical form (row-occupancy truth tables) of the 8 predicates and 4 operator aliases',
            'Sound and complete decision of the predicate clause: each of the eight predicates (and each of <=,>=,<,>) '
            'is extracted from the source as a formula over the two extents and the top/bottom extents and proven equal, '
            'as a Boolean function on every admissible occupancy pattern, to the statement\'s definition; holds for all contexts and all pairs.',
            'Trusted: bitsets MemberBits is an int subclass with int\'s & | ^ ~ == != bool(); "iff intent(y) <= intent(x)" is the FCA duality theorem, not checked.',
            'DESIGN.md §5 C08, Appendix B'),
}

NOT_YET = {}
NA = {
    'C15': 'invariance under row/column permutation, duplication and transposition relates the results of two different '
           'executions (runtime values); no clause of it except the symmetry obligations already decided under C01/C04/C14 '
           'is visible in the shape of the code, so static analysis honestly does not apply (DESIGN.md §6)',
}


def main():
    props = [json.loads(l)['id'] for l in (HERE / 'properties.jsonl').read_text().splitlines() if l.strip()]
    checks = []
    for pid in props:
        if pid not in CLAIMED:
            continue
        cat, tech, text, note, ref = CLAIMED[pid]
        checks.append({
            'property_id': pid,
            'quick_cmd': f'/venv/bin/python -m sa.check {pid} --tier quick',
            'thorough_cmd': f'/venv/bin/python -m sa.check {pid} --tier thorough',
            'evidence_file': f'/verif/evidence/{pid}.json',
            'replay_cmd_template': f'/venv/bin/python -m sa.check {pid} --explain {{path}}',
            'engine': 'sa',
            'level_claimed': {'category': cat, 'text': text, 'design_ref': ref},
            'level_note': note,
            'technique': 'static analysis: ' + tech,
        })
    na = []
    for pid in props:
        if pid in CLAIMED:
            continue
        reason = NA.get(pid) or NOT_YET.get(pid) or 'static check for this property is not built yet in this tree; not claimed until it is'
        na.append({'property_id': pid, 'reason': reason})
    manifest = {
        'version': 1,
        'setup_cmd': '/venv/bin/python -m compileall -q sa',
        'hooks': {
            'guard': 'XFLR6_CONCEPTS_VERIF',
            'enable': 'none needed: the checks parse /repo/concepts with ast and never import it; no hook commits exist',
            'baseline_off_cmd': 'cd /repo && /venv/bin/python -m pytest -ra -q -p no:cacheprovider',
            'source_commits': [],
            'add_only': True,
        },
        'engines': [{'name': 'sa', 'path': '/verif/sa', 'serves_properties': sorted(CLAIMED),
                     'kind_free_text': 'repository-specific static analysis over the Python AST: program model with MRO, '
                                       'alias expansion, Boolean canonical forms of bit-set predicates, freshness/ownership, '
                                       'order taint, exception/guard discipline, pairing and agreement rules, algorithm-template conformance'}],
        'checks': checks,
        'not_applicable': na,
        'notes': 'All checks are static (ast only; nothing from /repo is imported or executed). Exit 0 = all obligations discharged; '
                 'exit 1 + VIOLATION line = a recognised construct violates a rule; exit 2 + ANALYSIS-ERROR = anchor vanished or idiom '
                 'not recognised (never a silent pass). Genuine defects D1-D4 were repaired in /repo by four "fix:" commits, '
                 'see known_findings.json and DESIGN.md §4.1.',
    }
    (HERE / 'MANIFEST.json').write_text(json.dumps(manifest, indent=1) + '\n')
    print(len(checks), 'checks;', len(na), 'not applicable')


if __name__ == '__main__':
    main()
