"""Regenerate MANIFEST.json from the table below (run: /venv/bin/python tools_manifest.py)."""
import json
import pathlib

HERE = pathlib.Path(__file__).resolve().parent

# property -> (category, technique, text, note, design_ref)
OTHER_TEXT = ('Static rule conformance: decides, for every input at once, the structural clauses named below from the shape of the current '
              'source (each is a necessary condition of the property: breaking it breaks the behaviour); it is not a proof of the whole behavioural '
              'statement. Unrecognised constructs end the run with exit 2, never a silent pass. The run also applies the rule sets of the layers the '
              'property depends on (derivation closures and class wiring, loaders, lookups: DESIGN.md §11 round 4) and the generic rules of §2 E10 '
              '(one-shot iterables, unused parameters, signature order, memoisation/kind/raise changes against the frozen tables) to the functions it examined. ')
NOTE = ('Trusted: the axioms about bitsets 0.8.4 / stdlib listed in every evidence file (DESIGN.md §3) and the Python semantics of the constructs a rule names; '
        'for template rules the published correctness theorem of the algorithm.')

# property -> (category, technique, text, note, design_ref)
CLAIMED = {
    'C01': ('other', 'ast abstract interpretation of the five bit-scan loops (counter/shift/guard discipline, trailing-zero idiom table), two-sorted wiring of _pair_with/Relation.__new__, precision lint',
            OTHER_TEXT + 'C01: every derivation phase reduces over the opposite vector family from its all-ones value with the un-shifted position index exactly when bit 0 is set; crossed pairing; API routes; no fixed-width constants or floats in bit arithmetic.', NOTE, 'DESIGN.md §5 C01'),
    'C02': ('other', 'ast sort inference (object-set vs property-set) and def-use over Context.__getitem__ and the Lattice lookups',
            OTHER_TEXT + 'C02: the lookup returns exactly the doubleprime pair of the query with consistent sorts; mapping keyed by extent; int/slice/falsy keys.', NOTE, 'DESIGN.md §5 C02'),
    'C03': ('other', 'algorithm-template conformance (Lindig 2000) with Boolean canonical forms of the accept test under the algorithm invariants',
            OTHER_TEXT + 'C03: lindig.neighbors/lattice and Lattice.__init__ are instances of the published template (seed, dedup+queue pairing, exactly-once yield, unfiltered materialisation).', NOTE + ' Enumeration theorem: Lindig, Fast Concept Analysis (2000).', 'DESIGN.md §5 C03, App. E'),
    'C04': ('other', 'algorithm-template conformance (FCbO, Outrata & Vychodil 2012) under the sort swap, Boolean canonical forms of canonicity/prune tests, freshness of the per-node table',
            OTHER_TEXT + 'C04: both generators instantiate one template with the right sorts, sizes and indexes; wrappers map Concept._make unfiltered.', NOTE + ' CbO correctness theorem for the required slots.', 'DESIGN.md §5 C04, App. E'),
    'C05': ('other', 'pairing/typestate rules over lindig.lattice and Lattice.__init__ (converse link recorded on both branches, generator drained before lower links are read)',
            OTHER_TEXT + 'C05: upper and lower links are recorded conversely for every generated cover and resolved completely through the extent mapping; Context.neighbors closes its query.', NOTE, 'DESIGN.md §5 C05'),
    'C06': ('other', 'ordering-slot rules (heap key = shortlex of the queued extent, enumerate without reordering, sort key/neighbour direction pairing, who-may-write)',
            OTHER_TEXT + 'C06: index/dindex/neighbour orders are assigned from the orders the property names, in __init__, _init and both _fromlist paths.', NOTE, 'DESIGN.md §5 C06'),
    'C07': ('other', 'Boolean canonical form of the closure argument (a|b, a&b), sort of the closure operator, reduce_or/reduce_and pairing',
            OTHER_TEXT + 'C07: join = closure of the union of extents, meet = (closure of) the intersection, looked up in the operand lattice; aggregate forms reduce exactly the given extents.', NOTE, 'DESIGN.md §5 C07'),
    'C08': ('proof', 'AST extraction + exhaustive Boolean canonical form (row-occupancy truth tables) of the 8 predicates and 4 operator aliases',
            'Sound and complete decision of the predicate clause: each of the eight predicates (and each of <=,>=,<,>) '
            'is extracted from the source as a formula over the two extents and the top/bottom extents and proven equal, '
            'as a Boolean function on every admissible occupancy pattern, to the statement\'s definition; holds for all contexts and all pairs.',
            'Trusted: bitsets MemberBits is an int subclass with int\'s & | ^ ~ == != bool(); "iff intent(y) <= intent(x)" is the FCA duality theorem, not checked.',
            'DESIGN.md §5 C08, Appendix B'),
    'C09': ('other', 'heap-merge template conformance of iterunion, rank/successor direction pairing at the four call sites, tools.maximal slots',
            OTHER_TEXT + 'C09: traversal yields each rank once in pop order from a below-all-ranks start; directions pair (index, upper) / (dindex, lower); seeds reduced in the matching direction.', NOTE, 'DESIGN.md §5 C09'),
    'C10': ('other', 'append-or-create template of _annotate with key sorts, finalisation pairing, who-may-write, Boolean canonical form of the atoms filter',
            OTHER_TEXT + 'C10: each object/property is appended, in context order, to the label of the concept looked up by its own closure; labels finalised; atoms filter is a <= e.', NOTE, 'DESIGN.md §5 C10'),
    'C11': ('other', 'writer/reader agreement rules (field order, key sets, cache key, flags), pickle state agreement and PICKLE-DEPTH type-graph rule',
            OTHER_TEXT + 'C11: _tolist/_fromlist, todict/fromdict, python-literal dump/load, json, and the three pickle protocols agree field by field; lattice state is flat.', NOTE + ' Value-level round trips and cross-process behaviour are not decided.', 'DESIGN.md §5 C11'),
    'C12': ('other', 'registry exhaustiveness, symbol-table inversion, layout token order, PARAM-CLOBBER discipline, index-export comprehension shape',
            OTHER_TEXT + 'C12: dumper and loader of each format agree on symbols, order and parameters; suffix inference; index exports list exactly the true positions.', NOTE + ' Round-trip equality over label alphabets, quoting and encodings is not decided.', 'DESIGN.md §5 C12'),
    'C13': ('other', 'effect extraction per mutator (container-typed fields), two-sorted name typing of cells, pairing (axis removal => purge, rename rewrite), validate-before-mutate, Unique invariant',
            OTHER_TEXT + 'C13: every editing method keeps cells within axes, purges on removal, rewrites on rename, raises before mutating, appends in the order given; _seen == set(_items).', NOTE + ' Equality with the ordered-table model over all histories is not decided.', 'DESIGN.md §5 C13'),
    'C14': ('other', 'freshness/ownership classification at every _fromargs site, cell comprehension templates, guard formulas by truth table, equality completeness, cross-class agreement',
            OTHER_TEXT + 'C14: derived definitions own fresh containers and have the stated cells; __eq__/__ne__ compare the whole triple; Context and Definition agree on iteration order, crc32, tostring, shape.', NOTE, 'DESIGN.md §5 C14'),
    'C16': ('other', 'docstring table decoding with computed feasibility sets, dispatch/orientation slots, combinations pairing, EMPTY-REDUCE lint',
            OTHER_TEXT + 'C16: the pattern tables are exhaustive over the feasible patterns and bound to the named kinds and ranks; pairs formed once in item order with aligned columns; printing an empty list is defined.', NOTE, 'DESIGN.md §5 C16'),
    'C17': ('other', 'interprocedural order-taint analysis (set-typed sources, ordered-view propagation, sink/sanitiser classification) over the whole package',
            OTHER_TEXT + 'C17: no hash-seed dependent iteration order reaches an ordered observable result; id()/hash() only inside __repr__.', NOTE + ' Nondeterminism inside bitsets/graphviz/json is outside /repo.', 'DESIGN.md §5 C17, App. C'),
    'C18': ('other', 'template and sort rules over _minimize/_minimal and their three callers',
            OTHER_TEXT + 'C18: candidates are the subsets of the intent, one is yielded iff its derivation equals the extent; empty-extent and infimum cases.', NOTE + ' Shortlex order/uniqueness are bitsets.powerset\'s.', 'DESIGN.md §5 C18'),
    'C19': ('other', 'exception discipline and guard predicates as propositional formulas over canonical atoms (truth-table comparison), dominance of validation over construction',
            OTHER_TEXT + 'C19: every raise is ValueError, KeyError from dict lookups is converted, the disjunction of guards equals the specification, guards precede construction, accepted input is passed on unmodified.', NOTE, 'DESIGN.md §5 C19, App. D'),
    'C20': ('other', 'call-site classification of node/edge/edges in visualize.lattice (one node per concept, label carriers, single orientation family)',
            OTHER_TEXT + 'C20: one unconditional node per concept named by index; label self-loops guarded by their own label; cover edges to every lower neighbour exactly once; undirected.', NOTE + ' DOT text production is graphviz\'s.', 'DESIGN.md §5 C20'),
}

NOT_YET = {}
NA = {
    'C15': 'invariance under row/column permutation, duplication and transposition relates the results of two different '
           'executions (runtime values); no clause of it except the symmetry obligations already decided under C01/C04/C14 '
           'is visible in the shape of the code, so static analysis honestly does not apply (DESIGN.md §6)',
}


def main():
    props = [json.loads(l)['id'] for l in (HERE / 'properties.jsonl').read_text().splitlines() if l.strip()]
    checks = []
    for pid in props:
        if pid not in CLAIMED:
            continue
        cat, tech, text, note, ref = CLAIMED[pid]
        checks.append({
            'property_id': pid,
            'quick_cmd': f'/venv/bin/python -m sa.check {pid} --tier quick',
            'thorough_cmd': f'/venv/bin/python -m sa.check {pid} --tier thorough',
            'evidence_file': f'/verif/evidence/{pid}.json',
            'replay_cmd_template': f'/venv/bin/python -m sa.check {pid} --explain {{path}}',
            'engine': 'sa',
            'level_claimed': {'category': cat, 'text': text, 'design_ref': ref},
            'level_note': note,
            'technique': 'static analysis: ' + tech,
        })
    na = []
    for pid in props:
        if pid in CLAIMED:
            continue
        reason = NA.get(pid) or NOT_YET.get(pid) or 'static check for this property is not built yet in this tree; not claimed until it is'
        na.append({'property_id': pid, 'reason': reason})
    manifest = {
        'version': 1,
        'setup_cmd': '/venv/bin/python -m compileall -q sa',
        'hooks': {
            'guard': 'XFLR6_CONCEPTS_VERIF',
            'enable': 'none needed: the checks parse /repo/concepts with ast and never import it; no hook commits exist',
            'baseline_off_cmd': 'cd /repo && /venv/bin/python -m pytest -ra -q -p no:cacheprovider',
            'source_commits': [],
            'add_only': True,
        },
        'engines': [{'name': 'sa', 'path': '/verif/sa', 'serves_properties': sorted(CLAIMED),
                     'kind_free_text': 'repository-specific static analysis over the Python AST: program model with MRO, '
                                       'alias expansion, Boolean canonical forms of bit-set predicates, freshness/ownership, '
                                       'order taint, exception/guard discipline, pairing and agreement rules, algorithm-template conformance'}],
        'checks': checks,
        'not_applicable': na,
        'notes': 'All checks are static (ast only; nothing from /repo is imported or executed). Exit 0 = all obligations discharged; '
                 'exit 1 + VIOLATION line = a recognised construct violates a rule; exit 2 + ANALYSIS-ERROR = anchor vanished or idiom '
                 'not recognised (never a silent pass). Genuine defects D1-D4 were repaired in /repo by four "fix:" commits, '
                 'see known_findings.json and DESIGN.md §4.1.',
    }
    (HERE / 'MANIFEST.json').write_text(json.dumps(manifest, indent=1) + '\n')
    print(len(checks), 'checks;', len(na), 'not applicable')


if __name__ == '__main__':
    main()
